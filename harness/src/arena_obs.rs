//! Observation of a real `indextree::Arena<u32>` for suite `arena`: what the crate keeps private
//! (stamps, the `NextFree` links, the free-list heads) is read from the `Debug` output of `NodeId`,
//! `Node` and `Arena`; the wire format of ids / slots / the whole arena; and `validate`, the
//! pointer invariant checked through the public accessors, independently of the Lean model.
use indextree::{Arena, NodeId};
use std::collections::BTreeSet;

pub type A = Arena<u32>;

// ---------------------------------------------------------------- reading the private parts

fn after<'a>(s: &'a str, key: &str) -> &'a str {
    match s.rfind(key) {
        Some(p) => &s[p + key.len()..],
        None => "",
    }
}

pub fn int_prefix(s: &str) -> i64 {
    let end = s.find(|c: char| !(c == '-' || c.is_ascii_digit())).unwrap_or(s.len());
    s[..end].parse().unwrap_or(0)
}

fn opt_usize(s: &str) -> Option<usize> {
    if s.starts_with("Some(") { Some(int_prefix(&s[5..]) as usize) } else { None }
}

pub fn id_parts(id: NodeId) -> (usize, i64) {
    let d = format!("{:?}", id);
    let index1: usize = id.into();
    (index1, int_prefix(after(&d, "NodeStamp(")))
}

pub fn wid(id: NodeId) -> String {
    let (i, s) = id_parts(id);
    format!("{}:{}", i, s)
}

pub fn wopt(id: Option<NodeId>) -> String {
    id.map(wid).unwrap_or_else(|| "-".to_string())
}

/// (stamp, payload or free link) of a slot.
pub fn slot_private(n: &indextree::Node<u32>) -> (i64, Result<u32, Option<usize>>) {
    let d = format!("{:?}", n);
    let data = after(&d, "data: ");
    let head = &d[..d.rfind("data: ").unwrap_or(d.len())];
    let stamp = int_prefix(after(head, "stamp: NodeStamp("));
    if data.starts_with("Data(") {
        (stamp, Ok(int_prefix(&data[5..]) as u32))
    } else {
        (stamp, Err(opt_usize(&data["NextFree(".len()..])))
    }
}

pub fn free_heads(a: &A) -> (Option<usize>, Option<usize>) {
    // only the tail of the Debug text is needed: format an arena without the slots
    let d = format!("{:?}", a);
    (opt_usize(after(&d, "first_free_slot: ")), opt_usize(after(&d, "last_free_slot: ")))
}

pub fn wslot(n: &indextree::Node<u32>) -> String {
    let (stamp, data) = slot_private(n);
    let data = match data {
        Ok(v) => format!("D{}", v),
        Err(None) => "F-".to_string(),
        Err(Some(k)) => format!("F{}", k),
    };
    format!("{},{},{},{},{},{},{}", wopt(n.parent()), wopt(n.previous_sibling()), wopt(n.next_sibling()),
        wopt(n.first_child()), wopt(n.last_child()), stamp, data)
}

fn wnat(x: Option<usize>) -> String {
    x.map(|v| v.to_string()).unwrap_or_else(|| "-".to_string())
}

pub fn dump(a: &A) -> String {
    let (f, l) = free_heads(a);
    let mut parts = vec![format!("{} {}", wnat(f), wnat(l))];
    for n in a.iter() {
        parts.push(wslot(n));
    }
    format!("{{{}}}", parts.join("|"))
}

// ---------------------------------------------------------------- independent validator

struct View {
    parent: Vec<Option<(usize, i64)>>,
    prev: Vec<Option<(usize, i64)>>,
    next: Vec<Option<(usize, i64)>>,
    first: Vec<Option<(usize, i64)>>,
    last: Vec<Option<(usize, i64)>>,
    stamp: Vec<i64>,
    free_link: Vec<Option<Option<usize>>>, // Some(link) for a NextFree slot
    heads: (Option<usize>, Option<usize>),
}

fn view(a: &A) -> View {
    let p = |x: Option<NodeId>| x.map(id_parts);
    let mut v = View { parent: vec![], prev: vec![], next: vec![], first: vec![], last: vec![], stamp: vec![],
        free_link: vec![], heads: free_heads(a) };
    for n in a.iter() {
        let (stamp, data) = slot_private(n);
        v.parent.push(p(n.parent()));
        v.prev.push(p(n.previous_sibling()));
        v.next.push(p(n.next_sibling()));
        v.first.push(p(n.first_child()));
        v.last.push(p(n.last_child()));
        v.stamp.push(stamp);
        v.free_link.push(data.err());
    }
    v
}

impl View {
    fn n(&self) -> usize { self.stamp.len() }
    fn live(&self, i: usize) -> bool { i < self.n() && self.stamp[i] >= 0 }
    /// the pointer is the current id of a live slot: its slot index
    fn cur(&self, p: (usize, i64)) -> Option<usize> {
        let i = p.0 - 1;
        if self.live(i) && self.stamp[i] == p.1 { Some(i) } else { None }
    }
}

/// The pointer invariant, from the accessors: child sets by parent pointer against the sibling
/// chains, back links, last child, parentless nodes without siblings, no parent cycle, free list
/// = removed slots.
pub fn validate(a: &A) -> bool {
    let v = view(a);
    let n = v.n();
    for i in 0..n {
        if v.stamp[i] < -32767 || v.stamp[i] > 32767 { return false; }
        if (v.stamp[i] < 0) != v.free_link[i].is_some() { return false; }
    }
    // free list
    let mut seen = BTreeSet::new();
    let mut cur = v.heads.0;
    let mut last = None;
    while let Some(i) = cur {
        if i >= n || !seen.insert(i) { return false; }
        match v.free_link[i] { Some(nx) => { last = Some(i); cur = nx; } None => return false }
    }
    if last != v.heads.1 { return false; }
    for i in 0..n { if (v.stamp[i] < 0) != seen.contains(&i) { return false; } }
    // expected child sets
    let mut expect: Vec<BTreeSet<usize>> = vec![BTreeSet::new(); n];
    for i in 0..n {
        if !v.live(i) { continue; }
        match v.parent[i] {
            Some(p) => match v.cur(p) { Some(pi) => { expect[pi].insert(i); } None => return false },
            None => if v.prev[i].is_some() || v.next[i].is_some() { return false; }
        }
    }
    for p in 0..n {
        if !v.live(p) { continue; }
        let mut chain = BTreeSet::new();
        let mut prev: Option<(usize, i64)> = None;
        let mut cur = v.first[p];
        while let Some(c) = cur {
            let ci = match v.cur(c) { Some(ci) => ci, None => return false };
            if !chain.insert(ci) { return false; }
            if v.prev[ci] != prev { return false; }
            if v.parent[ci] != Some((p + 1, v.stamp[p])) { return false; }
            prev = Some(c);
            cur = v.next[ci];
        }
        if v.last[p] != prev { return false; }
        if chain != expect[p] { return false; }
    }
    // no parent cycle
    for i in 0..n {
        if !v.live(i) { continue; }
        let mut cur = v.parent[i];
        let mut steps = 0;
        while let Some(p) = cur {
            steps += 1;
            if steps > n { return false; }
            cur = v.parent[p.0 - 1];
        }
    }
    true
}

