//! The convenience functions of the public mutating API that the `forest` requests did not
//! reach: `new_document_with_element`, `append_text` / `_element` / `_comment` /
//! `_processing_instruction`, `append_namespace`, the `set_` / `remove_` `attribute` / `namespace`
//! wrappers, and the value setters behind `element_mut`, `attribute_node_mut`,
//! `namespace_node_mut`, `processing_instruction_mut().set_target`, `text_mut().get_mut()` and
//! `value_mut`.  Every request calls THE REAL FUNCTION; `suite_forest::Session::exec` falls
//! through to `exec_creation`, the generators of suites `forest` and `fspec` draw from `gen_req`.
//! Model side: `lean/XotModel/Model/Fcreation.lean`, `Driver/Fcreation.lean`.
use crate::common::{dec, enc, guarded, Rng};
use crate::suite_forest::{err_str, Session};
use crate::tree::{GTree, GValue};
use xot::{Node, Value};

/// (request name, weight in the random histories of suite `forest`)
pub const OPS: &[(&str, usize)] = &[
    ("new_doc_with", 6), ("append_text", 5), ("append_element", 3), ("append_comment", 2), ("append_pi", 2),
    ("append_namespace", 3), ("set_attribute", 2), ("remove_attribute", 1), ("set_namespace", 2), ("remove_namespace", 1),
    ("el_set_name", 1), ("attr_set_value", 2), ("ns_set_ns", 2), ("pi_set_target", 1), ("text_push", 1), ("value_mut_set", 2),
];

pub fn is_creation_op(op: &str) -> bool {
    OPS.iter().any(|o| o.0 == op)
}

/// The node-map wrappers panic on a node that is not an element (documented).
pub fn documented_panic(op: &str) -> bool {
    matches!(op, "set_attribute" | "remove_attribute" | "set_namespace" | "remove_namespace")
}

fn unit(r: Option<Result<(), xot::Error>>) -> String {
    match r {
        None => "panic".into(),
        Some(Ok(())) => "ok".into(),
        Some(Err(e)) => err_str(&e),
    }
}

fn node_res(r: Option<Result<Node, xot::Error>>, returned: &mut Option<Node>) -> String {
    match r {
        None => "panic".into(),
        Some(Ok(n)) => {
            *returned = Some(n);
            "NEW".into()
        }
        Some(Err(e)) => err_str(&e),
    }
}

/// `Some(true)` = the accessor handed out a value and it was set; `Some(false)` = `None`.
fn opt(r: Option<bool>) -> String {
    match r {
        None => "panic".into(),
        Some(true) => "ok".into(),
        Some(false) => "err:InvalidOperation".into(),
    }
}

/// Execute one request of this file on the real Xot; `None` = not one of ours.
/// Returns the response (`NEW` = "ok <label of the returned node>") and the returned node.
pub fn exec_creation(s: &mut Session, w: &[&str]) -> Option<(String, Option<Node>)> {
    let n = |s: &Session, i: usize| s.nodes[w[i].parse::<usize>().unwrap()];
    let num = |i: usize| w[i].parse::<usize>().unwrap();
    let mut returned: Option<Node> = None;
    let resp = match w[0] {
        "new_doc_with" => {
            let a = n(s, 1);
            node_res(guarded(|| s.xot.new_document_with_element(a)), &mut returned)
        }
        "append_text" => {
            let (p, v) = (n(s, 1), dec(w[2]).unwrap());
            unit(guarded(|| s.xot.append_text(p, &v)))
        }
        "append_element" => {
            let (p, name) = (n(s, 1), s.vocab.name(num(2)));
            unit(guarded(|| s.xot.append_element(p, name)))
        }
        "append_comment" => {
            let (p, v) = (n(s, 1), dec(w[2]).unwrap());
            unit(guarded(|| s.xot.append_comment(p, &v)))
        }
        "append_pi" => {
            let (p, target) = (n(s, 1), s.vocab.name(num(2)));
            let d = if w[3] == "-" { None } else { Some(dec(w[3]).unwrap()) };
            unit(guarded(|| s.xot.append_processing_instruction(p, target, d.as_deref())))
        }
        "append_namespace" => {
            let e = n(s, 1);
            let (pf, ns) = (s.vocab.prefixes[num(2)].0.clone(), s.vocab.namespaces[num(3)].0.clone());
            // interning strings that are registered already hands back the same ids
            let create = xot::xmlname::CreateNamespace::new(&mut s.xot, &pf, &ns);
            assert_eq!(create.prefix_id(), s.vocab.prefix(num(2)));
            assert_eq!(create.namespace_id(), s.vocab.ns(num(3)));
            node_res(guarded(|| s.xot.append_namespace(e, &create)), &mut returned)
        }
        "set_attribute" => {
            let (e, name, v) = (n(s, 1), s.vocab.name(num(2)), dec(w[3]).unwrap());
            match guarded(|| s.xot.set_attribute(e, name, v)) { None => "panic".into(), Some(()) => "ok".into() }
        }
        "remove_attribute" => {
            let (e, name) = (n(s, 1), s.vocab.name(num(2)));
            match guarded(|| s.xot.remove_attribute(e, name)) { None => "panic".into(), Some(()) => "ok".into() }
        }
        "set_namespace" => {
            let (e, pf, ns) = (n(s, 1), s.vocab.prefix(num(2)), s.vocab.ns(num(3)));
            match guarded(|| s.xot.set_namespace(e, pf, ns)) { None => "panic".into(), Some(()) => "ok".into() }
        }
        "remove_namespace" => {
            let (e, pf) = (n(s, 1), s.vocab.prefix(num(2)));
            match guarded(|| s.xot.remove_namespace(e, pf)) { None => "panic".into(), Some(()) => "ok".into() }
        }
        "el_set_name" => {
            let (a, name) = (n(s, 1), s.vocab.name(num(2)));
            opt(guarded(|| s.xot.element_mut(a).map(|e| e.set_name(name)).is_some()))
        }
        "attr_set_value" => {
            let (a, v) = (n(s, 1), dec(w[2]).unwrap());
            opt(guarded(|| s.xot.attribute_node_mut(a).map(|x| x.set_value(v)).is_some()))
        }
        "ns_set_ns" => {
            let (a, ns) = (n(s, 1), s.vocab.ns(num(2)));
            opt(guarded(|| s.xot.namespace_node_mut(a).map(|x| x.set_namespace(ns)).is_some()))
        }
        "pi_set_target" => {
            let (a, t) = (n(s, 1), s.vocab.name(num(2)));
            match guarded(|| s.xot.processing_instruction_mut(a).map(|p| p.set_target::<String>(t))) {
                None => "panic".into(),
                Some(None) => "err:InvalidOperation".into(),
                Some(Some(Ok(()))) => "ok".into(),
                Some(Some(Err(e))) => err_str(&e),
            }
        }
        "text_push" => {
            let (a, v) = (n(s, 1), dec(w[2]).unwrap());
            opt(guarded(|| s.xot.text_mut(a).map(|t| t.get_mut().push_str(&v)).is_some()))
        }
        "value_mut_set" => {
            let (a, v) = (n(s, 1), dec(w[2]).unwrap());
            let r = guarded(|| match s.xot.value_mut(a) {
                Value::Text(t) => { t.set(v); Ok(true) }
                Value::Comment(c) => c.set(v).map(|_| true),
                Value::Attribute(x) => { x.set_value(v); Ok(true) }
                Value::ProcessingInstruction(p) => { p.set_data(Some(v)); Ok(true) }
                _ => Ok(false),
            });
            match r {
                None => "panic".into(),
                Some(Ok(b)) => opt(Some(b)),
                Some(Err(e)) => err_str(&e),
            }
        }
        _ => return None,
    };
    Some((resp, returned))
}

/// Is the node an attached element sitting directly between two text siblings?
fn between_texts(s: &Session, l: usize) -> bool {
    let n = s.nodes[l];
    match (s.xot.previous_sibling(n), s.xot.next_sibling(n)) {
        (Some(p), Some(q)) => s.xot.is_text(p) && s.xot.is_text(q),
        _ => false,
    }
}

/// The argument of `new_doc_with`: mostly an ATTACHED element between two text nodes (the place
/// it leaves must be consolidated), else an element with a parent, any element (fresh ones
/// included), now and then any node (refusal).
pub fn pick_doc_element(rng: &mut Rng, s: &Session, live: &[usize]) -> usize {
    let elems: Vec<usize> = live.iter().copied().filter(|&l| s.xot.is_element(s.nodes[l])).collect();
    let gap: Vec<usize> = elems.iter().copied().filter(|&l| between_texts(s, l)).collect();
    let attached: Vec<usize> = elems.iter().copied().filter(|&l| s.xot.parent(s.nodes[l]).is_some()).collect();
    match rng.below(8) {
        0..=4 if !gap.is_empty() => *rng.pick(&gap),
        0..=5 if !attached.is_empty() => *rng.pick(&attached),
        0..=6 if !elems.is_empty() => *rng.pick(&elems),
        _ => *rng.pick(live),
    }
}

/// Statistics key describing the geometry of a request of this file (before it is executed).
pub fn classify(s: &Session, req: &str) -> Option<String> {
    let w: Vec<&str> = req.split(' ').collect();
    if !is_creation_op(w[0]) {
        return None;
    }
    let l: usize = w[1].parse().unwrap();
    let n = s.nodes[l];
    let x = &s.xot;
    Some(match w[0] {
        "new_doc_with" => {
            let g = if !x.is_element(n) { "non-element" }
                else if between_texts(s, l) { "attached-between-two-text-nodes" }
                else if x.parent(n).is_some() { "attached-elsewhere" }
                else { "parentless" };
            format!("newdoc.arg.{}", g)
        }
        "append_text" | "append_element" | "append_comment" | "append_pi" => {
            let g = if !(x.is_element(n) || x.is_document(n)) { "parent-refused" }
                else if x.last_child(n).map(|c| x.is_text(c)).unwrap_or(false) { "after-trailing-text" }
                else if x.last_child(n).is_some() { "after-non-text" }
                else { "first-child" };
            format!("{}.{}", w[0], g)
        }
        "append_namespace" | "set_namespace" => {
            let g = if !x.is_element(n) { "non-element" }
                else if x.namespaces(n).contains_key(s.vocab.prefix(w[2].parse().unwrap())) { "prefix-exists" }
                else { "new-prefix" };
            format!("{}.{}", w[0], g)
        }
        other => format!("{}.{}", other, format!("{:?}", x.value_type(n)).to_lowercase()),
    })
}

fn small(rng: &mut Rng) -> String {
    rng.pick(&["x", "y", " ", "ab", "", "z-", "--"]).to_string()
}

/// A request for `op` on the current session (`live` non-empty).
pub fn gen_req(op: &str, rng: &mut Rng, s: &Session, live: &[usize]) -> String {
    let any = *rng.pick(live);
    let of = |rng: &mut Rng, f: &dyn Fn(Node) -> bool, odds: usize| -> usize {
        let c: Vec<usize> = live.iter().copied().filter(|&l| f(s.nodes[l])).collect();
        if c.is_empty() || rng.chance(1, odds) { any } else { *rng.pick(&c) }
    };
    let elem = |rng: &mut Rng| of(rng, &|n| s.xot.is_element(n), 8);
    // a parent for the append_* calls: an element or document, preferably one whose last child is text
    let parent = |rng: &mut Rng| -> usize {
        let tail_text = of(rng, &|n| s.xot.last_child(n).map(|c| s.xot.is_text(c)).unwrap_or(false), 6);
        if rng.chance(1, 2) { tail_text } else { of(rng, &|n| s.xot.is_element(n) || s.xot.is_document(n), 6) }
    };
    match op {
        "new_doc_with" => format!("new_doc_with {}", pick_doc_element(rng, s, live)),
        "append_text" => format!("append_text {} {}", parent(rng), enc(&small(rng))),
        "append_element" => format!("append_element {} {}", parent(rng), rng.pick(&[2usize, 3, 6])),
        "append_comment" => format!("append_comment {} {}", parent(rng), enc(&small(rng))),
        "append_pi" => format!("append_pi {} 17 {}", parent(rng), if rng.chance(1, 3) { "-".to_string() } else { enc(&small(rng)) }),
        "append_namespace" => format!("append_namespace {} {} {}", elem(rng), rng.pick(&[0usize, 2, 3]), rng.pick(&[0usize, 2, 3])),
        "set_attribute" => format!("set_attribute {} {} {}", elem(rng), rng.pick(&[2usize, 3, 0, 6]), enc(&small(rng))),
        "remove_attribute" => format!("remove_attribute {} {}", elem(rng), rng.pick(&[2usize, 3, 0, 6])),
        "set_namespace" => format!("set_namespace {} {} {}", elem(rng), rng.pick(&[0usize, 2, 3]), rng.pick(&[0usize, 2, 3])),
        "remove_namespace" => format!("remove_namespace {} {}", elem(rng), rng.pick(&[0usize, 2, 3])),
        "el_set_name" => format!("el_set_name {} {}", elem(rng), rng.pick(&[2usize, 6, 9])),
        "attr_set_value" => format!("attr_set_value {} {}", of(rng, &|n| s.xot.is_attribute_node(n), 5), enc(&small(rng))),
        "ns_set_ns" => format!("ns_set_ns {} {}", of(rng, &|n| s.xot.is_namespace_node(n), 5), rng.pick(&[0usize, 2, 3])),
        "pi_set_target" => format!("pi_set_target {} {}", of(rng, &|n| s.xot.is_processing_instruction(n), 5), rng.pick(&[17usize, 2])),
        "text_push" => format!("text_push {} {}", of(rng, &|n| s.xot.is_text(n), 5), enc(&small(rng))),
        "value_mut_set" => format!("value_mut_set {} {}", any, enc(&small(rng))),
        _ => unreachable!("not a creation op: {}", op),
    }
}

/// Small mixed-content forests for the directed cases: the elements `b` sit between two text
/// nodes (one of them carries content, attributes and a namespace declaration), a document, a
/// parentless text node and a parentless element.
pub fn directed_forests() -> Vec<Vec<GTree>> {
    let t = |x: &str| GTree::leaf(GValue::Text(x.into()));
    let e = |n: usize, kids: Vec<GTree>| GTree::new(GValue::Element(n), kids);
    let rich = e(3, vec![GTree::leaf(GValue::Namespace(2, 2)), GTree::leaf(GValue::Attribute(3, "v".into())), t("k"), e(6, vec![]), t("m")]);
    vec![
        vec![e(2, vec![t("x"), e(3, vec![]), t("y")]), t("z")],
        vec![e(2, vec![t("x"), rich, t("y"), GTree::leaf(GValue::Comment("c".into())), GTree::leaf(GValue::PI(17, None))]), e(6, vec![])],
        vec![GTree::new(GValue::Document, vec![e(2, vec![e(3, vec![]), t("x"), e(3, vec![t("i")]), t("y")])]), e(6, vec![t("w")])],
    ]
}

/// Every call of this file with the node `a` as its node argument.
pub fn directed_reqs(a: usize) -> Vec<String> {
    vec![
        format!("new_doc_with {}", a),
        format!("append_text {} {}", a, enc("q")),
        format!("append_text {} {}", a, enc("")),
        format!("append_element {} 6", a),
        format!("append_comment {} {}", a, enc("c")),
        format!("append_pi {} 17 {}", a, enc("d")),
        format!("append_namespace {} 2 3", a),
        format!("append_namespace {} 3 3", a),
        format!("set_attribute {} 3 {}", a, enc("w")),
        format!("remove_attribute {} 3", a),
        format!("set_namespace {} 2 3", a),
        format!("remove_namespace {} 2", a),
        format!("el_set_name {} 9", a),
        format!("attr_set_value {} {}", a, enc("w")),
        format!("ns_set_ns {} 3", a),
        format!("pi_set_target {} 2", a),
        format!("text_push {} {}", a, enc("q")),
        format!("value_mut_set {} {}", a, enc("q")),
    ]
}
