//! Generators of the `html` suite (C19): the vocabulary (HTML element names in several letter
//! cases × no namespace / XHTML / the `https` look-alike, MathML, SVG, foreign names), trees
//! (documents, fragments with top-level text, detached elements, single nodes) and parameter sets.
use crate::common::{Rng, Sink};
use crate::html_oracle::{HTTPS_URI, MATHML_URI, SVG_URI, XHTML_URI};
use crate::strings;
use crate::tree::*;
use std::collections::HashMap;
use xot::Xot;

pub const WEIRD_URI: &str = "urn:q\"<&>'\u{a0}";

pub const HTML_LOCALS: &[&str] = &[
    "p", "div", "br", "BR", "Br", "img", "hr", "input", "meta", "link", "span", "SPAN", "em", "i", "pre", "PRE", "script",
    "SCRIPT", "Script", "style", "STYLE", "title", "textarea", "table", "td", "ul", "li", "html", "head", "body", "h1",
    "basefont", "frame", "param", "keygen", "svg", "math", "custom", "x-y", "\u{212a}bd", "kbd", "a", "b", "lin\u{212a}", "LIN\u{212a}",
    "\u{212a}eygen", "trac\u{212a}", "track",
    // the other "raw text" elements of the WHATWG serialisation algorithm: the property allows raw
    // '<' / '&' inside script and style only (seed C19e)
    "xmp", "XMP", "iframe", "noembed", "noframes", "plaintext", "noscript", "listing",
];
const MATHML_LOCALS: &[&str] = &["math", "mi", "mo", "mrow", "annotation-xml", "script", "br"];
const SVG_LOCALS: &[&str] = &["svg", "g", "circle", "foreignObject", "script", "style", "title", "a", "br"];
const FOREIGN_LOCALS: &[&str] = &["a", "b", "x", "br", "script", "p", "svg"];
const ATTR_LOCALS: &[&str] = &["class", "checked", "CHECKED", "disabled", "selected", "href", "value", "x", "y", "a"];

/// Vocabulary plus lookup tables of the suite.
pub struct HVocab {
    pub v: Vocab,
    pub by_name: HashMap<(String, usize), usize>,
    pub ns_https: usize,
    pub ns_weird: usize,
    pub elems: Vec<usize>,
    pub attrs: Vec<usize>,
}

impl HVocab {
    pub fn new(xot: &mut Xot) -> HVocab {
        let mut v = Vocab::standard(xot);
        assert_eq!(v.namespaces[XHTML].0, XHTML_URI);
        assert_eq!(v.namespaces[MATHML].0, MATHML_URI);
        assert_eq!(v.namespaces[SVG].0, SVG_URI);
        let ns_https = v.add_ns(xot, HTTPS_URI);
        let ns_weird = v.add_ns(xot, WEIRD_URI);
        let mut elems = vec![];
        let mut attrs = vec![];
        for ns in [0, XHTML, ns_https] {
            for l in HTML_LOCALS {
                elems.push(v.add_name(xot, l, ns));
            }
        }
        for l in MATHML_LOCALS {
            elems.push(v.add_name(xot, l, MATHML));
        }
        for l in SVG_LOCALS {
            elems.push(v.add_name(xot, l, SVG));
        }
        for l in FOREIGN_LOCALS {
            elems.push(v.add_name(xot, l, NS_A));
        }
        elems.push(v.add_name(xot, "e", ns_weird));
        elems.push(v.add_name(xot, "lang", 1)); // an element in the XML namespace
        for l in ATTR_LOCALS {
            attrs.push(v.add_name(xot, l, 0));
        }
        for (l, ns) in [("checked", XHTML), ("class", XHTML), ("checked", ns_https), ("href", SVG), ("display", MATHML), ("x", NS_A), ("w", ns_weird), ("lang", 1), ("space", 1)] {
            attrs.push(v.add_name(xot, l, ns));
        }
        let by_name = v.names.iter().enumerate().map(|(i, (l, ns, _))| ((l.clone(), *ns), i)).collect();
        HVocab { v, by_name, ns_https, ns_weird, elems, attrs }
    }
    /// The standard vocabulary only: `XHTML_NS` is not registered until `xot.html5()` does it.
    pub fn standard_only(xot: &mut Xot) -> HVocab {
        let v = Vocab::standard(xot);
        let by_name = v.names.iter().enumerate().map(|(i, (l, ns, _))| ((l.clone(), *ns), i)).collect();
        HVocab { v, by_name, ns_https: usize::MAX, ns_weird: usize::MAX, elems: vec![], attrs: vec![] }
    }
    pub fn id(&self, local: &str, ns: usize) -> usize {
        *self.by_name.get(&(local.to_string(), ns)).unwrap_or_else(|| panic!("name {} in ns {} not in the vocabulary", local, ns))
    }
    pub fn local(&self, id: usize) -> &str {
        &self.v.names[id].0
    }
    pub fn ns_of(&self, id: usize) -> usize {
        self.v.names[id].1
    }
}

/// Parameter set: `cdata_section_elements` and `indentation` (suppress list).
#[derive(Clone, Debug)]
pub struct HParams {
    pub cdata: Vec<usize>,
    pub indent: Option<Vec<usize>>,
}

fn ids(v: &[usize]) -> String {
    if v.is_empty() {
        "-".to_string()
    } else {
        v.iter().map(|i| i.to_string()).collect::<Vec<_>>().join(",")
    }
}

impl HParams {
    pub fn plain() -> HParams {
        HParams { cdata: vec![], indent: None }
    }
    pub fn wire(&self) -> String {
        let ind = match &self.indent {
            None => "-".to_string(),
            Some(s) if s.is_empty() => "i".to_string(),
            Some(s) => format!("i{}", ids(s)),
        };
        format!("{} {}", ids(&self.cdata), ind)
    }
}

const SPECIAL_TEXT: &[&str] = &[
    "<", "&", "a<b&c", "\u{a0}", "x\u{a0}y", "\"q\"", "'", "]]>", "a]]>b", "&amp;", "&lt;", "</script>", "</p>", "<!--", "-->", ">",
    " ", "\n", "if (a<b && c>d) {}", "é", "\r", "<b>", "&nbsp;", "a\"b'c", "&#38;",
];

pub fn gen_text(rng: &mut Rng, nonempty: bool) -> String {
    loop {
        let s = match rng.below(8) {
            0..=2 => rng.pick(SPECIAL_TEXT).to_string(),
            3 => format!("{}{}", rng.pick(SPECIAL_TEXT), rng.pick(SPECIAL_TEXT)),
            4 => strings::xml_string(rng, 6),
            5 => rng.pick(&["text", "Hello world", "x", "1 2"]).to_string(),
            _ => strings::any_string(rng, 6),
        };
        if !nonempty || !s.is_empty() {
            return s;
        }
    }
}

fn gen_comment(rng: &mut Rng) -> String {
    match rng.below(10) {
        0 => rng.pick(&["-->", "a-->b", "--", "-", ">"]).to_string(),
        1..=3 => rng.pick(&["c", " a < b & c ", "<p>", "é\u{a0}"]).to_string(),
        _ => strings::xml_string(rng, 5).replace("--", "- "),
    }
}

fn gen_pi(rng: &mut Rng, hv: &HVocab) -> GTree {
    let target = match rng.below(12) {
        0 => hv.id("x", NS_A), // target in a namespace: refused
        1..=5 => hv.id("pi", 0),
        _ => hv.id("xml-stylesheet", 0),
    };
    let data = match rng.below(6) {
        0 => None,
        1 => Some(rng.pick(&[">", "a>b", "x=\"1\" >", "?>", "a ?> b"]).to_string()),
        2 => Some(rng.pick(&["href=\"a.css\"", "a<b", "&", "?", ""]).to_string()),
        _ => Some(strings::xml_string(rng, 5).replace('>', "g")),
    };
    GTree::leaf(GValue::PI(target, data))
}

/// An element name: namespace class first, then a local name of that class.
fn gen_name(rng: &mut Rng, hv: &HVocab) -> usize {
    match rng.below(20) {
        0..=5 => hv.id(*rng.pick(HTML_LOCALS), 0),
        6 | 7 => hv.id(*rng.pick(HTML_LOCALS), XHTML),
        // the crate's own XHTML constant: here the HTML rules are checked under ordinary signatures
        8..=10 => hv.id(*rng.pick(HTML_LOCALS), hv.ns_https),
        11 | 12 => hv.id(*rng.pick(MATHML_LOCALS), MATHML),
        13..=15 => hv.id(*rng.pick(SVG_LOCALS), SVG),
        16 | 17 => hv.id(*rng.pick(FOREIGN_LOCALS), NS_A),
        18 => *rng.pick(&[hv.id("e", hv.ns_weird), hv.id("lang", 1)]),
        _ => *rng.pick(&hv.elems),
    }
}

fn gen_attr(rng: &mut Rng, hv: &HVocab) -> GTree {
    let n = *rng.pick(&hv.attrs);
    let l = hv.local(n).to_string();
    let value = match rng.below(8) {
        0 | 1 => l.clone(),
        2 => l.to_ascii_uppercase(),
        3 => l.to_ascii_lowercase(),
        4 => rng.pick(&["\"", "&", "a\"b&c", "\u{a0}", "'", "<", ">", "a\tb\nc", "", "&{handler};", "a &{x} &amp; &#38; &b;", "&&{", "x&"]).to_string(),
        _ => gen_text(rng, false),
    };
    let value = if hv.ns_of(n) == 1 && l == "space" { rng.pick(&["preserve", "default", "x"]).to_string() } else { value };
    GTree::leaf(GValue::Attribute(n, value))
}

pub struct Cfg {
    pub max_depth: usize,
    pub max_kids: usize,
    pub adjacent_text: bool,
}

pub fn gen_element(rng: &mut Rng, hv: &HVocab, cfg: &Cfg, depth: usize) -> GTree {
    let name = gen_name(rng, hv);
    let mut kids = vec![];
    let mut seen = vec![];
    let all_ns = [0usize, NS_A, NS_B, XHTML, MATHML, SVG, hv.ns_https, hv.ns_weird, 1];
    if rng.chance(1, 3) {
        for _ in 0..1 + rng.below(2) {
            let p = *rng.pick(&[0usize, 2, 3, 4, 5]);
            if seen.contains(&p) {
                continue;
            }
            seen.push(p);
            // sometimes the declaration that fits the element's own namespace
            let ns = if rng.chance(1, 3) { hv.ns_of(name) } else { *rng.pick(&all_ns) };
            if p != 0 && ns == 0 {
                continue;
            }
            kids.push(GTree::leaf(GValue::Namespace(p, ns)));
        }
    }
    let mut seen = vec![];
    for _ in 0..rng.below(3) {
        let a = gen_attr(rng, hv);
        if let GValue::Attribute(n, _) = a.v {
            if seen.contains(&n) {
                continue;
            }
            seen.push(n);
        }
        kids.push(a);
    }
    let lower = hv.local(name).to_ascii_lowercase();
    let raw = matches!(lower.as_str(), "script" | "style");
    if raw && rng.chance(4, 5) {
        if rng.chance(4, 5) {
            kids.push(GTree::leaf(GValue::Text(gen_text(rng, true))));
        }
    } else if depth < cfg.max_depth {
        let n = rng.below(cfg.max_kids + 1);
        let mut last_text = false;
        for _ in 0..n {
            let k = gen_normal(rng, hv, cfg, depth + 1);
            let is_text = matches!(k.v, GValue::Text(_));
            if is_text && last_text && !cfg.adjacent_text {
                continue;
            }
            last_text = is_text;
            kids.push(k);
        }
    }
    GTree::new(GValue::Element(name), kids)
}

pub fn gen_normal(rng: &mut Rng, hv: &HVocab, cfg: &Cfg, depth: usize) -> GTree {
    match rng.below(12) {
        0..=5 => gen_element(rng, hv, cfg, depth),
        6..=9 => GTree::leaf(GValue::Text(gen_text(rng, true))),
        10 => GTree::leaf(GValue::Comment(gen_comment(rng))),
        _ => gen_pi(rng, hv),
    }
}

/// Declare a prefix for every namespace that an element or attribute name needs and that has no
/// usable binding: on the element itself, or (`hoist`) all of them on the outermost element.
fn repair(t: &mut GTree, hv: &HVocab, scope: &mut Vec<(usize, usize)>, needed_above: &mut Vec<usize>, hoist: bool) {
    if let GValue::Element(name) = t.v {
        let mark = scope.len();
        for k in &t.kids {
            if let GValue::Namespace(p, n) = k.v {
                scope.push((p, n));
            }
        }
        let mut needed: Vec<(usize, bool)> = vec![(hv.ns_of(name), true)];
        for k in &t.kids {
            if let GValue::Attribute(a, _) = k.v {
                needed.push((hv.ns_of(a), false));
            }
        }
        for (ns, allow_empty) in needed {
            if ns == 0 || ns == 1 {
                continue;
            }
            let mut seen = vec![];
            let mut bound = false;
            for (p, n) in scope.iter().rev() {
                if seen.contains(p) {
                    continue;
                }
                seen.push(*p);
                if *n == ns && (allow_empty || *p != 0) {
                    bound = true;
                }
            }
            if bound {
                continue;
            }
            if hoist {
                if !needed_above.contains(&ns) {
                    needed_above.push(ns);
                }
            } else {
                let declared: Vec<usize> = t.kids.iter().filter_map(|k| if let GValue::Namespace(p, _) = k.v { Some(p) } else { None }).collect();
                if let Some(p) = [2usize, 3, 4, 5, 6].into_iter().find(|p| !declared.contains(p)) {
                    let at = t.kids.iter().position(|k| !matches!(k.v, GValue::Namespace(..))).unwrap_or(t.kids.len());
                    t.kids.insert(at, GTree::leaf(GValue::Namespace(p, ns)));
                    scope.push((p, ns));
                }
            }
        }
        for k in t.kids.iter_mut() {
            repair(k, hv, scope, needed_above, hoist);
        }
        scope.truncate(mark);
    } else {
        for k in t.kids.iter_mut() {
            repair(k, hv, scope, needed_above, hoist);
        }
    }
}

fn hoist_onto_first_element(t: &mut GTree, needed: &[usize]) {
    if let GValue::Element(_) = t.v {
        let declared: Vec<usize> = t.kids.iter().filter_map(|k| if let GValue::Namespace(p, _) = k.v { Some(p) } else { None }).collect();
        let mut free = [2usize, 3, 4, 5, 6].into_iter().filter(|p| !declared.contains(p));
        for ns in needed {
            if let Some(p) = free.next() {
                let at = t.kids.iter().position(|k| !matches!(k.v, GValue::Namespace(..))).unwrap_or(t.kids.len());
                t.kids.insert(at, GTree::leaf(GValue::Namespace(p, *ns)));
            }
        }
        return;
    }
    if let Some(k) = t.kids.iter_mut().find(|k| matches!(k.v, GValue::Element(_))) {
        hoist_onto_first_element(k, needed);
    }
}

pub fn gen_tree(rng: &mut Rng, sink: &mut Sink, hv: &HVocab) -> GTree {
    let cfg = Cfg { max_depth: if rng.chance(1, 3) { 5 } else { 3 }, max_kids: 3 + rng.below(2), adjacent_text: rng.chance(1, 12) };
    let kind = rng.below(20);
    let mut t = match kind {
        0..=5 => {
            // a document with one element and comments / PIs around it
            let mut kids = vec![];
            if rng.chance(1, 4) {
                kids.push(GTree::leaf(GValue::Comment(gen_comment(rng))));
            }
            kids.push(gen_element(rng, hv, &cfg, 1));
            if rng.chance(1, 5) {
                kids.push(gen_pi(rng, hv));
            }
            GTree::new(GValue::Document, kids)
        }
        6..=10 => {
            // a fragment: any normal children, text at the top level included
            let mut kids = vec![];
            let mut last_text = false;
            for _ in 0..rng.below(cfg.max_kids + 1) {
                let k = gen_normal(rng, hv, &cfg, 1);
                let is_text = matches!(k.v, GValue::Text(_));
                if is_text && last_text && !cfg.adjacent_text {
                    continue;
                }
                last_text = is_text;
                kids.push(k);
            }
            GTree::new(GValue::Document, kids)
        }
        11..=15 => gen_element(rng, hv, &cfg, 1),
        16 | 17 => GTree::leaf(GValue::Text(gen_text(rng, true))),
        18 => match rng.below(3) {
            0 => GTree::leaf(GValue::Comment(gen_comment(rng))),
            1 => gen_pi(rng, hv),
            _ => GTree::leaf(GValue::Document),
        },
        _ => {
            if rng.chance(1, 2) {
                gen_attr(rng, hv)
            } else {
                GTree::leaf(GValue::Namespace(*rng.pick(&[0usize, 2, 3]), *rng.pick(&[NS_A, SVG, XHTML])))
            }
        }
    };
    sink.stat(&format!(
        "gen.kind.{}",
        match kind {
            0..=5 => "document",
            6..=10 => "fragment",
            11..=15 => "detached-element",
            16 | 17 => "detached-text",
            18 => "comment-pi-emptydoc",
            _ => "attribute-namespace",
        }
    ));
    match rng.below(6) {
        0 => sink.stat("gen.scope.as-generated"),
        1..=3 => {
            repair(&mut t, hv, &mut vec![], &mut vec![], false);
            sink.stat("gen.scope.repaired-locally");
        }
        _ => {
            let mut needed = vec![];
            repair(&mut t, hv, &mut vec![], &mut needed, true);
            hoist_onto_first_element(&mut t, &needed);
            sink.stat("gen.scope.repaired-on-outermost-element");
        }
    }
    t
}

pub fn gen_params(rng: &mut Rng, hv: &HVocab, t: &GTree) -> HParams {
    // names that occur in the tree are the interesting members of the lists
    let mut used = vec![];
    fn collect(t: &GTree, out: &mut Vec<usize>) {
        if let GValue::Element(n) = t.v {
            if !out.contains(&n) {
                out.push(n);
            }
        }
        for k in &t.kids {
            collect(k, out);
        }
    }
    collect(t, &mut used);
    let subset = |rng: &mut Rng| -> Vec<usize> {
        let mut v: Vec<usize> = match rng.below(4) {
            0 => vec![],
            1 => used.iter().copied().filter(|_| rng.chance(1, 2)).collect(),
            2 => used.clone(),
            _ => vec![*rng.pick(&hv.elems)],
        };
        if rng.chance(1, 4) {
            // same local name in another letter case / namespace: the case-insensitive suppress match
            v.insert(0, *rng.pick(&hv.elems));
        }
        v
    };
    let cdata = if rng.chance(1, 2) { subset(rng) } else { vec![] };
    let indent = if rng.chance(1, 2) { Some(if rng.chance(1, 2) { subset(rng) } else { vec![] }) } else { None };
    HParams { cdata, indent }
}
