//! Shared pieces: PRNG, string codec of the line protocol, statistics.
use std::collections::BTreeMap;
use std::fmt::Write as _;

/// splitmix64 — every random choice of the harness derives from one state.
#[derive(Clone)]
pub struct Rng(pub u64);

impl Rng {
    pub fn new(seed: u64) -> Self {
        // run the seed through the output mix: the state advances by a constant, so using the
        // seed (times a constant) directly would make nearby seeds shifted copies of one stream
        let mut r = Rng(seed.wrapping_mul(0x9E3779B97F4A7C15).wrapping_add(0x1234567));
        let a = r.next();
        let b = r.next();
        Rng(a ^ b.rotate_left(32))
    }
    pub fn next(&mut self) -> u64 {
        self.0 = self.0.wrapping_add(0x9E3779B97F4A7C15);
        let mut z = self.0;
        z = (z ^ (z >> 30)).wrapping_mul(0xBF58476D1CE4E5B9);
        z = (z ^ (z >> 27)).wrapping_mul(0x94D049BB133111EB);
        z ^ (z >> 31)
    }
    pub fn below(&mut self, n: usize) -> usize {
        if n == 0 {
            0
        } else {
            (self.next() % (n as u64)) as usize
        }
    }
    pub fn chance(&mut self, num: usize, den: usize) -> bool {
        self.below(den) < num
    }
    pub fn pick<'a, T>(&mut self, xs: &'a [T]) -> &'a T {
        &xs[self.below(xs.len())]
    }
}

/// `s:` + dot-separated hex code points (empty string = `s:`).
pub fn enc(s: &str) -> String {
    let mut out = String::from("s:");
    let mut first = true;
    for c in s.chars() {
        if !first {
            out.push('.');
        }
        first = false;
        write!(out, "{:x}", c as u32).unwrap();
    }
    out
}

pub fn dec(s: &str) -> Option<String> {
    let body = s.strip_prefix("s:")?;
    if body.is_empty() {
        return Some(String::new());
    }
    let mut out = String::new();
    for part in body.split('.') {
        let v = u32::from_str_radix(part, 16).ok()?;
        out.push(char::from_u32(v)?);
    }
    Some(out)
}

/// Collects the transcript and the input-distribution statistics of a suite run.
pub struct Sink {
    pub failures: Vec<String>,
    pub lines: Vec<(String, String)>,
    pub stats: BTreeMap<String, u64>,
}

impl Sink {
    pub fn new() -> Self {
        Sink { failures: Vec::new(), lines: Vec::new(), stats: BTreeMap::new() }
    }
    pub fn emit(&mut self, req: String, resp: String) {
        self.lines.push((req, resp));
    }
    pub fn stat(&mut self, key: &str) {
        *self.stats.entry(key.to_string()).or_insert(0) += 1;
    }
    pub fn stat_n(&mut self, key: &str, n: u64) {
        *self.stats.entry(key.to_string()).or_insert(0) += n;
    }
    /// Oracle failure of property `pid` on the implementation.
    pub fn fail(&mut self, pid: &str, signature: &str, what: &str, history: &[String]) {
        let esc = |s: &str| s.replace('\\', "\\\\").replace('"', "\\\"").replace('\n', "\\n").replace('\t', "\\t").replace('\r', "\\r");
        let hist: Vec<String> = history.iter().map(|h| format!("\"{}\"", esc(h))).collect();
        self.failures.push(format!(
            "F\t{}\t{{\"signature\": \"{}\", \"what\": \"{}\", \"replay\": {{\"history\": [{}]}}}}",
            pid, esc(signature), esc(what), hist.join(", ")
        ));
        self.stat(&format!("fail.{}", signature));
    }
    pub fn print(&self) {
        let mut out = String::new();
        for (req, resp) in &self.lines {
            out.push_str("T\t");
            out.push_str(req);
            out.push('\t');
            out.push_str(resp);
            out.push('\n');
        }
        for f in &self.failures {
            out.push_str(f);
            out.push('\n');
        }
        for (k, v) in &self.stats {
            writeln!(out, "S\t{}\t{}", k, v).unwrap();
        }
        print!("{}", out);
    }
}

/// Run `f`, mapping a Rust panic to `None`. The default panic hook is silenced by `main`.
pub fn guarded<T>(f: impl FnOnce() -> T) -> Option<T> {
    std::panic::catch_unwind(std::panic::AssertUnwindSafe(f)).ok()
}


/// An `io::Write` sink that accepts at most `max` bytes per `write` call (short writes are legal
/// for a writer: pipes, sockets, fixed-size buffers).  The Write-based entry points must deliver
/// every byte to such a sink too (seed C16e).
pub struct ChunkWriter {
    pub max: usize,
    pub data: Vec<u8>,
    pub calls: usize,
}

impl ChunkWriter {
    pub fn new(max: usize) -> Self {
        ChunkWriter { max: max.max(1), data: Vec::new(), calls: 0 }
    }
}

impl std::io::Write for ChunkWriter {
    fn write(&mut self, buf: &[u8]) -> std::io::Result<usize> {
        self.calls += 1;
        let n = buf.len().min(self.max);
        self.data.extend_from_slice(&buf[..n]);
        Ok(n)
    }
    fn flush(&mut self) -> std::io::Result<()> {
        Ok(())
    }
}

/// An `io::Write` target that fails: the first `fail_at_call` `write_all` calls are accepted whole, every
/// later call is answered with an `io::Error` and nothing of it is kept (`usize::MAX`: never fails, which
/// makes it a recorder of the calls).  `write_all` is overridden so that every call counts, also one with
/// an empty buffer (the default `write_all` would not reach `write` for it); a direct `write` counts the
/// same way.  Model: `WriterPolicy.budget (some fail_at_call)` (lean/XotModel/Model/Writer.lean).
pub struct FailingWriter {
    pub fail_at_call: usize,
    /// calls accepted so far
    pub calls: usize,
    /// bytes accepted so far
    pub data: Vec<u8>,
    /// `data.len()` after each accepted call
    pub ends: Vec<usize>,
    /// calls answered with an error (a caller that stops at the first error makes this at most 1)
    pub refused: usize,
}

impl FailingWriter {
    pub fn new(fail_at_call: usize) -> Self {
        FailingWriter { fail_at_call, calls: 0, data: Vec::new(), ends: Vec::new(), refused: 0 }
    }
    /// Never fails: records the calls.
    pub fn counting() -> Self {
        FailingWriter::new(usize::MAX)
    }
    fn offer(&mut self, buf: &[u8]) -> std::io::Result<()> {
        if self.calls >= self.fail_at_call {
            self.refused += 1;
            return Err(std::io::Error::new(std::io::ErrorKind::Other, "FailingWriter: call refused"));
        }
        self.calls += 1;
        self.data.extend_from_slice(buf);
        self.ends.push(self.data.len());
        Ok(())
    }
}

impl std::io::Write for FailingWriter {
    fn write(&mut self, buf: &[u8]) -> std::io::Result<usize> {
        self.offer(buf).map(|_| buf.len())
    }
    fn write_all(&mut self, buf: &[u8]) -> std::io::Result<()> {
        self.offer(buf)
    }
    fn flush(&mut self) -> std::io::Result<()> {
        Ok(())
    }
}

/// The budget of the `rot`-th failing-writer case for a serialisation that makes `n` calls:
/// refuse the first call, the second, one in the middle, the last, none (exact budget), none (spare budget).
pub fn pick_budget(n: usize, rot: u64) -> (usize, &'static str) {
    match rot % 6 {
        0 => (0, "first-call"),
        1 => (1, "second-call"),
        2 => (n / 2, "middle"),
        3 => (n.saturating_sub(1), "last-call"),
        4 => (n, "exact-budget"),
        _ => (n + 2, "spare-budget"),
    }
}

/// Implementation-only oracle for one call of a Write-based entry point into `fw`, given the same call into a
/// recorder (`reference`, never fails; `reference_kind` its outcome).  `kind` / `reference_kind` are the wire
/// outcomes (`ok`, `err:Io`, `err:…`, `panic`).  A writer that fails must be answered with `Err(Error::Io)` —
/// never a panic, never `Ok`, never another error — the serialisation must stop at the refused call, and what
/// the writer holds must be a prefix of what the never-failing writer receives: exactly its first
/// `fail_at_call` calls.  With enough budget nothing may differ from the never-failing run.
/// Returns `(signature without the property prefix, what)`.
pub fn failing_writer_verdict(kind: &str, fw: &FailingWriter, reference_kind: &str, reference: &FailingWriter) -> Option<(&'static str, String)> {
    let k = fw.fail_at_call;
    if kind == "panic" && reference_kind != "panic" {
        return Some(("write-panics-when-the-writer-fails", format!("the Write-based entry point panics when the writer refuses call #{} (a never-failing writer: {})", k, reference_kind)));
    }
    if fw.refused > 1 {
        return Some(("write-goes-on-after-the-writer-failed", format!("{} more write_all call(s) after the writer answered call #{} with an error", fw.refused - 1, k)));
    }
    if !reference.data.starts_with(&fw.data) {
        return Some(("failing-writer-holds-bytes-that-are-no-prefix", format!("the writer that refuses call #{} holds {} byte(s) that are no prefix of the {} byte(s) a never-failing writer receives", k, fw.data.len(), reference.data.len())));
    }
    if fw.refused == 0 {
        if kind != reference_kind || fw.data != reference.data {
            return Some(("write-outcome-depends-on-sink", format!("budget {} was never exhausted ({} calls) but the call ended {} with {} byte(s); a never-failing writer: {} with {} byte(s)", k, fw.calls, kind, fw.data.len(), reference_kind, reference.data.len())));
        }
        return None;
    }
    if kind != "err:Io" {
        return Some(("writer-error-not-reported-as-Io", format!("the writer refused call #{} but the call ended {} instead of err:Io", k, kind)));
    }
    let want = if k == 0 { 0 } else { reference.ends.get(k - 1).copied().unwrap_or(usize::MAX) };
    if fw.calls != k || fw.data.len() != want {
        return Some(("failing-writer-call-sequence-differs", format!("the writer that refuses call #{} accepted {} call(s) / {} byte(s); the first {} call(s) of a never-failing writer are {} byte(s)", k, fw.calls, fw.data.len(), k, want)));
    }
    None
}

/// An `io::Write` target with a BYTE budget: `write` accepts `min(remaining, buf.len())` bytes and returns
/// `Ok(n)`; once nothing remains a non-empty `write` is answered with an `io::Error` (`WriteZero`).  `write_all`
/// is the default one, so the call that does not fit fills the budget first and then fails — possibly in the
/// middle of a multi-byte character.  Model: `BytePolicy.byteBudget remaining`
/// (lean/XotModel/Model/WriterBytes.lean).
pub struct ByteBudgetWriter {
    pub remaining: usize,
    /// bytes accepted so far
    pub data: Vec<u8>,
    /// `write` calls answered with an error (a caller that stops at the first error makes this at most 1)
    pub refused: usize,
}

impl ByteBudgetWriter {
    pub fn new(remaining: usize) -> Self {
        ByteBudgetWriter { remaining, data: Vec::new(), refused: 0 }
    }
}

impl std::io::Write for ByteBudgetWriter {
    fn write(&mut self, buf: &[u8]) -> std::io::Result<usize> {
        if buf.is_empty() {
            return Ok(0);
        }
        if self.remaining == 0 {
            self.refused += 1;
            return Err(std::io::Error::new(std::io::ErrorKind::WriteZero, "ByteBudgetWriter: budget exhausted"));
        }
        let n = buf.len().min(self.remaining);
        self.data.extend_from_slice(&buf[..n]);
        self.remaining -= n;
        Ok(n)
    }
    fn flush(&mut self) -> std::io::Result<()> {
        Ok(())
    }
}

/// Bytes on the wire: `b:` + dot-separated hex bytes.
pub fn enc_bytes(b: &[u8]) -> String {
    let mut out = String::from("b:");
    for (i, x) in b.iter().enumerate() {
        if i > 0 {
            out.push('.');
        }
        write!(out, "{:x}", x).unwrap();
    }
    out
}

/// Byte budgets for a serialisation whose never-failing run delivers `reference`: the `rot`-th class of
/// (nothing, one byte, the middle, all but one byte, exact, spare) and — whenever the bytes contain a multi-byte
/// character — a budget that ends INSIDE one (after its first, second or third byte, rotating).
pub fn pick_byte_budgets(reference: &[u8], rot: u64) -> Vec<(usize, &'static str)> {
    let n = reference.len();
    let mut v = vec![match rot % 6 {
        0 => (0, "nothing"),
        1 => (1, "one-byte"),
        2 => (n / 2, "middle"),
        3 => (n.saturating_sub(1), "all-but-one-byte"),
        4 => (n, "exact-budget"),
        _ => (n + 3, "spare-budget"),
    }];
    // budget i ends inside a character iff reference[i] is a continuation byte
    let inside: Vec<usize> = (0..n).filter(|&i| reference[i] & 0xC0 == 0x80).collect();
    if !inside.is_empty() {
        let i = inside[(rot as usize).wrapping_mul(7) % inside.len()];
        // how many bytes of the character are through, and how long it is
        let mut s = i;
        while reference[s] & 0xC0 == 0x80 {
            s -= 1;
        }
        let len = if reference[s] >= 0xF0 { 4 } else if reference[s] >= 0xE0 { 3 } else { 2 };
        v.push((i, match (i - s, len) {
            (1, 2) => "inside-2-byte-char",
            (1, 3) => "inside-3-byte-char-after-1",
            (2, 3) => "inside-3-byte-char-after-2",
            (1, 4) => "inside-4-byte-char-after-1",
            (2, 4) => "inside-4-byte-char-after-2",
            _ => "inside-4-byte-char-after-3",
        }));
    }
    v
}

/// Implementation-only oracle for one call of a Write-based entry point into `bw` (budget `budget`), given the
/// same call into a `Vec<u8>` (`reference` bytes, outcome `reference_kind`): with a budget of at least
/// `reference.len()` nothing may differ from the never-failing run; with less the call must end `Err(Error::Io)`
/// — never a panic, never `Ok`, never another error — after exactly one refused `write`, the writer holding
/// exactly the first `budget` bytes of the never-failing run.  Returns `what` of the one signature
/// `byte-budget-writer-differs`.
pub fn byte_budget_verdict(kind: &str, bw: &ByteBudgetWriter, budget: usize, reference_kind: &str, reference: &[u8]) -> Option<String> {
    if budget >= reference.len() {
        if kind != reference_kind || bw.data != reference || bw.refused != 0 {
            return Some(format!("byte budget {} covers the {} byte(s) of the never-failing run ({}), but the call ended {} with {} byte(s), {} refused write(s)", budget, reference.len(), reference_kind, kind, bw.data.len(), bw.refused));
        }
        return None;
    }
    if kind != "err:Io" {
        return Some(format!("byte budget {} is smaller than the {} byte(s) of the never-failing run, but the call ended {} instead of err:Io", budget, reference.len(), kind));
    }
    if bw.refused != 1 {
        return Some(format!("byte budget {}: {} write call(s) were answered with an error (the serialisation must stop at the first)", budget, bw.refused));
    }
    if bw.data != reference[..budget] {
        return Some(format!("byte budget {}: the writer holds {} byte(s) that are not the first {} byte(s) of the never-failing run", budget, bw.data.len(), budget));
    }
    None
}
