//! Shared pieces: PRNG, string codec of the line protocol, statistics.
use std::collections::BTreeMap;
use std::fmt::Write as _;

/// splitmix64 — every random choice of the harness derives from one state.
#[derive(Clone)]
pub struct Rng(pub u64);

impl Rng {
    pub fn new(seed: u64) -> Self {
        // run the seed through the output mix: the state advances by a constant, so using the
        // seed (times a constant) directly would make nearby seeds shifted copies of one stream
        let mut r = Rng(seed.wrapping_mul(0x9E3779B97F4A7C15).wrapping_add(0x1234567));
        let a = r.next();
        let b = r.next();
        Rng(a ^ b.rotate_left(32))
    }
    pub fn next(&mut self) -> u64 {
        self.0 = self.0.wrapping_add(0x9E3779B97F4A7C15);
        let mut z = self.0;
        z = (z ^ (z >> 30)).wrapping_mul(0xBF58476D1CE4E5B9);
        z = (z ^ (z >> 27)).wrapping_mul(0x94D049BB133111EB);
        z ^ (z >> 31)
    }
    pub fn below(&mut self, n: usize) -> usize {
        if n == 0 {
            0
        } else {
            (self.next() % (n as u64)) as usize
        }
    }
    pub fn chance(&mut self, num: usize, den: usize) -> bool {
        self.below(den) < num
    }
    pub fn pick<'a, T>(&mut self, xs: &'a [T]) -> &'a T {
        &xs[self.below(xs.len())]
    }
}

/// `s:` + dot-separated hex code points (empty string = `s:`).
pub fn enc(s: &str) -> String {
    let mut out = String::from("s:");
    let mut first = true;
    for c in s.chars() {
        if !first {
            out.push('.');
        }
        first = false;
        write!(out, "{:x}", c as u32).unwrap();
    }
    out
}

pub fn dec(s: &str) -> Option<String> {
    let body = s.strip_prefix("s:")?;
    if body.is_empty() {
        return Some(String::new());
    }
    let mut out = String::new();
    for part in body.split('.') {
        let v = u32::from_str_radix(part, 16).ok()?;
        out.push(char::from_u32(v)?);
    }
    Some(out)
}

/// Collects the transcript and the input-distribution statistics of a suite run.
pub struct Sink {
    pub failures: Vec<String>,
    pub lines: Vec<(String, String)>,
    pub stats: BTreeMap<String, u64>,
}

impl Sink {
    pub fn new() -> Self {
        Sink { failures: Vec::new(), lines: Vec::new(), stats: BTreeMap::new() }
    }
    pub fn emit(&mut self, req: String, resp: String) {
        self.lines.push((req, resp));
    }
    pub fn stat(&mut self, key: &str) {
        *self.stats.entry(key.to_string()).or_insert(0) += 1;
    }
    pub fn stat_n(&mut self, key: &str, n: u64) {
        *self.stats.entry(key.to_string()).or_insert(0) += n;
    }
    /// Oracle failure of property `pid` on the implementation.
    pub fn fail(&mut self, pid: &str, signature: &str, what: &str, history: &[String]) {
        let esc = |s: &str| s.replace('\\', "\\\\").replace('"', "\\\"").replace('\n', "\\n").replace('\t', "\\t").replace('\r', "\\r");
        let hist: Vec<String> = history.iter().map(|h| format!("\"{}\"", esc(h))).collect();
        self.failures.push(format!(
            "F\t{}\t{{\"signature\": \"{}\", \"what\": \"{}\", \"replay\": {{\"history\": [{}]}}}}",
            pid, esc(signature), esc(what), hist.join(", ")
        ));
        self.stat(&format!("fail.{}", signature));
    }
    pub fn print(&self) {
        let mut out = String::new();
        for (req, resp) in &self.lines {
            out.push_str("T\t");
            out.push_str(req);
            out.push('\t');
            out.push_str(resp);
            out.push('\n');
        }
        for f in &self.failures {
            out.push_str(f);
            out.push('\n');
        }
        for (k, v) in &self.stats {
            writeln!(out, "S\t{}\t{}", k, v).unwrap();
        }
        print!("{}", out);
    }
}

/// Run `f`, mapping a Rust panic to `None`. The default panic hook is silenced by `main`.
pub fn guarded<T>(f: impl FnOnce() -> T) -> Option<T> {
    std::panic::catch_unwind(std::panic::AssertUnwindSafe(f)).ok()
}


/// An `io::Write` sink that accepts at most `max` bytes per `write` call (short writes are legal
/// for a writer: pipes, sockets, fixed-size buffers).  The Write-based entry points must deliver
/// every byte to such a sink too (seed C16e).
pub struct ChunkWriter {
    pub max: usize,
    pub data: Vec<u8>,
    pub calls: usize,
}

impl ChunkWriter {
    pub fn new(max: usize) -> Self {
        ChunkWriter { max: max.max(1), data: Vec::new(), calls: 0 }
    }
}

impl std::io::Write for ChunkWriter {
    fn write(&mut self, buf: &[u8]) -> std::io::Result<usize> {
        self.calls += 1;
        let n = buf.len().min(self.max);
        self.data.extend_from_slice(&buf[..n]);
        Ok(n)
    }
    fn flush(&mut self) -> std::io::Result<()> {
        Ok(())
    }
}
