//! One-feature mutants of a generated tree (property C13): exactly one of
//! name / namespace / attribute value / extra attribute / attribute name / text character /
//! comment / PI / child order / child count differs — or only the spelling differs (prefix of
//! a declaration, presence of a declaration, attribute order).
use crate::common::Rng;
use crate::tree::*;

/// Mutations after which the trees must still be deep-equal.
pub const EQUAL_KINDS: &[&str] = &["none", "prefix-only", "decl-add", "decl-remove", "attr-order"];
/// Mutations after which the trees must differ (under `deep_equal`).
pub const DIFF_KINDS: &[&str] = &[
    "name", "namespace", "attr-value", "attr-add", "attr-remove", "attr-name", "text-char", "text-case",
    "text-ws", "text-split", "comment-add", "comment-remove", "comment-change", "pi", "child-order",
    "child-drop", "child-add",
];

fn at_mut<'a>(t: &'a mut GTree, path: &[usize]) -> &'a mut GTree {
    let mut t = t;
    for &i in path {
        t = &mut t.kids[i];
    }
    t
}

fn is_attr(t: &GTree) -> bool {
    matches!(t.v, GValue::Attribute(..))
}
fn is_ns(t: &GTree) -> bool {
    matches!(t.v, GValue::Namespace(..))
}
fn is_container(t: &GTree) -> bool {
    matches!(t.v, GValue::Element(_) | GValue::Document)
}
fn is_element(t: &GTree) -> bool {
    matches!(t.v, GValue::Element(_))
}
fn count(t: &GTree, p: fn(&GTree) -> bool) -> usize {
    t.kids.iter().filter(|k| p(k)).count()
}
fn positions(t: &GTree, p: fn(&GTree) -> bool) -> Vec<usize> {
    (0..t.kids.len()).filter(|&i| p(&t.kids[i])).collect()
}
fn first_normal(t: &GTree) -> usize {
    t.kids.iter().position(|k| k.is_normal()).unwrap_or(t.kids.len())
}
fn first_non_ns(t: &GTree) -> usize {
    t.kids.iter().position(|k| !is_ns(k)).unwrap_or(t.kids.len())
}

/// Same local name in another namespace (ids of `Vocab::standard`): a=2,6,9,12 b=3,7,10,13 x=16,8,11,14.
fn namespace_siblings(n: usize) -> Option<&'static [usize]> {
    const A: &[usize] = &[2, 6, 9, 12];
    const B: &[usize] = &[3, 7, 10, 13];
    const X: &[usize] = &[16, 8, 11, 14];
    [A, B, X].into_iter().find(|l| l.contains(&n))
}

fn applicable(kind: &str, t: &GTree) -> bool {
    match kind {
        "none" => true,
        "name" => is_element(t),
        "namespace" => matches!(t.v, GValue::Element(n) if namespace_siblings(n).is_some()),
        "attr-value" | "attr-remove" | "attr-name" => is_element(t) && count(t, is_attr) >= 1,
        "attr-add" => is_element(t),
        "attr-order" => {
            is_element(t) && {
                let p = positions(t, is_attr);
                p.len() >= 2 && t.kids[p[0]] != t.kids[p[1]]
            }
        }
        "text-char" | "text-case" | "text-ws" => matches!(&t.v, GValue::Text(s) if !s.is_empty()),
        "text-split" => matches!(&t.v, GValue::Text(s) if s.chars().count() >= 2),
        "comment-add" | "child-add" => is_container(t),
        "comment-remove" => is_container(t) && t.kids.iter().any(|k| matches!(k.v, GValue::Comment(_))),
        "comment-change" => matches!(t.v, GValue::Comment(_)),
        "pi" => matches!(t.v, GValue::PI(..)),
        "child-order" => {
            is_container(t) && {
                let f = first_normal(t);
                (f + 1..t.kids.len()).any(|i| t.kids[i - 1] != t.kids[i])
            }
        }
        "child-drop" => is_container(t) && first_normal(t) < t.kids.len(),
        "prefix-only" | "decl-remove" => is_element(t) && count(t, is_ns) >= 1,
        "decl-add" => is_element(t),
        _ => unreachable!("mutation kind {}", kind),
    }
}

fn flip_case(c: char) -> char {
    if c.is_ascii_lowercase() {
        c.to_ascii_uppercase()
    } else if c.is_ascii_uppercase() {
        c.to_ascii_lowercase()
    } else {
        c
    }
}

fn apply(rng: &mut Rng, kind: &str, t: &mut GTree) {
    match kind {
        "none" => {}
        "name" => {
            if let GValue::Element(n) = &mut t.v {
                let locals_differ = |a: usize, b: usize| namespace_siblings(a).map(|l| !l.contains(&b)).unwrap_or(a != b);
                let old = *n;
                let c: Vec<usize> = [2usize, 3, 4, 5, 6, 7, 9, 10].into_iter().filter(|&m| locals_differ(old, m)).collect();
                *n = *rng.pick(&c);
            }
        }
        "namespace" => {
            if let GValue::Element(n) = &mut t.v {
                let c: Vec<usize> = namespace_siblings(*n).unwrap().iter().copied().filter(|m| m != n).collect();
                *n = *rng.pick(&c);
            }
        }
        "attr-value" => {
            let p = *rng.pick(&positions(t, is_attr));
            if let GValue::Attribute(_, v) = &mut t.kids[p].v {
                mutate_string(rng, v);
            }
        }
        "attr-remove" => {
            let p = *rng.pick(&positions(t, is_attr));
            t.kids.remove(p);
        }
        "attr-name" | "attr-add" => {
            let used: Vec<usize> = t.kids.iter().filter_map(|k| if let GValue::Attribute(n, _) = k.v { Some(n) } else { None }).collect();
            let free: Vec<usize> = [2usize, 3, 4, 6, 7, 9, 0, 1, 15, 16].into_iter().filter(|n| !used.contains(n)).collect();
            let name = *rng.pick(&free);
            if kind == "attr-name" {
                let p = *rng.pick(&positions(t, is_attr));
                if let GValue::Attribute(n, _) = &mut t.kids[p].v {
                    *n = name;
                }
            } else {
                // anywhere among the attributes
                let lo = first_non_ns(t);
                let hi = first_normal(t);
                let at = lo + rng.below(hi - lo + 1);
                t.kids.insert(at, GTree::leaf(GValue::Attribute(name, rng.pick(&["", "v", " "]).to_string())));
            }
        }
        "attr-order" => {
            let p = positions(t, is_attr);
            if p.len() == 2 || rng.chance(1, 2) {
                t.kids.swap(p[0], p[1]);
            } else {
                t.kids[p[0]..=p[p.len() - 1]].reverse();
            }
        }
        "text-char" => {
            if let GValue::Text(s) = &mut t.v {
                mutate_string(rng, s);
                if s.is_empty() {
                    s.push('q');
                }
            }
        }
        "text-case" => {
            if let GValue::Text(s) = &mut t.v {
                let flipped: String = s.chars().map(flip_case).collect();
                *s = if flipped != *s { flipped } else { format!("{}K", s) };
            }
        }
        "text-ws" => {
            if let GValue::Text(s) = &mut t.v {
                let cs: Vec<char> = s.chars().collect();
                let at = rng.below(cs.len() + 1);
                let mut out: String = cs[..at].iter().collect();
                out.push(*rng.pick(&[' ', '\t', '\n', '\r', '\u{c}']));
                out.extend(cs[at..].iter());
                *s = out;
            }
        }
        "text-split" => {
            if let GValue::Text(s) = &t.v {
                let cs: Vec<char> = s.chars().collect();
                let at = 1 + rng.below(cs.len() - 1);
                let (l, r): (String, String) = (cs[..at].iter().collect(), cs[at..].iter().collect());
                // the node becomes its first half; the second half is added by the caller's parent
                // (a text node has no kids to hold it) — handled in `mutate_at` below
                t.v = GValue::Text(l);
                t.kids.push(GTree::leaf(GValue::Text(r))); // marker, hoisted by `hoist_split`
            }
        }
        "comment-add" | "child-add" => {
            let lo = first_normal(t);
            let at = lo + rng.below(t.kids.len() - lo + 1);
            let k = if kind == "comment-add" {
                GTree::leaf(GValue::Comment(rng.pick(&["", "c", " x "]).to_string()))
            } else if rng.chance(1, 2) {
                GTree::leaf(GValue::Text(rng.pick(&["t", " ", "x y", "", ""]).to_string()))
            } else {
                GTree::leaf(GValue::Element(*rng.pick(&[2usize, 3, 5])))
            };
            t.kids.insert(at, k);
        }
        "comment-remove" => {
            let p = *rng.pick(&positions(t, |k| matches!(k.v, GValue::Comment(_))));
            t.kids.remove(p);
        }
        "comment-change" => {
            if let GValue::Comment(s) = &mut t.v {
                mutate_string(rng, s);
            }
        }
        "pi" => {
            if let GValue::PI(target, data) = &mut t.v {
                match rng.below(3) {
                    0 => *target = if *target == 17 { 18 } else { 17 },
                    1 => {
                        *data = match data {
                            None => Some(String::new()),
                            Some(_) => None,
                        }
                    }
                    _ => match data {
                        None => *data = Some("d".into()),
                        Some(s) => mutate_string(rng, s),
                    },
                }
            }
        }
        "child-order" => {
            let f = first_normal(t);
            let c: Vec<usize> = (f + 1..t.kids.len()).filter(|&i| t.kids[i - 1] != t.kids[i]).collect();
            let i = *rng.pick(&c);
            t.kids.swap(i - 1, i);
        }
        "child-drop" => {
            let f = first_normal(t);
            let i = f + rng.below(t.kids.len() - f);
            t.kids.remove(i);
        }
        "prefix-only" => {
            let used: Vec<usize> = t.kids.iter().filter_map(|k| if let GValue::Namespace(p, _) = k.v { Some(p) } else { None }).collect();
            let free: Vec<usize> = [2usize, 3, 4, 5, 6].into_iter().filter(|p| !used.contains(p)).collect();
            let p = *rng.pick(&positions(t, is_ns));
            if let GValue::Namespace(pfx, _) = &mut t.kids[p].v {
                *pfx = *rng.pick(&free);
            }
        }
        "decl-remove" => {
            let p = *rng.pick(&positions(t, is_ns));
            t.kids.remove(p);
        }
        "decl-add" => {
            let used: Vec<usize> = t.kids.iter().filter_map(|k| if let GValue::Namespace(p, _) = k.v { Some(p) } else { None }).collect();
            let free: Vec<usize> = [2usize, 3, 4, 5, 6].into_iter().filter(|p| !used.contains(p)).collect();
            let at = rng.below(first_non_ns(t) + 1);
            t.kids.insert(at, GTree::leaf(GValue::Namespace(*rng.pick(&free), *rng.pick(&[NS_A, NS_B, NS_C]))));
        }
        _ => unreachable!(),
    }
}

/// Change exactly one character (substitute, insert or delete); the result differs.
fn mutate_string(rng: &mut Rng, s: &mut String) {
    let mut cs: Vec<char> = s.chars().collect();
    let fresh = |rng: &mut Rng, not: Option<char>| loop {
        let c = *rng.pick(&['a', 'A', 'z', ' ', '\n', 'é', '<', '0']);
        if Some(c) != not {
            return c;
        }
    };
    match if cs.is_empty() { 1 } else { rng.below(3) } {
        0 => {
            let i = rng.below(cs.len());
            cs[i] = fresh(rng, Some(cs[i]));
        }
        1 => {
            let i = rng.below(cs.len() + 1);
            let c = fresh(rng, None);
            cs.insert(i, c);
        }
        _ => {
            let i = rng.below(cs.len());
            cs.remove(i);
        }
    }
    *s = cs.into_iter().collect();
}

/// After "text-split" the second half sits as a kid of the text node: move it next to it.
fn hoist_split(root: &mut GTree, site: &[usize]) {
    if site.is_empty() {
        // a lone text root cannot be split: undo by joining
        if let (GValue::Text(l), Some(k)) = (&root.v.clone(), root.kids.pop()) {
            if let GValue::Text(r) = k.v {
                root.v = GValue::Text(format!("{}{}", l, r));
            }
        }
        return;
    }
    let (parent_path, last) = site.split_at(site.len() - 1);
    let half = at_mut(root, site).kids.pop().unwrap();
    at_mut(root, parent_path).kids.insert(last[0] + 1, half);
}

fn mutate_kind(rng: &mut Rng, t: &GTree, kind: &'static str) -> Option<(GTree, Vec<usize>)> {
    let cands: Vec<Vec<usize>> = t.paths().into_iter().filter(|p| applicable(kind, t.at(p).unwrap())).collect();
    if cands.is_empty() {
        return None;
    }
    let site = rng.pick(&cands).clone();
    let mut m = t.clone();
    apply(rng, kind, at_mut(&mut m, &site));
    if kind == "text-split" {
        hoist_split(&mut m, &site);
    }
    Some((m, site))
}

/// A mutant differing in exactly one feature (or only in spelling, one time in four):
/// `(mutant, kind, path of the mutated node)`.
pub fn mutate(rng: &mut Rng, t: &GTree) -> (GTree, &'static str, Vec<usize>) {
    if rng.chance(1, 4) {
        return mutate_equal(rng, t);
    }
    for _ in 0..8 {
        let kind = *rng.pick(DIFF_KINDS);
        if let Some((m, site)) = mutate_kind(rng, t, kind) {
            if kind == "text-split" && m == *t {
                continue;
            }
            return (m, kind, site);
        }
    }
    (t.clone(), "none", vec![])
}

/// A variant that must stay deep-equal.
pub fn mutate_equal(rng: &mut Rng, t: &GTree) -> (GTree, &'static str, Vec<usize>) {
    for _ in 0..6 {
        let kind = *rng.pick(EQUAL_KINDS);
        if let Some((m, site)) = mutate_kind(rng, t, kind) {
            return (m, kind, site);
        }
    }
    (t.clone(), "none", vec![])
}
