//! Lexical layout for the `lex` suite (C02: quotes, in-tag white space, XML declaration, BOM).
//!
//! 1. `layout_stats`: statistics per layout freedom (`lay.*`), measured on the tokens the real
//!    tokenizer returns for ANY input of the suite: which quote an attribute uses, white space
//!    before / after `=`, what precedes an attribute name, `>` and `/>`, white space in end tags and
//!    PIs, between top-level items, after the last one, and the layout of the XML declaration.
//! 2. Family `e` (`gen_layout`): the Rust mirror of `LToken` / `LDecl` / `LDoc`
//!    (lean/XotModel/Lemmas/LexFreeDefs.lean): a generated token structure, every layout freedom
//!    drawn independently, rendered to a text together with the tokens it must lex to.
//!    Oracle (implementation only, `check_layout`): the real tokenizer returns exactly those
//!    tokens, kinds and texts (`C02:layout-changes-tokens`): the statement of `C02_lexical_layout`
//!    / `lexDocument_layout_doc` evaluated on xmlparser itself.
use crate::common::{Rng, Sink};
use xmlparser::{ElementEnd, Token, Tokenizer};

fn is_ws(s: &str) -> bool {
    s.chars().all(|c| matches!(c, ' ' | '\t' | '\n' | '\r'))
}

fn ws_kinds(sink: &mut Sink, key: &str, w: &str) {
    if w == " " {
        sink.stat(&format!("{}.one-blank", key));
    } else if !w.is_empty() {
        sink.stat(&format!("{}.other", key));
    }
    for (c, n) in [('\t', "tab"), ('\n', "lf"), ('\r', "cr")] {
        if w.contains(c) {
            sink.stat(&format!("{}.has-{}", key, n));
        }
    }
}

/// ws1 `=` ws2 between a pseudo-attribute name of the XML declaration and its quote.
fn decl_item(sink: &mut Sink, text: &str, key: &str) {
    if let Some(i) = text.find(key) {
        let rest = &text[i + key.len()..];
        if let Some(e) = rest.find('=') {
            sink.stat(&format!("lay.decl.{}", key));
            if e > 0 && is_ws(&rest[..e]) {
                sink.stat(&format!("lay.decl.{}.ws-before-eq", key));
            }
            let after = &rest[e + 1..];
            let q = after.find(|c| c == '"' || c == '\'').unwrap_or(0);
            if q > 0 {
                sink.stat(&format!("lay.decl.{}.ws-after-eq", key));
            }
            if after[q..].starts_with('\'') {
                sink.stat(&format!("lay.decl.{}.single-quote", key));
            } else {
                sink.stat(&format!("lay.decl.{}.double-quote", key));
            }
        }
    }
}

/// Statistics per layout freedom on the tokens before the first tokenizer error.
pub fn layout_stats(xml: &str, fragment: bool, sink: &mut Sink) {
    let mut tokenizer = if fragment { Tokenizer::from_fragment(xml, 0..xml.len()) } else { Tokenizer::from(xml) };
    let mut prev_end = if !fragment && xml.starts_with('\u{feff}') { 3 } else { 0 };
    let mut depth = 0usize;
    let mut clean = true;
    loop {
        let t = match tokenizer.next() {
            None => break,
            Some(Err(_)) => {
                clean = false;
                break;
            }
            Some(Ok(t)) => t,
        };
        let sp = t.span();
        let gap = xml.get(prev_end..sp.start()).unwrap_or("");
        let top = depth == 0 && !fragment;
        match &t {
            Token::Attribute { local, value, .. } => {
                sink.stat("lay.attr");
                ws_kinds(sink, "lay.attr.lead", gap);
                let q = value.start() - 1;
                sink.stat(if xml.as_bytes()[q] == b'\'' { "lay.attr.single-quote" } else { "lay.attr.double-quote" });
                let mid = &xml[local.end()..q];
                if let Some(e) = mid.find('=') {
                    if e > 0 {
                        sink.stat("lay.attr.ws-before-eq");
                    }
                    if e + 1 < mid.len() {
                        sink.stat("lay.attr.ws-after-eq");
                    }
                    if e > 0 && e + 1 < mid.len() {
                        sink.stat("lay.attr.ws-both-sides-of-eq");
                    }
                }
            }
            Token::ElementEnd { end, span } => match end {
                ElementEnd::Open => {
                    sink.stat(if gap.is_empty() { "lay.open.tight" } else { "lay.open.ws-before" });
                    ws_kinds(sink, "lay.open.lead", gap);
                    depth += 1;
                }
                ElementEnd::Empty => {
                    sink.stat(if gap.is_empty() { "lay.empty.tight" } else { "lay.empty.ws-before" });
                    ws_kinds(sink, "lay.empty.lead", gap);
                }
                ElementEnd::Close(_, l) => {
                    let inner = &xml[l.end()..span.end() - 1];
                    sink.stat(if inner.is_empty() { "lay.close.tight" } else { "lay.close.ws-before-gt" });
                    ws_kinds(sink, "lay.close.ws", inner);
                    depth = depth.saturating_sub(1);
                }
            },
            Token::ProcessingInstruction { target, content, span } => {
                let stop = match content {
                    Some(c) => c.start(),
                    None => span.end() - 2,
                };
                let w = &xml[target.end()..stop];
                match content {
                    Some(_) => ws_kinds(sink, "lay.pi.ws-before-content", w),
                    None => sink.stat(if w.is_empty() { "lay.pi.none.tight" } else { "lay.pi.none.ws-before-close" }),
                }
                if top && !gap.is_empty() {
                    sink.stat("lay.top.ws-before-pi");
                }
            }
            Token::Comment { .. } => {
                if top && !gap.is_empty() {
                    sink.stat("lay.top.ws-before-comment");
                }
            }
            Token::ElementStart { .. } => {
                if top && !gap.is_empty() {
                    sink.stat("lay.top.ws-before-root");
                }
            }
            Token::Declaration { span, encoding, standalone, .. } => {
                let text = span.as_str();
                sink.stat("lay.decl");
                if prev_end == 3 {
                    sink.stat("lay.decl.after-bom");
                }
                decl_item(sink, text, "version");
                if encoding.is_some() {
                    decl_item(sink, text, "encoding");
                }
                if standalone.is_some() {
                    decl_item(sink, text, "standalone");
                }
                if text["<?xml ".len()..].starts_with(|c: char| c.is_ascii_whitespace()) {
                    sink.stat("lay.decl.ws-after-xml");
                }
                if text[..text.len() - 2].ends_with(|c: char| c.is_ascii_whitespace()) {
                    sink.stat("lay.decl.ws-before-close");
                }
                for (c, n) in [('\t', "tab"), ('\n', "lf"), ('\r', "cr")] {
                    if text.contains(c) {
                        sink.stat(&format!("lay.decl.has-{}", n));
                    }
                }
            }
            _ => {}
        }
        prev_end = sp.end();
    }
    if clean && !fragment && depth == 0 && prev_end > 0 && prev_end < xml.len() && is_ws(&xml[prev_end..]) {
        sink.stat("lay.trail.ws");
    }
    if clean && !fragment && xml.starts_with('\u{feff}') {
        sink.stat("lay.bom.accepted");
    }
}

// ---------------------------------------------------------------------------------------------
// Family e

/// The tokens of `xml` without positions: one line per token, kind and texts.
pub fn erased_dump(xml: &str, fragment: bool) -> (Vec<String>, bool) {
    let tokenizer = if fragment { Tokenizer::from_fragment(xml, 0..xml.len()) } else { Tokenizer::from(xml) };
    let mut out = vec![];
    for t in tokenizer {
        let t = match t {
            Ok(t) => t,
            Err(_) => return (out, false),
        };
        out.push(match t {
            Token::Declaration { version, encoding, standalone, .. } => {
                format!("D|{}|{:?}|{:?}", version.as_str(), encoding.map(|e| e.as_str().to_string()), standalone)
            }
            Token::ProcessingInstruction { target, content, .. } => format!("P|{}|{:?}", target.as_str(), content.map(|c| c.as_str().to_string())),
            Token::Comment { text, .. } => format!("C|{}", text.as_str()),
            Token::ElementStart { prefix, local, .. } => format!("ES|{}|{}", prefix.as_str(), local.as_str()),
            Token::Attribute { prefix, local, value, .. } => format!("A|{}|{}|{}", prefix.as_str(), local.as_str(), value.as_str()),
            Token::ElementEnd { end: ElementEnd::Open, .. } => "EO".to_string(),
            Token::ElementEnd { end: ElementEnd::Empty, .. } => "EE".to_string(),
            Token::ElementEnd { end: ElementEnd::Close(p, l), .. } => format!("EC|{}|{}", p.as_str(), l.as_str()),
            Token::Text { text } => format!("T|{}", text.as_str()),
            Token::Cdata { text, .. } => format!("CD|{}", text.as_str()),
            _ => "DTD".to_string(),
        });
    }
    (out, true)
}

pub struct Layout {
    pub text: String,
    pub fragment: bool,
    pub expected: Vec<String>,
    pub stats: Vec<String>,
}

struct G<'a> {
    rng: &'a mut Rng,
    out: String,
    exp: Vec<String>,
    stats: Vec<String>,
}

const PFX: &[&str] = &["", "", "p", "q", "xmlns", "é"];
const LOC: &[&str] = &["a", "b", "id", "x1", "a-b.c", "_u", "é", "xmlns"];
const VAL: &[char] = &['v', '1', ' ', '&', ';', '>', '/', '=', '\'', '"', '\t', '\n', '\r', 'é', '€', ']', '?', '-'];
const TXT: &[char] = &['t', ' ', '&', ';', '>', ']', '\n', '\r', '\t', '\'', '"', 'é', '\u{feff}', '=', '/'];

impl<'a> G<'a> {
    fn stat(&mut self, k: &str) {
        self.stats.push(format!("gen.e.{}", k));
    }

    /// White space: `min` .. 3 characters of blank / TAB / LF / CR.
    fn ws(&mut self, min: usize) -> String {
        let n = match self.rng.below(8) {
            0..=3 => min,
            4 | 5 => 1,
            6 => 2,
            _ => 3,
        }
        .max(min);
        (0..n).map(|_| *self.rng.pick(&[' ', ' ', ' ', '\t', '\n', '\r'])).collect()
    }

    fn qname(&mut self) -> (String, String) {
        (self.rng.pick(PFX).to_string(), self.rng.pick(LOC).to_string())
    }

    fn written(p: &str, l: &str) -> String {
        if p.is_empty() {
            l.to_string()
        } else {
            format!("{}:{}", p, l)
        }
    }

    fn comment(&mut self) {
        let n = self.rng.below(5);
        let mut body: String = (0..n).map(|_| *self.rng.pick(&['c', ' ', '-', '>', '<', '&', '\n', '\r', '?', 'é'])).collect();
        while body.contains("--") {
            body = body.replace("--", "-x");
        }
        if body.ends_with('-') {
            body.push('.');
        }
        self.out.push_str(&format!("<!--{}-->", body));
        self.exp.push(format!("C|{}", body));
    }

    fn pi(&mut self) {
        let with_content = self.rng.chance(1, 2);
        let target = if with_content { *self.rng.pick(&["pi", "t1", "xml-stylesheet", "xmlx", "p:i"]) } else { *self.rng.pick(&["pi", "t1", "xml", "XML"]) };
        self.out.push_str("<?");
        self.out.push_str(target);
        if with_content {
            let w = self.ws(1);
            if w != " " {
                self.stat("pi.ws-other");
            }
            self.out.push_str(&w);
            let n = 1 + self.rng.below(4);
            let mut d: String = (0..n).map(|_| *self.rng.pick(&['d', '?', '>', '<', ' ', '\n', '\r', '=', '"', 'é'])).collect();
            if d.starts_with(|c: char| matches!(c, ' ' | '\t' | '\n' | '\r')) {
                d.insert(0, 'd');
            }
            while d.contains("?>") {
                d = d.replace("?>", "?x");
            }
            self.out.push_str(&d);
            self.exp.push(format!("P|{}|{:?}", target, Some(d)));
        } else {
            // `<?xml ?>` is not a PI: white space only after other targets
            let w = if target == "xml" { String::new() } else { self.ws(0) };
            if !w.is_empty() {
                self.stat("pi.none.ws-before-close");
            }
            self.out.push_str(&w);
            self.exp.push(format!("P|{}|{:?}", target, None::<String>));
        }
        self.out.push_str("?>");
    }

    fn element(&mut self, depth: usize) {
        let (p, l) = self.qname();
        let name = Self::written(&p, &l);
        self.out.push('<');
        self.out.push_str(&name);
        self.exp.push(format!("ES|{}|{}", p, l));
        for _ in 0..self.rng.below(4) {
            let lead = self.ws(1);
            if lead != " " {
                self.stat("attr.lead-other");
            }
            if lead.contains('\r') {
                self.stat("attr.lead-cr");
            }
            let (ap, al) = self.qname();
            let single = self.rng.chance(1, 2);
            self.stat(if single { "attr.single-quote" } else { "attr.double-quote" });
            let q = if single { '\'' } else { '"' };
            let (w1, w2) = (self.ws(0), self.ws(0));
            if !w1.is_empty() {
                self.stat("attr.ws-before-eq");
            }
            if !w2.is_empty() {
                self.stat("attr.ws-after-eq");
            }
            let n = self.rng.below(5);
            let v: String = (0..n).map(|_| *self.rng.pick(VAL)).filter(|c| *c != q).collect();
            if v.contains(if single { '"' } else { '\'' }) {
                self.stat("attr.other-quote-inside");
            }
            self.out.push_str(&format!("{}{}{}={}{}{}{}", lead, Self::written(&ap, &al), w1, w2, q, v, q));
            self.exp.push(format!("A|{}|{}|{}", ap, al, v));
        }
        let lead = self.ws(0);
        self.out.push_str(&lead);
        if depth >= 3 || self.rng.chance(1, 3) {
            if !lead.is_empty() {
                self.stat("empty.ws-before");
            }
            self.out.push_str("/>");
            self.exp.push("EE".to_string());
            return;
        }
        if !lead.is_empty() {
            self.stat("open.ws-before");
        }
        self.out.push('>');
        self.exp.push("EO".to_string());
        self.content(depth + 1);
        let w = self.ws(0);
        if !w.is_empty() {
            self.stat("close.ws-before-gt");
        }
        self.out.push_str(&format!("</{}{}>", name, w));
        self.exp.push(format!("EC|{}|{}", p, l));
    }

    fn content(&mut self, depth: usize) {
        let mut last_text = false;
        for _ in 0..self.rng.below(4) {
            match self.rng.below(10) {
                0..=3 => {
                    self.element(depth);
                    last_text = false;
                }
                4 | 5 if !last_text => {
                    let n = 1 + self.rng.below(4);
                    let mut t: String = (0..n).map(|_| *self.rng.pick(TXT)).collect();
                    while t.contains("]]>") {
                        t = t.replace("]]>", "]]x");
                    }
                    self.out.push_str(&t);
                    self.exp.push(format!("T|{}", t));
                    last_text = true;
                }
                6 => {
                    let n = self.rng.below(4);
                    let mut t: String = (0..n).map(|_| *self.rng.pick(&['c', ']', '>', '<', '&', '\r', '\n'])).collect();
                    while t.contains("]]>") {
                        t = t.replace("]]>", "]]x");
                    }
                    self.out.push_str(&format!("<![CDATA[{}]]>", t));
                    self.exp.push(format!("CD|{}", t));
                    last_text = false;
                }
                7 => {
                    self.comment();
                    last_text = false;
                }
                8 => {
                    self.pi();
                    last_text = false;
                }
                _ => {}
            }
        }
    }

    fn eq_quoted(&mut self, key: &str, val: &str) {
        let (w1, w2) = (self.ws(0), self.ws(0));
        let single = self.rng.chance(1, 2);
        let q = if single { '\'' } else { '"' };
        if !w1.is_empty() {
            self.stat(&format!("decl.{}.ws-before-eq", key));
        }
        if !w2.is_empty() {
            self.stat(&format!("decl.{}.ws-after-eq", key));
        }
        self.stat(&format!("decl.{}.{}", key, if single { "single-quote" } else { "double-quote" }));
        self.out.push_str(&format!("{}{}={}{}{}{}", key, w1, w2, q, val, q));
    }

    fn declaration(&mut self) {
        self.stat("decl");
        self.out.push_str("<?xml ");
        let w0 = self.ws(0);
        if !w0.is_empty() {
            self.stat("decl.ws-after-xml");
        }
        self.out.push_str(&w0);
        let version = *self.rng.pick(&["1.0", "1.0", "1.0", "1.1", "1.", "1.10"]);
        self.eq_quoted("version", version);
        let enc = if self.rng.chance(1, 2) { Some(*self.rng.pick(&["UTF-8", "utf-8", "ISO-8859-1", "x", "", "a_b.c-1"])) } else { None };
        if let Some(e) = enc {
            let w = self.ws(1);
            self.out.push_str(&w);
            self.eq_quoted("encoding", e);
        }
        let sa = if self.rng.chance(1, 2) { Some(self.rng.chance(1, 2)) } else { None };
        if let Some(b) = sa {
            let w = self.ws(1);
            self.out.push_str(&w);
            self.eq_quoted("standalone", if b { "yes" } else { "no" });
        }
        let w = self.ws(0);
        if !w.is_empty() {
            self.stat("decl.ws-before-close");
        }
        self.out.push_str(&w);
        self.out.push_str("?>");
        self.exp.push(format!("D|{}|{:?}|{:?}", version, enc.map(|e| e.to_string()), sa));
    }

    fn top_ws(&mut self, what: &str) {
        let w = self.ws(0);
        if !w.is_empty() {
            self.stat(&format!("top.ws-before-{}", what));
        }
        self.out.push_str(&w);
    }

    fn misc(&mut self) {
        for _ in 0..*self.rng.pick(&[0usize, 0, 1, 2]) {
            if self.rng.chance(1, 2) {
                self.top_ws("comment");
                self.comment();
            } else {
                self.top_ws("pi");
                self.pi();
            }
        }
    }
}

/// One generated layout (document: `LDoc`, fragment: `List LToken`).
pub fn gen_layout(rng: &mut Rng) -> Layout {
    let fragment = rng.chance(1, 3);
    let mut g = G { rng, out: String::new(), exp: vec![], stats: vec![] };
    if fragment {
        g.content(0);
    } else {
        if g.rng.chance(1, 4) {
            g.out.push('\u{feff}');
            g.stat("bom");
        }
        if g.rng.chance(1, 2) {
            g.declaration();
        }
        g.misc();
        g.top_ws("root");
        g.element(0);
        g.misc();
        let w = g.ws(0);
        if !w.is_empty() {
            g.stat("trail.ws");
        }
        g.out.push_str(&w);
    }
    Layout { text: g.out, fragment, expected: g.exp, stats: g.stats }
}

/// The oracle of family e; returns the failure text, if any.
pub fn check_layout(l: &Layout) -> Option<String> {
    let (got, clean) = erased_dump(&l.text, l.fragment);
    if !clean {
        return Some(format!("tokenizer error after {} of {} expected tokens", got.len(), l.expected.len()));
    }
    if got != l.expected {
        let i = got.iter().zip(l.expected.iter()).position(|(a, b)| a != b).unwrap_or(got.len().min(l.expected.len()));
        return Some(format!("token {} is {:?}, the layout stands for {:?}", i, got.get(i), l.expected.get(i)));
    }
    None
}
