//! Suite `fclone` (C12): clone_node / clone_with_prefixes / Xot::clone on sources of every kind
//! inside trees with declarations on ancestors, followed by mutation histories applied to one
//! side.  Runs inside a `suite_forest::Session` (same labels, same dump), adding the requests of
//! `lean/XotModel/Driver/Fclone.lean`.
//!
//! Oracles on the implementation (independent of the model):
//!   * the clone read back equals the source read back (adjacent text merged when consolidation
//!     is on), namespace declarations and attribute order included; `deep_equal` agrees;
//!   * the clone is parentless and made of nodes that did not exist before;
//!   * cloning leaves the dump of everything else as it was;
//!   * a history of mutations whose arguments avoid one side leaves that side's dump unchanged;
//!   * clone_with_prefixes only adds declarations that are in scope at the source, and the clone
//!     serialises whenever the source's root serialises;
//!   * Xot::clone(): every handle / id denotes an equal node / name, and the two stores are
//!     independent afterwards.
use crate::common::{enc, guarded, Rng, Sink};
use crate::suite_forest::Session;
use crate::tree::*;
use std::collections::{HashMap, HashSet};
use xot::{Node, NodeEdge, Value, Xot};

fn log(s: &mut Session, sink: &mut Sink, req: String, resp: String) {
    s.history.push(format!("{} -> {}", req, resp));
    sink.emit(format!("forest {}", req), resp);
}

/// One root in the format of `Session::dump`.
fn dump_root(xot: &Xot, vocab: &mut Vocab, label: &HashMap<Node, usize>, r: Node) -> String {
    let edges: Vec<NodeEdge> = xot.all_traverse(r).collect();
    let mut s = String::from("R");
    let mut first_kid: Vec<bool> = vec![];
    for e in edges {
        match e {
            NodeEdge::Start(n) => {
                if let Some(f) = first_kid.last_mut() {
                    if *f {
                        s.push_str(" [");
                        *f = false;
                    }
                }
                let l = label.get(&n).map(|l| l.to_string()).unwrap_or("?".into());
                s.push(' ');
                s.push_str(&l);
                s.push(' ');
                s.push_str(&GTree::leaf(read_value(xot, vocab, n)).wire());
                first_kid.push(true);
            }
            NodeEdge::End(_) => {
                if !first_kid.pop().unwrap() {
                    s.push_str(" ]");
                }
            }
        }
    }
    s
}

/// The whole store as seen through the first `nodes` handles (for a held copy of the store).
fn dump_store(xot: &Xot, vocab: &mut Vocab, label: &HashMap<Node, usize>, nodes: &[Node]) -> String {
    let mut roots: Vec<(usize, Node)> = vec![];
    let mut removed = vec![];
    for (l, &n) in nodes.iter().enumerate() {
        if xot.is_removed(n) {
            removed.push(l.to_string());
            continue;
        }
        let r = xot.root(n);
        let rl = label.get(&r).copied().unwrap_or(usize::MAX);
        if !roots.iter().any(|x| x.1 == r) {
            roots.push((rl, r));
        }
    }
    roots.sort_by_key(|x| x.0);
    let parts: Vec<String> = roots.iter().map(|(_, r)| dump_root(xot, vocab, label, *r)).collect();
    format!("{} | removed {}", parts.join(" "), removed.join(" "))
}

fn sorted_pairs(mut v: Vec<(usize, usize)>) -> String {
    v.sort();
    v.iter().map(|(p, n)| format!("{}:{}", p, n)).collect::<Vec<_>>().join(",")
}

fn inherited(s: &Session, n: Node) -> Vec<(usize, usize)> {
    s.xot.inherited_prefixes(n).into_iter().map(|(p, ns)| (prefix_num(p), ns_num(ns))).collect()
}

fn ns_decls(xot: &Xot, n: Node) -> Vec<(usize, usize)> {
    if !xot.is_element(n) {
        return vec![];
    }
    xot.namespaces(n).iter().map(|(p, ns)| (prefix_num(p), ns_num(*ns))).collect()
}

/// Requests of Driver/Fclone.lean executed on the real Xot. Returns (response, returned node).
fn exec2(s: &mut Session, sink: &mut Sink, req: &str) -> (String, Option<Node>) {
    let w: Vec<&str> = req.split(' ').collect();
    let n = |s: &Session, i: usize| s.nodes[w[i].parse::<usize>().unwrap()];
    match w[0] {
        "clone_prefixes" => {
            let a = n(s, 1);
            let inh = format!("inh={}", sorted_pairs(inherited(s, a)));
            let own = ns_decls(&s.xot, a).len();
            match guarded(|| s.xot.clone_with_prefixes(a)) {
                None => {
                    let rq = format!("clone_prefixes {} -", w[1]);
                    log(s, sink, rq, "panic".into());
                    ("panic".into(), None)
                }
                Some(c) => {
                    let added: Vec<String> = ns_decls(&s.xot, c).iter().skip(own).map(|(p, _)| p.to_string()).collect();
                    let order = if added.is_empty() { "-".to_string() } else { added.join(",") };
                    s.relabel(Some(c));
                    let resp = format!("ok {} {}", s.label[&c], inh);
                    log(s, sink, format!("clone_prefixes {} {}", w[1], order), resp.clone());
                    (resp, Some(c))
                }
            }
        }
        "inherited" => {
            let a = n(s, 1);
            let resp = format!("inh={}", sorted_pairs(inherited(s, a)));
            log(s, sink, req.to_string(), resp.clone());
            (resp, None)
        }
        "unresolved" => {
            let a = n(s, 1);
            let v: Vec<String> = s.xot.unresolved_namespaces(a).into_iter().map(|x| ns_num(x).to_string()).collect();
            let resp = format!("unres={}", v.join(","));
            log(s, sink, req.to_string(), resp.clone());
            (resp, None)
        }
        "in_scope" => {
            let a = n(s, 1);
            let v: Vec<String> =
                s.xot.namespaces_in_scope(a).map(|(p, x)| format!("{}:{}", prefix_num(p), ns_num(x))).collect();
            let resp = format!("scope={}", v.join(","));
            log(s, sink, req.to_string(), resp.clone());
            (resp, None)
        }
        "serialises" => {
            let a = n(s, 1);
            let resp = match guarded(|| s.xot.to_string(a)) {
                Some(Ok(_)) => "1",
                Some(Err(_)) => "0",
                None => "panic",
            }
            .to_string();
            log(s, sink, req.to_string(), resp.clone());
            (resp, None)
        }
        "clone_eq" => {
            let (a, b) = (n(s, 1), n(s, 2));
            let ta = read_tree(&s.xot, &mut s.vocab, a);
            let tb = read_tree(&s.xot, &mut s.vocab, b);
            let resp = if tb == expected_clone(s, &ta) { "1" } else { "0" }.to_string();
            log(s, sink, req.to_string(), resp.clone());
            (resp, None)
        }
        _ => panic!("unknown request {}", req),
    }
}

/// Independent formulation of "adjacent text merged" (left to right, first node absorbs).
fn merge_adjacent(t: &GTree) -> GTree {
    let mut kids: Vec<GTree> = vec![];
    for k in &t.kids {
        let k2 = merge_adjacent(k);
        if let GValue::Text(add) = &k2.v {
            if let Some(last) = kids.last_mut() {
                if let GValue::Text(ps) = &mut last.v {
                    ps.push_str(add);
                    continue;
                }
            }
        }
        kids.push(k2);
    }
    GTree::new(t.v.clone(), kids)
}

fn has_adjacent(t: &GTree) -> bool {
    t.kids.windows(2).any(|w| matches!(w[0].v, GValue::Text(_)) && matches!(w[1].v, GValue::Text(_)))
        || t.kids.iter().any(has_adjacent)
}

fn consolidation_on(s: &Session) -> bool {
    // no getter in the public API: the session tracks it
    s.history.iter().rev().find_map(|h| {
        if h.starts_with("cons 1") {
            Some(true)
        } else if h.starts_with("cons 0") {
            Some(false)
        } else {
            None
        }
    }).unwrap_or(true)
}

fn expected_clone(s: &Session, src: &GTree) -> GTree {
    if consolidation_on(s) {
        merge_adjacent(src)
    } else {
        src.clone()
    }
}

fn strip_abnormal(t: &GTree) -> GTree {
    GTree::new(t.v.clone(), t.kids.iter().filter(|k| k.is_normal()).map(strip_abnormal).collect())
}

fn kind_of(xot: &Xot, n: Node, fragments: &HashSet<Node>) -> &'static str {
    match xot.value(n) {
        Value::Document => {
            if fragments.contains(&n) {
                "fragment"
            } else {
                "document"
            }
        }
        Value::Element(_) => "element",
        Value::Text(_) => "text",
        Value::Comment(_) => "comment",
        Value::ProcessingInstruction(_) => "pi",
        Value::Attribute(_) => "attribute",
        Value::Namespace(_) => "namespace",
    }
}

const KINDS: &[&str] = &["document", "fragment", "element", "text", "comment", "pi", "attribute", "namespace"];

// ---------------------------------------------------------------------------------------------
// generators: trees whose names mostly resolve against the declarations in scope

fn ns_of_name(name: usize) -> usize {
    match name {
        0 | 1 | 15 => 1,
        6..=8 => NS_A,
        9..=11 => NS_B,
        12..=14 => NS_C,
        _ => 0,
    }
}

fn gen_scoped_element(rng: &mut Rng, scope: &[(usize, usize)], depth: usize, max_depth: usize, adjacent: bool) -> GTree {
    let mut kids = vec![];
    let mut sc: Vec<(usize, usize)> = scope.to_vec();
    let mut seen = vec![];
    for _ in 0..rng.below(3) {
        let p = *rng.pick(&[0usize, 2, 3, 4]);
        if seen.contains(&p) {
            continue;
        }
        seen.push(p);
        let ns = if p == 0 { *rng.pick(&[0usize, NS_A, NS_B, NS_C]) } else { *rng.pick(&[NS_A, NS_B, NS_C]) };
        kids.push(GTree::leaf(GValue::Namespace(p, ns)));
        sc.retain(|x| x.0 != p);
        sc.push((p, ns));
    }
    // element name: mostly one that resolves
    let elem_all = [2usize, 3, 4, 6, 7, 9, 10, 12, 13];
    let name = if rng.chance(1, 7) {
        *rng.pick(&elem_all)
    } else {
        let ok: Vec<usize> = elem_all.iter().copied().filter(|&n| ns_of_name(n) == 0 || sc.iter().any(|x| x.1 == ns_of_name(n))).collect();
        *rng.pick(&ok)
    };
    let attr_all = [2usize, 3, 4, 6, 7, 9, 12, 0, 1, 15];
    let mut seen = vec![];
    for _ in 0..rng.below(3) {
        let a = if rng.chance(1, 7) {
            *rng.pick(&attr_all)
        } else {
            let ok: Vec<usize> = attr_all
                .iter()
                .copied()
                .filter(|&n| ns_of_name(n) <= 1 || sc.iter().any(|x| x.1 == ns_of_name(n) && x.0 != 0))
                .collect();
            *rng.pick(&ok)
        };
        if seen.contains(&a) {
            continue;
        }
        seen.push(a);
        kids.push(GTree::leaf(GValue::Attribute(a, rng.pick(&["v", "", "w w", "preserve"]).to_string())));
    }
    if depth < max_depth {
        let mut last_text = false;
        for _ in 0..rng.below(4) {
            let k = match if adjacent && rng.chance(1, 2) { 6 } else { rng.below(10) } {
                0..=4 => gen_scoped_element(rng, &sc, depth + 1, max_depth, adjacent),
                5..=7 => GTree::leaf(GValue::Text(rng.pick(&["x", "y", " ", "ab", ""]).to_string())),
                8 => GTree::leaf(GValue::Comment(rng.pick(&["c", "", "d"]).to_string())),
                _ => GTree::leaf(GValue::PI(*rng.pick(&[17usize, 18]), if rng.chance(1, 2) { None } else { Some("d".into()) })),
            };
            let is_text = matches!(k.v, GValue::Text(_));
            if is_text && last_text && !adjacent {
                continue;
            }
            last_text = is_text;
            kids.push(k);
        }
    }
    GTree::new(GValue::Element(name), kids)
}

fn gen_misc(rng: &mut Rng) -> GTree {
    if rng.chance(1, 2) {
        GTree::leaf(GValue::Comment(rng.pick(&["c", ""]).to_string()))
    } else {
        GTree::leaf(GValue::PI(17, if rng.chance(1, 2) { None } else { Some("d".into()) }))
    }
}

/// (tree, is_fragment)
fn gen_root(rng: &mut Rng, adjacent: bool) -> (GTree, bool) {
    let depth = 2 + rng.below(2);
    match rng.below(4) {
        0 | 1 => {
            let mut kids = vec![];
            for _ in 0..rng.below(2) {
                kids.push(gen_misc(rng));
            }
            kids.push(gen_scoped_element(rng, &[], 1, depth, adjacent));
            for _ in 0..rng.below(2) {
                kids.push(gen_misc(rng));
            }
            (GTree::new(GValue::Document, kids), false)
        }
        2 => {
            let mut kids = vec![];
            let mut last_text = false;
            for _ in 0..rng.below(4) {
                let k = match if adjacent && rng.chance(1, 2) { 3 } else { rng.below(6) } {
                    0..=2 => gen_scoped_element(rng, &[], 1, depth, adjacent),
                    3 | 4 => GTree::leaf(GValue::Text(rng.pick(&["x", " ", "ab"]).to_string())),
                    _ => gen_misc(rng),
                };
                let is_text = matches!(k.v, GValue::Text(_));
                if is_text && last_text && !adjacent {
                    continue;
                }
                last_text = is_text;
                kids.push(k);
            }
            (GTree::new(GValue::Document, kids), true)
        }
        _ => (gen_scoped_element(rng, &[], 1, depth, adjacent), false),
    }
}

/// The cases the property names, as fixed trees (the random generator hits them rarely).
fn corner_tree(rng: &mut Rng) -> GTree {
    let e = |n: usize, k: Vec<GTree>| GTree::new(GValue::Element(n), k);
    let ns = |p: usize, n: usize| GTree::leaf(GValue::Namespace(p, n));
    let at = |n: usize, v: &str| GTree::leaf(GValue::Attribute(n, v.into()));
    let tx = |t: &str| GTree::leaf(GValue::Text(t.into()));
    match rng.below(12) {
        // one namespace used twice inside the source: first under a declaration of its own, later
        // relying on the ancestor's prefix (seed C12i: an answer remembered per namespace)
        9 => e(2, vec![ns(2, NS_A), e(4, vec![e(6, vec![ns(3, NS_A)]), e(7, vec![])])]),
        10 => e(2, vec![ns(2, NS_A), e(4, vec![e(3, vec![ns(3, NS_A), at(6, "v")]), e(3, vec![at(7, "w")])])]),
        // ... and the other way round
        11 => e(2, vec![ns(2, NS_B), e(4, vec![e(9, vec![at(10, "w")]), e(9, vec![ns(3, NS_B), at(10, "v")])])]),
        // prefix on the ancestor, used by descendants
        0 => e(2, vec![ns(2, NS_A), e(6, vec![e(7, vec![e(8, vec![])])])]),
        // prefixed attribute whose namespace is also the default namespace declared on the source
        1 => e(2, vec![ns(2, NS_A), e(7, vec![ns(0, NS_A), at(6, "v")])]),
        // shadowed prefix: p -> A on the ancestor, p -> B in between, q -> A on the ancestor
        2 => e(2, vec![ns(2, NS_A), ns(3, NS_A), e(3, vec![ns(2, NS_B), e(6, vec![at(7, "v"), e(9, vec![])])])]),
        // default namespace on the ancestor
        3 => e(6, vec![ns(0, NS_A), e(7, vec![tx("x"), e(2, vec![ns(0, 0), e(3, vec![])])])]),
        // xml: attributes
        4 => e(2, vec![ns(2, NS_B), e(3, vec![at(0, "preserve"), at(15, "en"), e(9, vec![tx(" ")])])]),
        // two prefixes for one namespace on different ancestors
        5 => e(2, vec![ns(2, NS_A), e(3, vec![ns(3, NS_A), ns(4, NS_C), e(6, vec![at(12, "v"), at(7, "w")])])]),
        // default namespace and a prefix for it above; the source undeclares the default (a32c6f4:
        // an element in no namespace is refused where a default namespace is in scope)
        6 => e(6, vec![ns(0, NS_A), ns(2, NS_A), e(2, vec![ns(0, 0), e(7, vec![at(6, "v")]), e(3, vec![])])]),
        // default namespace above, the source is in it and contains an undeclared island
        7 => e(6, vec![ns(0, NS_A), e(7, vec![e(2, vec![ns(0, 0), e(3, vec![tx("x")])]), e(8, vec![])])]),
        // descendant redeclares
        _ => e(2, vec![ns(2, NS_A), ns(3, NS_B), e(4, vec![e(6, vec![ns(2, NS_A)]), e(9, vec![at(10, "v")])])]),
    }
}

fn build_ops(s: &mut Session, sink: &mut Sink, t: &GTree) -> usize {
    let r = s.exec(sink, &format!("new {}", GTree::leaf(t.v.clone()).wire()));
    let root: usize = r[3..].parse().unwrap();
    for k in &t.kids {
        let kl = build_ops(s, sink, k);
        s.exec(sink, &format!("any_append {} {}", root, kl));
    }
    root
}

// ---------------------------------------------------------------------------------------------
// oracles

fn subtree_nodes(xot: &Xot, r: Node) -> Vec<Node> {
    nodes_in_order(xot, r)
}

/// Why does the clone not serialise: a narrow class name.
fn classify_missing_prefix(xot: &Xot, clone: Node) -> String {
    // walk the clone with its own declarations only
    fn walk(xot: &Xot, n: Node, scope: &[(xot::PrefixId, xot::NamespaceId)]) -> Option<String> {
        if !xot.is_element(n) {
            return None;
        }
        let mut sc: Vec<(xot::PrefixId, xot::NamespaceId)> = scope.to_vec();
        for (p, ns) in xot.namespaces(n).iter() {
            sc.retain(|x| x.0 != p);
            sc.push((p, *ns));
        }
        let ens = xot.namespace_for_name(xot.element(n).unwrap().name());
        if ens != xot.no_namespace() && ens != xot.xml_namespace() && !sc.iter().any(|x| x.1 == ens) {
            return Some("element-name-namespace-has-no-prefix".into());
        }
        for a in xot.attributes(n).keys() {
            let ans = xot.namespace_for_name(a);
            if ans == xot.no_namespace() || ans == xot.xml_namespace() {
                continue;
            }
            if !sc.iter().any(|x| x.1 == ans && x.0 != xot.empty_prefix()) {
                return Some(if sc.iter().any(|x| x.1 == ans) {
                    "attribute-namespace-known-only-as-default".into()
                } else {
                    "attribute-namespace-has-no-prefix".into()
                });
            }
        }
        for c in xot.children(n) {
            if let Some(r) = walk(xot, c, &sc) {
                return Some(r);
            }
        }
        None
    }
    walk(xot, clone, &[]).unwrap_or("other".into())
}

struct CloneCtx {
    src: usize,
    clone: usize,
    kind: &'static str,
    with_prefixes: bool,
}

/// Everything checked right after a clone / clone_prefixes request.
#[allow(clippy::too_many_arguments)]
fn check_clone(
    s: &mut Session,
    sink: &mut Sink,
    cx: &CloneCtx,
    known_before: &HashSet<Node>,
    dump_before: &str,
    src_tree_before: &GTree,
    inherited_before: &[(usize, usize)],
    root_serialised: bool,
) {
    let (src, clone) = (s.nodes[cx.src], s.nodes[cx.clone]);
    let what = if cx.with_prefixes { "clone_with_prefixes" } else { "clone_node" };
    // unattached
    if s.xot.parent(clone).is_some() {
        sink.fail("C12", &format!("C12:{}-result-has-a-parent", what), &format!("{} {}: the clone has a parent", what, cx.src), &s.history);
    }
    // fresh nodes
    let cnodes = subtree_nodes(&s.xot, clone);
    if cnodes.iter().any(|n| known_before.contains(n)) {
        sink.fail("C12", &format!("C12:{}-reuses-existing-node", what), &format!("{} {}: a node of the clone existed before", what, cx.src), &s.history);
    }
    // the rest of the forest is as it was
    let dump_after = s.dump();
    let ok_prefix = dump_after.starts_with(dump_before) && {
        let rest = &dump_after[dump_before.len()..];
        rest.split(' ').filter(|w| *w == "R").count() == 1
    };
    if !ok_prefix {
        sink.fail("C12", &format!("C12:{}-changed-the-existing-forest", what), &format!("{} {}: dump before `{}` after `{}`", what, cx.src, dump_before, dump_after), &s.history);
    }
    // source unchanged, clone equal to it
    let src_tree = read_tree(&s.xot, &mut s.vocab, src);
    if &src_tree != src_tree_before {
        sink.fail("C12", &format!("C12:{}-changed-the-source", what), &format!("{} {}: source was `{}` is `{}`", what, cx.src, src_tree_before.wire(), src_tree.wire()), &s.history);
    }
    let expected = expected_clone(s, &src_tree);
    let mut clone_tree = read_tree(&s.xot, &mut s.vocab, clone);
    if cx.with_prefixes && cx.kind == "element" {
        // the added declarations come after the source's own
        let own: Vec<GTree> = src_tree.kids.iter().filter(|k| matches!(k.v, GValue::Namespace(..))).cloned().collect();
        let all: Vec<GTree> = clone_tree.kids.iter().filter(|k| matches!(k.v, GValue::Namespace(..))).cloned().collect();
        let added: Vec<(usize, usize)> = all.iter().skip(own.len()).map(|k| match k.v { GValue::Namespace(p, n) => (p, n), _ => unreachable!() }).collect();
        sink.stat_n("clone_prefixes.added", added.len() as u64);
        if added.len() >= 2 {
            sink.stat("clone_prefixes.added>=2");
        }
        let in_scope: Vec<(usize, usize)> = s.xot.namespaces_in_scope(src).map(|(p, x)| (prefix_num(p), ns_num(x))).collect();
        for d in &added {
            if !in_scope.contains(d) {
                sink.fail("C12", "C12:clone_with_prefixes-adds-declaration-not-in-scope", &format!("clone_with_prefixes {}: added {}:{} which is not in scope at the source", cx.src, d.0, d.1), &s.history);
            }
            if own.iter().any(|k| matches!(k.v, GValue::Namespace(p, _) if p == d.0)) {
                sink.fail("C12", "C12:clone_with_prefixes-redeclares-own-prefix", &format!("clone_with_prefixes {}: prefix {} declared twice", cx.src, d.0), &s.history);
            }
        }
        // exactly the inherited prefixes not declared by the source itself
        let mut want: Vec<(usize, usize)> = inherited_before.iter().copied().filter(|d| !own.iter().any(|k| matches!(k.v, GValue::Namespace(p, _) if p == d.0))).collect();
        want.sort();
        let mut got = added.clone();
        got.sort();
        if want != got {
            sink.fail("C12", "C12:clone_with_prefixes-added-set-differs-from-inherited_prefixes", &format!("clone_with_prefixes {}: added {:?}, inherited_prefixes minus own {:?}", cx.src, got, want), &s.history);
        }
        // compare the rest
        let n_own = own.len();
        let mut i = 0;
        clone_tree.kids.retain(|k| {
            if matches!(k.v, GValue::Namespace(..)) {
                i += 1;
                i <= n_own
            } else {
                true
            }
        });
    }
    if clone_tree != expected {
        let sig = if strip_abnormal(&clone_tree) == strip_abnormal(&expected) {
            format!("C12:{}-declarations-or-attribute-order-differ:{}", what, cx.kind)
        } else {
            format!("C12:{}-differs-from-source:{}", what, cx.kind)
        };
        sink.fail("C12", &sig, &format!("{} {}: expected `{}` got `{}`", what, cx.src, expected.wire(), clone_tree.wire()), &s.history);
    }
    // deep_equal (structure only; attribute / namespace nodes: values compared above)
    if !matches!(cx.kind, "attribute" | "namespace") {
        if !has_adjacent(&src_tree) || !consolidation_on(s) {
            sink.stat("deep_equal.checked");
            if !s.xot.deep_equal(src, clone) {
                sink.fail("C12", &format!("C12:deep_equal-false-on-clone:{}", cx.kind), &format!("{} {}: deep_equal(source, clone) is false", what, cx.src), &s.history);
            }
        } else {
            sink.stat("deep_equal.skipped-adjacent-text-merged");
        }
    } else if s.xot.value(src) != s.xot.value(clone) {
        sink.fail("C12", &format!("C12:{}-value-differs:{}", what, cx.kind), "value of the cloned attribute / namespace node differs", &s.history);
    }
    // serialises on its own
    if cx.with_prefixes && cx.kind == "element" {
        if root_serialised {
            sink.stat("clone_prefixes.source-root-serialises");
            match guarded(|| s.xot.to_string(clone)) {
                Some(Ok(_)) => sink.stat("clone_prefixes.clone-serialises"),
                Some(Err(e)) => {
                    let why = classify_missing_prefix(&s.xot, clone);
                    sink.fail("C12", &format!("C12:clone_with_prefixes-does-not-serialise:{}", why), &format!("clone_with_prefixes {}: the source's root serialises, the clone gives {:?}", cx.src, e), &s.history);
                }
                None => sink.fail("C12", "C12:clone_with_prefixes-to_string-panics", &format!("clone_with_prefixes {}: to_string(clone) panicked", cx.src), &s.history),
            }
        } else {
            sink.stat("clone_prefixes.source-root-does-not-serialise");
        }
    }
}

// ---------------------------------------------------------------------------------------------
// mutation histories on one side

const OPS: &[(&str, usize)] = &[
    ("append", 10), ("prepend", 8), ("insert_after", 10), ("insert_before", 10), ("detach", 5), ("remove", 6),
    ("replace", 6), ("unwrap", 5), ("wrap", 5), ("clone", 3), ("clone_prefixes", 3), ("any_append", 5),
    ("append_attr_node", 2), ("append_ns_node", 2), ("map_insert", 6), ("map_remove", 4), ("map_clear", 1),
    ("set_name", 3), ("set_text", 5), ("set_comment", 2), ("set_pi_data", 2), ("text_content_set", 3),
    ("strip_ws", 2), ("new", 6),
];

fn pick_op(rng: &mut Rng) -> &'static str {
    let total: usize = OPS.iter().map(|o| o.1).sum();
    let mut x = rng.below(total);
    for (n, w) in OPS {
        if x < *w {
            return n;
        }
        x -= w;
    }
    unreachable!()
}

fn small_text(rng: &mut Rng) -> String {
    rng.pick(&["x", "y", " ", "\n ", "ab", "", "z-"]).to_string()
}

fn gen_value(rng: &mut Rng) -> GValue {
    match rng.below(11) {
        0..=3 => GValue::Element(*rng.pick(&[2usize, 3, 6, 9])),
        4..=6 => GValue::Text(small_text(rng)),
        7 => GValue::Comment(rng.pick(&["c", "", "d"]).to_string()),
        8 => GValue::PI(17, if rng.chance(1, 2) { None } else { Some("d".into()) }),
        9 => GValue::Attribute(*rng.pick(&[2usize, 3, 0, 6]), small_text(rng)),
        _ => GValue::Namespace(*rng.pick(&[0usize, 2, 3]), *rng.pick(&[0usize, 2, 3])),
    }
}

/// A held copy of the store (`Xot::clone()`), with what it looked like when it was taken.
struct Held {
    xot: Xot,
    n_nodes: usize,
    snapshot: String,
    which: &'static str,
}

fn store_clone(s: &mut Session, sink: &mut Sink, rng: &mut Rng) -> Option<Held> {
    let swap = rng.chance(1, 2);
    let copy = match guarded(|| s.xot.clone()) {
        Some(c) => c,
        None => {
            sink.fail("C12", "C12:store-clone-panics", "Xot::clone() panicked", &s.history);
            return None;
        }
    };
    log(s, sink, format!("store_clone {}", if swap { "swap" } else { "keep" }), "ok".into());
    let n_nodes = s.nodes.len();
    let nodes: Vec<Node> = s.nodes.clone();
    let a = dump_store(&s.xot, &mut s.vocab, &s.label, &nodes);
    let b = dump_store(&copy, &mut s.vocab, &s.label, &nodes);
    if a != b {
        sink.fail("C12", "C12:store-clone-node-differs", &format!("Xot::clone(): original `{}` copy `{}`", a, b), &s.history);
    }
    // every handle: same parent / siblings
    for &nd in &nodes {
        if s.xot.is_removed(nd) {
            continue;
        }
        if s.xot.parent(nd) != copy.parent(nd) || s.xot.first_child(nd) != copy.first_child(nd) || s.xot.next_sibling(nd) != copy.next_sibling(nd) || s.xot.value(nd) != copy.value(nd) {
            sink.fail("C12", "C12:store-clone-node-differs", "Xot::clone(): a handle denotes a different node in the copy", &s.history);
            break;
        }
    }
    // every id: same strings
    let mut ids_ok = true;
    for (_, _, id) in &s.vocab.names {
        ids_ok &= s.xot.name_ns_str(*id) == copy.name_ns_str(*id);
    }
    for (_, id) in &s.vocab.namespaces {
        ids_ok &= s.xot.namespace_str(*id) == copy.namespace_str(*id);
    }
    for (_, id) in &s.vocab.prefixes {
        ids_ok &= s.xot.prefix_str(*id) == copy.prefix_str(*id);
    }
    ids_ok &= s.xot.xml_namespace() == copy.xml_namespace() && s.xot.empty_prefix() == copy.empty_prefix() && s.xot.no_namespace() == copy.no_namespace();
    if !ids_ok {
        sink.fail("C12", "C12:store-clone-id-differs", "Xot::clone(): an id denotes a different name / namespace / prefix in the copy", &s.history);
    }
    sink.stat(if swap { "store_clone.swap" } else { "store_clone.keep" });
    let mut held = Held { xot: copy, n_nodes, snapshot: a, which: if swap { "original" } else { "copy" } };
    if swap {
        std::mem::swap(&mut s.xot, &mut held.xot);
    }
    Some(held)
}

fn check_held(s: &mut Session, sink: &mut Sink, held: &Held, after: &str) {
    let nodes: Vec<Node> = s.nodes[..held.n_nodes].to_vec();
    match guarded(|| dump_store(&held.xot, &mut s.vocab, &s.label, &nodes)) {
        Some(now) if now == held.snapshot => {}
        Some(now) => sink.fail("C12", &format!("C12:store-clone-not-independent:{}-changed", held.which), &format!("after {}: the held {} was `{}` is `{}`", after, held.which, held.snapshot, now), &s.history),
        None => sink.fail("C12", &format!("C12:store-clone-not-independent:{}-unreadable", held.which), &format!("after {}: reading the held {} panicked", after, held.which), &s.history),
    }
}

/// One clone operation with all its oracles. Returns (source label, clone label).
fn do_clone(s: &mut Session, sink: &mut Sink, src: usize, with_prefixes: bool, fragments: &HashSet<Node>) -> Option<(usize, usize)> {
    let src_node = s.nodes[src];
    let kind = kind_of(&s.xot, src_node, fragments);
    sink.stat(&format!("{}.{}", if with_prefixes { "clone_prefixes" } else { "clone" }, kind));
    // queries (correspondence of the pieces)
    exec2(s, sink, &format!("in_scope {}", src));
    exec2(s, sink, &format!("unresolved {}", src));
    exec2(s, sink, &format!("inherited {}", src));
    let known_before: HashSet<Node> = s.label.keys().copied().collect();
    let dump_before = s.dump();
    let src_tree_before = read_tree(&s.xot, &mut s.vocab, src_node);
    if has_adjacent(&src_tree_before) {
        sink.stat(if consolidation_on(s) { "source.adjacent-text.consolidation-on" } else { "source.adjacent-text.consolidation-off" });
    }
    let inherited_before = inherited(s, src_node);
    let root = s.xot.root(src_node);
    let root_serialised = matches!(guarded(|| s.xot.to_string(root)), Some(Ok(_)));
    let resp = if with_prefixes { exec2(s, sink, &format!("clone_prefixes {}", src)).0 } else { s.exec(sink, &format!("clone {}", src)) };
    if resp == "panic" {
        sink.fail("C12", &format!("C12:{}-panics:{}", if with_prefixes { "clone_with_prefixes" } else { "clone_node" }, kind), &format!("cloning {} panicked", src), &s.history);
        return None;
    }
    let clone: usize = resp.split(' ').nth(1).unwrap().parse().unwrap();
    s.exec(sink, "dump");
    s.exec(sink, "inv");
    exec2(s, sink, &format!("clone_eq {} {}", src, clone));
    if !matches!(kind, "attribute" | "namespace") {
        let root_label = s.label[&root];
        exec2(s, sink, &format!("serialises {}", root_label));
        exec2(s, sink, &format!("serialises {}", src));
        exec2(s, sink, &format!("serialises {}", clone));
    }
    let cx = CloneCtx { src, clone, kind, with_prefixes };
    check_clone(s, sink, &cx, &known_before, &dump_before, &src_tree_before, &inherited_before, root_serialised);
    Some((src, clone))
}

pub fn one_history(rng: &mut Rng, sink: &mut Sink, n_ops: usize, case: usize) {
    let mut s = Session::new();
    s.exec(sink, "reset");
    let vw = s.vocab.wire();
    s.history.push(vw.clone());
    sink.emit(vw, "ok".into());
    let adjacent = rng.chance(1, 3);
    if adjacent {
        s.exec(sink, "cons 0");
    }
    let mut fragments: HashSet<Node> = HashSet::new();
    for i in 0..(1 + rng.below(2)) {
        if i == 0 && rng.chance(1, 3) {
            let t = corner_tree(rng);
            build_ops(&mut s, sink, &t);
        } else {
            let (t, frag) = gen_root(rng, adjacent);
            let r = build_ops(&mut s, sink, &t);
            if frag {
                fragments.insert(s.nodes[r]);
            }
        }
    }
    if adjacent && rng.chance(2, 3) {
        s.exec(sink, "cons 1");
    }
    // source of the wanted kind
    let want = KINDS[case % KINDS.len()];
    let live = s.live();
    let of_kind: Vec<usize> = live.iter().copied().filter(|&l| kind_of(&s.xot, s.nodes[l], &fragments) == want).collect();
    let src = if of_kind.is_empty() { *rng.pick(&live) } else { *rng.pick(&of_kind) };
    let with_prefixes = rng.chance(1, 2);
    let (src, clone) = match do_clone(&mut s, sink, src, with_prefixes, &fragments) {
        Some(x) => x,
        None => return,
    };
    // which side is mutated; the other one is watched
    let mutate_clone = rng.chance(1, 2);
    let watched_root = if mutate_clone { s.xot.root(s.nodes[src]) } else { s.nodes[clone] };
    let watched: HashSet<Node> = subtree_nodes(&s.xot, watched_root).into_iter().collect();
    let watched_dump = dump_root(&s.xot, &mut s.vocab, &s.label, watched_root);
    sink.stat(if mutate_clone { "mutate.clone-side" } else { "mutate.source-side" });
    let store_at = if rng.chance(1, 3) { Some(rng.below(n_ops.max(1))) } else { None };
    let mut held: Option<Held> = None;
    for step in 0..n_ops {
        if store_at == Some(step) {
            held = store_clone(&mut s, sink, rng);
        }
        let live: Vec<usize> = s.live().into_iter().filter(|&l| !watched.contains(&s.nodes[l])).collect();
        if live.is_empty() {
            break;
        }
        // mostly stay inside the mutated side's own tree
        let side_root = if mutate_clone { s.nodes[clone] } else { s.xot.root(s.nodes[src]) };
        let side: Vec<usize> = if s.xot.is_removed(side_root) { vec![] } else { subtree_nodes(&s.xot, side_root).iter().filter_map(|n| s.label.get(n).copied()).collect() };
        let pool: &Vec<usize> = if side.is_empty() || rng.chance(1, 4) { &live } else { &side };
        let op = pick_op(rng);
        let a = *rng.pick(pool);
        let b = if rng.chance(1, 3) { *rng.pick(&live) } else { *rng.pick(pool) };
        let elems: Vec<usize> = pool.iter().copied().filter(|&l| s.xot.is_element(s.nodes[l])).collect();
        let e = if elems.is_empty() || rng.chance(1, 8) { a } else { *rng.pick(&elems) };
        let req = match op {
            "append" | "prepend" | "any_append" => format!("{} {} {}", op, if rng.chance(3, 4) { e } else { a }, b),
            "insert_after" | "insert_before" | "replace" => format!("{} {} {}", op, a, b),
            "append_attr_node" | "append_ns_node" => format!("{} {} {}", op, e, b),
            "detach" | "remove" | "unwrap" | "clone" | "strip_ws" | "clone_prefixes" => format!("{} {}", op, a),
            "wrap" => format!("wrap {} {}", a, rng.pick(&[2usize, 6])),
            "map_insert" => {
                if rng.chance(1, 2) {
                    format!("map_insert attr {} {} {}", e, rng.pick(&[2usize, 3, 0, 6]), enc(&small_text(rng)))
                } else {
                    format!("map_insert ns {} {} {}", e, rng.pick(&[0usize, 2, 3]), rng.pick(&[0usize, 2, 3]))
                }
            }
            "map_remove" => {
                if rng.chance(1, 2) {
                    format!("map_remove attr {} {}", e, rng.pick(&[2usize, 3, 0, 6]))
                } else {
                    format!("map_remove ns {} {}", e, rng.pick(&[0usize, 2, 3]))
                }
            }
            "map_clear" => format!("map_clear {} {}", if rng.chance(1, 2) { "attr" } else { "ns" }, e),
            "set_name" => format!("set_name {} {}", e, rng.pick(&[2usize, 6, 9])),
            "set_text" => format!("set_text {} {}", a, enc(&small_text(rng))),
            "set_comment" => format!("set_comment {} {}", a, enc(&small_text(rng))),
            "set_pi_data" => format!("set_pi_data {} {}", a, if rng.chance(1, 3) { "-".to_string() } else { enc(&small_text(rng)) }),
            "text_content_set" => format!("text_content_set {} {}", e, enc(&small_text(rng))),
            "new" => format!("new {}", GTree::leaf(gen_value(rng)).wire()),
            _ => unreachable!(),
        };
        sink.stat(&format!("op.{}", op));
        let resp = if op == "clone" || op == "clone_prefixes" {
            // a further clone inside the history, with all its oracles
            match do_clone(&mut s, sink, a, op == "clone_prefixes", &fragments) {
                Some(_) => "ok".to_string(),
                None => return,
            }
        } else {
            s.exec(sink, &req)
        };
        sink.stat(&format!("resp.{}", resp.split(' ').next().unwrap()));
        if resp == "panic" {
            return; // documented element-only accessors; the forest suite classifies the others
        }
        s.exec(sink, "dump");
        // the watched side is untouched
        let ok = !s.xot.is_removed(watched_root) && s.xot.parent(watched_root).is_none() && dump_root(&s.xot, &mut s.vocab, &s.label, watched_root) == watched_dump;
        if !ok {
            sink.fail(
                "C12",
                &format!("C12:mutating-{}-changed-the-{}:{}", if mutate_clone { "clone" } else { "source-tree" }, if mutate_clone { "source-tree" } else { "clone" }, op),
                &format!("after {}: the other side was `{}`", req, watched_dump),
                &s.history,
            );
            return;
        }
        if let Some(h) = &held {
            check_held(&mut s, sink, h, &req);
        }
    }
    if let Some(h) = &held {
        check_held(&mut s, sink, h, "the history");
        // and the held store still works on its own
        let mut h2 = h.xot.clone();
        let root_ok = guarded(|| {
            let e = h2.new_element(s.vocab.name(2));
            h2.clone_node(e);
        });
        if root_ok.is_none() {
            sink.fail("C12", "C12:store-clone-unusable", "the held store panicked on new_element / clone_node", &s.history);
        }
    }
}

/// Thorough tier: every source element with at most two normal children over a small alphabet
/// of kinds, every admissible set of declarations / attributes, under every wrapper (none, a
/// parent declaring a prefix, a default namespace two levels up, a document), cloned both ways
/// with consolidation on and — when it has adjacent text — off and switched back on.
fn exhaustive(sink: &mut Sink) {
    let e = |n: usize, k: Vec<GTree>| GTree::new(GValue::Element(n), k);
    let ns = |p: usize, n: usize| GTree::leaf(GValue::Namespace(p, n));
    let at = |n: usize, v: &str| GTree::leaf(GValue::Attribute(n, v.into()));
    let normal: Vec<GTree> = vec![
        GTree::leaf(GValue::Text("x".into())),
        GTree::leaf(GValue::Text("".into())),
        GTree::leaf(GValue::Comment("c".into())),
        GTree::leaf(GValue::PI(17, None)),
        e(2, vec![]),
        e(7, vec![at(6, "w")]),
    ];
    let ns_sets: Vec<Vec<GTree>> = vec![vec![], vec![ns(2, NS_A)], vec![ns(0, NS_A)], vec![ns(0, 0)], vec![ns(2, NS_A), ns(0, NS_A)], vec![ns(2, NS_B), ns(0, 0)]];
    let attr_sets: Vec<Vec<GTree>> = vec![vec![], vec![at(2, "v")], vec![at(6, "v")], vec![at(0, "preserve")], vec![at(2, ""), at(6, "v")]];
    let mut normal_seqs: Vec<Vec<GTree>> = vec![vec![]];
    for a in &normal {
        normal_seqs.push(vec![a.clone()]);
        for b in &normal {
            normal_seqs.push(vec![a.clone(), b.clone()]);
        }
    }
    let mut n_cases = 0u64;
    for name in [2usize, 6] {
        for nss in &ns_sets {
            for ats in &attr_sets {
                for seq in &normal_seqs {
                    let mut kids = nss.clone();
                    kids.extend(ats.iter().cloned());
                    kids.extend(seq.iter().cloned());
                    let src = e(name, kids);
                    let adjacent = has_adjacent(&src);
                    for wrapper in 0..4 {
                        let tree = match wrapper {
                            0 => src.clone(),
                            1 => e(3, vec![ns(3, NS_A), GTree::leaf(GValue::Text("y".into())), src.clone()]),
                            2 => e(6, vec![ns(0, NS_A), ns(4, NS_A), e(7, vec![src.clone()])]),
                            _ => GTree::new(GValue::Document, vec![src.clone()]),
                        };
                        // path of the source inside the wrapper
                        let variants: &[u8] = if adjacent { &[0, 1] } else { &[0] };
                        for &variant in variants {
                            n_cases += 1;
                            let mut s = Session::new();
                            s.exec(sink, "reset");
                            let vw = s.vocab.wire();
                            s.history.push(vw.clone());
                            sink.emit(vw, "ok".into());
                            if adjacent {
                                s.exec(sink, "cons 0");
                            }
                            build_ops(&mut s, sink, &tree);
                            if variant == 1 {
                                s.exec(sink, "cons 1");
                            }
                            let fragments = HashSet::new();
                            // the source is the unique element whose read-back equals `src`
                            let live = s.live();
                            let src_label = live.iter().copied().rev().find(|&l| s.xot.is_element(s.nodes[l]) && read_tree(&s.xot, &mut s.vocab, s.nodes[l]) == src);
                            let Some(l) = src_label else { continue };
                            if do_clone(&mut s, sink, l, false, &fragments).is_none() {
                                continue;
                            }
                            do_clone(&mut s, sink, l, true, &fragments);
                        }
                    }
                }
            }
        }
    }
    sink.stat_n("exhaustive.cases", n_cases);
}

/// Clones of PARSED documents / fragments that carry xml:id values (implementation only: the
/// forest model of this suite has no xml:id index, suite fidx has): whatever an accessor hands out
/// for the clone must be a node of the clone ("made entirely of new nodes"), and editing what it
/// hands out must not show in the source (seed C12g: the index entry of the source document copied
/// verbatim to the clone).
fn xml_id_clone_cases(rng: &mut Rng, sink: &mut Sink, n: usize) {
    for _ in 0..n {
        let ids: Vec<String> = (0..(1 + rng.below(3))).map(|i| format!("i{}", i)).collect();
        let mut body = String::new();
        for (k, id) in ids.iter().enumerate() {
            body.push_str(&format!("<e{} xml:id=\"{}\">t</e{}>", k, id, k));
        }
        let fragment = rng.chance(1, 3);
        let text = if fragment { body.clone() } else { format!("<r>{}</r>", body) };
        let mut xot = xot::Xot::new();
        let doc = match if fragment { xot.parse_fragment(&text) } else { xot.parse(&text) } {
            Ok(d) => d,
            Err(_) => continue,
        };
        let before = xot.to_string(doc).unwrap_or_default();
        let clone = match crate::common::guarded(|| xot.clone_node(doc)) {
            Some(c) => c,
            None => {
                sink.fail("C12", "C12:clone_node-of-parsed-document-panics", &format!("clone_node(document) of `{}` panicked", text), &[text.clone()]);
                continue;
            }
        };
        sink.stat("xmlid-clone.cases");
        for id in &ids {
            if let Some(n) = xot.xml_id_node(clone, id) {
                sink.stat("xmlid-clone.lookup-some");
                if xot.root(n) != clone {
                    sink.fail("C12", "C12:clone-hands-out-a-node-of-the-source", &format!("`{}`: xml_id_node(clone, \"{}\") is a node whose root is not the clone", text, id), &[text.clone()]);
                    continue;
                }
            } else {
                sink.stat("xmlid-clone.lookup-none");
            }
            // the source still answers, with its own node
            match xot.xml_id_node(doc, id) {
                Some(n) if xot.root(n) == doc => {}
                other => sink.fail("C12", "C12:clone_node-changed-the-xml-id-index-of-the-source", &format!("`{}`: xml_id_node(source, \"{}\") = {:?} after clone_node", text, id, other.is_some()), &[text.clone()]),
            }
        }
        if xot.to_string(doc).unwrap_or_default() != before {
            sink.fail("C12", "C12:clone_node-changed-the-source", &format!("`{}` serialises differently after clone_node(document)", text), &[text.clone()]);
        }
    }
}

/// clone_with_prefixes of an inner element of a parsed document whose children use each namespace
/// several times, some under a declaration of their own and some through a prefix declared above
/// the source, in every order (seed C12i).  Implementation-only oracle: the source serialised in
/// place, so the clone serialises on its own and reparses deep-equal to the source.
fn scope_clone_cases(rng: &mut Rng, sink: &mut Sink, n: usize) {
    for _ in 0..n {
        let mut body = String::new();
        for _ in 0..(2 + rng.below(4)) {
            let (pfx_above, uri) = *rng.pick(&[("p", "urn:a"), ("q", "urn:b")]);
            let own = rng.chance(1, 2);
            let pfx = if own { *rng.pick(&["x", "y", pfx_above]) } else { pfx_above };
            let decl = if own { format!(" xmlns:{}=\"{}\"", pfx, uri) } else { String::new() };
            match rng.below(3) {
                0 => body.push_str(&format!("<{}:k{}/>", pfx, decl)),
                1 => body.push_str(&format!("<n {}:a=\"v\"{}/>", pfx, decl)),
                _ => body.push_str(&format!("<n{}><{}:k {}:a=\"v\"/></n>", decl, pfx, pfx)),
            }
        }
        let text = format!("<r xmlns:p=\"urn:a\" xmlns:q=\"urn:b\"><m>{}</m></r>", body);
        let mut xot = xot::Xot::new();
        let doc = match xot.parse(&text) {
            Ok(d) => d,
            Err(_) => continue,
        };
        let m = xot.first_child(xot.document_element(doc).unwrap()).unwrap();
        sink.stat("scope-clone.cases");
        let clone = match crate::common::guarded(|| xot.clone_with_prefixes(m)) {
            Some(c) => c,
            None => {
                sink.fail("C12", "C12:clone_with_prefixes-panics:element", &format!("clone_with_prefixes(<m>) of `{}` panicked", text), &[text.clone()]);
                continue;
            }
        };
        match crate::common::guarded(|| xot.to_string(clone)) {
            Some(Ok(out)) => match xot.parse(&out) {
                Ok(d2) => {
                    let e2 = xot.document_element(d2).unwrap();
                    if !xot.deep_equal(e2, m) {
                        sink.fail("C12", "C12:clone_with_prefixes-reparses-differently", &format!("`{}`: the clone of <m> serialises to `{}` which is not deep-equal to the source", text, out), &[text.clone()]);
                    }
                }
                Err(e) => sink.fail("C12", "C12:clone_with_prefixes-output-does-not-parse", &format!("`{}`: `{}`: {:?}", text, out, e), &[text.clone()]),
            },
            Some(Err(e)) => sink.fail("C12", "C12:clone_with_prefixes-does-not-serialise:parsed-source", &format!("`{}`: the document serialises, the clone of <m> gives {:?}", text, e), &[text.clone()]),
            None => sink.fail("C12", "C12:clone_with_prefixes-to_string-panics", &format!("`{}`: to_string(clone of <m>) panicked", text), &[text.clone()]),
        }
    }
}

pub fn run(seed: u64, count: usize, tier: &str, sink: &mut Sink) {
    if tier == "thorough" {
        exhaustive(sink);
    }
    {
        let mut rng = Rng::new(seed ^ 0xC12E);
        scope_clone_cases(&mut rng, sink, if tier == "quick" { 150 } else { 1500 });
    }
    {
        let mut rng = Rng::new(seed ^ 0xC12D);
        xml_id_clone_cases(&mut rng, sink, if tier == "quick" { 40 } else { 400 });
    }
    let mut rng = Rng::new(seed ^ 0xFC10);
    let n_ops = if tier == "quick" { 8 } else { 20 };
    for i in 0..count {
        one_history(&mut rng, sink, n_ops, i);
    }
}
