//! Suite `scope` (C09, C15): namespace scope queries and `deduplicate_namespaces` on generated
//! declaration layouts.  Layouts come from a grammar of declare / redeclare / shadow / alias /
//! undeclare events per level (see `gen_decls`); every node of every layout is queried with every
//! prefix / namespace / name of the vocabulary.  The oracles (`scope_oracle.rs`) judge the
//! implementation against an independent nearest-declaration-wins resolver.
use crate::common::{enc, guarded, Rng, Sink};
use crate::scope_oracle as oracle;
use crate::tree::*;
use std::collections::BTreeMap;
use xot::{Error, Node, Xot};

pub const QUERY_OPS: &[&str] = &["in_scope", "nfp", "defined", "pfn", "inherited", "unresolved", "names", "node"];

const PFX: [usize; 4] = [0, 2, 3, 4];
const NSS: [usize; 3] = [NS_A, NS_B, NS_C];

fn opt(n: Option<usize>) -> String {
    n.map(|n| n.to_string()).unwrap_or_else(|| "-".to_string())
}
fn join(v: Vec<String>) -> String {
    if v.is_empty() { "-".to_string() } else { v.join(",") }
}
fn missing(e: &Error) -> String {
    match e {
        Error::MissingPrefix(s) => format!("!{}", enc(s)),
        _ => "!?".to_string(),
    }
}

/// One query on the real crate, rendered exactly as `Driver/Scope.lean` renders the model's answer.
pub fn query(xot: &Xot, vocab: &Vocab, op: &str, node: Node) -> String {
    let r = guarded(|| match op {
        "in_scope" => join(
            xot.namespaces_in_scope(node).map(|(p, n)| format!("{}:{}", prefix_num(p), ns_num(n))).collect(),
        ),
        "nfp" => join(
            (0..vocab.prefixes.len())
                .map(|i| format!("{}={}", i, opt(xot.namespace_for_prefix(node, vocab.prefix(i)).map(ns_num))))
                .collect(),
        ),
        "defined" => join(
            (0..vocab.prefixes.len())
                .map(|i| format!("{}={}", i, if xot.is_prefix_defined(node, vocab.prefix(i)) { "t" } else { "f" }))
                .collect(),
        ),
        "pfn" => join(
            (0..vocab.namespaces.len())
                .map(|i| format!("{}={}", i, opt(xot.prefix_for_namespace(node, vocab.ns(i)).map(prefix_num))))
                .collect(),
        ),
        "inherited" => {
            let mut v: Vec<(usize, usize)> =
                xot.inherited_prefixes(node).into_iter().map(|(p, n)| (prefix_num(p), ns_num(n))).collect();
            v.sort();
            join(v.into_iter().map(|(p, n)| format!("{}:{}", p, n)).collect())
        }
        "unresolved" => join(xot.unresolved_namespaces(node).into_iter().map(|n| ns_num(n).to_string()).collect()),
        "names" => join(
            (0..vocab.names.len())
                .map(|i| {
                    let f = match xot.full_name(node, vocab.name(i)) {
                        Ok(s) => enc(&s),
                        Err(e) => missing(&e),
                    };
                    let r = match xot.name_ref(vocab.name(i), node) {
                        Ok(r) => prefix_num(r.prefix_id()).to_string(),
                        Err(e) => missing(&e),
                    };
                    format!("{}={}/{}", i, f, r)
                })
                .collect(),
        ),
        "node" => {
            let nm = opt(xot.node_name(node).map(name_num));
            let r = match xot.node_name_ref(node) {
                Ok(None) => "-".to_string(),
                Ok(Some(r)) => format!("{}:{}", name_num(r.name_id()), prefix_num(r.prefix_id())),
                Err(e) => missing(&e),
            };
            format!("name={} ref={}", nm, r)
        }
        "writable" => match xot.to_string(node) {
            Ok(_) => "t".to_string(),
            Err(Error::MissingPrefix(_)) => "f".to_string(),
            Err(e) => format!("e:{:?}", e),
        },
        _ => unreachable!(),
    });
    match r {
        Some(s) => format!("ok {}", s),
        None => "panic".to_string(),
    }
}

fn fresh() -> (Xot, Vocab) {
    let mut xot = Xot::new();
    let vocab = Vocab::standard(&mut xot);
    (xot, vocab)
}

/// All queries on the given nodes (all nodes when `only` is `None`) of one layout + C09 oracle.
pub fn run_queries(sink: &mut Sink, t: &GTree, only: Option<&[Vec<usize>]>, ops: &[&str]) {
    let (mut xot, vocab) = fresh();
    let root = match build(&mut xot, &vocab, t, true) {
        Ok(n) => n,
        Err(_) => {
            sink.stat("build.refused");
            return;
        }
    };
    let nodes = nodes_in_order(&xot, root);
    let paths = t.paths();
    assert_eq!(nodes.len(), paths.len());
    let wire = t.wire();
    for (path, node) in paths.iter().zip(nodes.iter()) {
        if let Some(only) = only {
            if !only.contains(path) {
                continue;
            }
        }
        for op in ops {
            let resp = query(&xot, &vocab, op, *node);
            sink.stat(&format!("op.{}", op));
            if resp == "panic" {
                sink.stat("resp.panic");
            }
            sink.emit(format!("scope {} {} {}", op, path_str(path), wire), resp);
        }
        if ops.len() == QUERY_OPS.len() && matches!(t.at(path).unwrap().v, GValue::Document | GValue::Element(_)) {
            let resp = query(&xot, &vocab, "writable", *node);
            sink.stat(&format!("writable.{}", resp.replace(' ', "-")));
            sink.emit(format!("scope writable {} {}", path_str(path), wire), resp);
        }
        if ops.len() == QUERY_OPS.len() {
            // the name types (scope_names.rs): one line for the model, the laws on the implementation
            match guarded(|| crate::scope_names::xmlname_obs(&xot, &vocab, *node)) {
                Some(obs) => {
                    sink.stat("op.xmlname");
                    sink.emit(format!("scope xmlname {} {}", path_str(path), wire), crate::scope_names::xmlname_wire(&obs));
                    crate::scope_names::check_xmlnames(sink, &xot, &vocab, t, path, *node, &oracle::resolve(t, path), &obs);
                }
                None => {
                    sink.stat("resp.panic");
                    sink.emit(format!("scope xmlname {} {}", path_str(path), wire), "panic".to_string());
                    oracle::fail(sink, "C09", "C09:name-type-conversion-panics", "a conversion between RefName / OwnedName / CreateName panicked", t, path, "xmlname");
                }
            }
        }
        if guarded(|| oracle::check_node(&mut *sink, &xot, &vocab, t, path, *node)).is_none() {
            oracle::fail(sink, "C09", "C09:scope-query-panics", "a scope / name query of the crate panicked on a tree built through the public API", t, path, "in_scope");
        }
    }
}

/// `deduplicate_namespaces` at `path`: tree in, tree out + C15 oracle.
pub fn run_dedup(sink: &mut Sink, t: &GTree, path: &[usize]) {
    let (mut xot, mut vocab) = fresh();
    let root = match build(&mut xot, &vocab, t, true) {
        Ok(n) => n,
        Err(_) => {
            sink.stat("build.refused");
            return;
        }
    };
    let nodes = nodes_in_order(&xot, root);
    let paths = t.paths();
    let idx = paths.iter().position(|p| p.as_slice() == path).expect("path exists");
    let node = nodes[idx];
    let before_str = guarded(|| xot.to_string(root));
    let before_node_str = guarded(|| xot.to_string(node));
    let done = guarded(|| xot.deduplicate_namespaces(node));
    sink.stat("op.dedup");
    let req = format!("scope dedup {} {}", path_str(path), t.wire());
    if done.is_none() {
        sink.stat("resp.panic");
        sink.emit(req, "panic".to_string());
        oracle::fail(sink, "C15", "C15:dedup-panics", "deduplicate_namespaces panicked", t, path, "dedup");
        return;
    }
    let after = read_tree(&xot, &mut vocab, root);
    sink.stat(if &after == t { "dedup.unchanged" } else { "dedup.removed-something" });
    sink.emit(req, format!("ok {}", after.wire()));
    oracle::check_dedup(sink, &mut xot, &mut vocab, t, path, root, node, &after, before_str, before_node_str);
}

// ---------------------------------------------------------------------------------------------
// Layout grammar

/// Declarations of one element, given the bindings in scope above it.
pub fn gen_decls(rng: &mut Rng, scope: &BTreeMap<usize, usize>, sink: &mut Sink) -> Vec<(usize, usize)> {
    let n = match rng.below(20) {
        0..=5 => 0,
        6..=12 => 1,
        13..=17 => 2,
        _ => 3,
    };
    let mut out: Vec<(usize, usize)> = vec![];
    for _ in 0..n {
        let bound: Vec<(usize, usize)> = scope.iter().filter(|(p, _)| **p != 1).map(|(p, n)| (*p, *n)).collect();
        let unbound: Vec<usize> = PFX.iter().copied().filter(|p| !scope.contains_key(p)).collect();
        let (kind, d) = match rng.below(12) {
            0..=2 if !unbound.is_empty() => ("declare", (*rng.pick(&unbound), *rng.pick(&NSS))),
            3..=4 if !bound.is_empty() => ("redeclare", *rng.pick(&bound)),
            5..=7 if !bound.is_empty() => {
                let (p, ns) = *rng.pick(&bound);
                let other: Vec<usize> = NSS.iter().copied().filter(|n| *n != ns).collect();
                ("shadow", (p, *rng.pick(&other)))
            }
            8..=9 if !bound.is_empty() => {
                let (p0, ns) = *rng.pick(&bound);
                let others: Vec<usize> = PFX.iter().copied().filter(|p| *p != p0).collect();
                ("alias", (*rng.pick(&others), ns))
            }
            10 => ("undeclare", (0, 0)),
            _ => ("any", (*rng.pick(&PFX), *rng.pick(&NSS))),
        };
        if out.iter().any(|(p, _)| *p == d.0) {
            continue;
        }
        sink.stat(&format!("event.{}", kind));
        out.push(d);
    }
    // rare: declarations no parser would produce (API only)
    if rng.chance(1, 60) {
        let d = if rng.chance(1, 2) { (*rng.pick(&[2usize, 3, 4]), 0) } else { (1, *rng.pick(&NSS)) };
        if !out.iter().any(|(p, _)| *p == d.0) {
            sink.stat(if d.1 == 0 { "event.odd-prefix-to-empty-uri" } else { "event.odd-xml-redeclared" });
            out.push(d);
        }
    }
    out
}

fn apply(scope: &BTreeMap<usize, usize>, decls: &[(usize, usize)]) -> BTreeMap<usize, usize> {
    let mut s = scope.clone();
    for (p, n) in decls {
        if *p == 0 && *n == 0 {
            s.remove(p);
        } else {
            s.insert(*p, *n);
        }
    }
    s
}

fn ns_elem_name(rng: &mut Rng, ns: usize) -> usize {
    match ns {
        0 => *rng.pick(&[2usize, 3, 4, 5]),
        n => 6 + 3 * (n - NS_A) + rng.below(3),
    }
}

/// `tidy`: only names that can be written in this scope (so that `to_string` succeeds and the
/// text means the tree: the serialisation half of C15 needs such layouts).
fn elem_name(rng: &mut Rng, scope: &BTreeMap<usize, usize>, tidy: bool) -> usize {
    // an element whose own name is in the XML namespace (xml:space, xml:id, xml:lang as ELEMENT
    // names): always writable with the reserved prefix, never unresolved (seed C09d)
    if rng.chance(1, 12) {
        return *rng.pick(&[0usize, 1, 15]);
    }
    let bound: Vec<usize> = scope.values().copied().filter(|n| NSS.contains(n)).collect();
    if tidy {
        let mut ok = bound.clone();
        if !scope.contains_key(&0) {
            ok.push(0);
        }
        if ok.is_empty() {
            // default namespace bound to something odd and nothing else: fall back
            return ns_elem_name(rng, 0);
        }
        let ns = *rng.pick(&ok);
        return ns_elem_name(rng, ns);
    }
    let ns = if !bound.is_empty() && rng.chance(3, 5) { *rng.pick(&bound) } else { *rng.pick(&[0, 0, NS_A, NS_B, NS_C]) };
    ns_elem_name(rng, ns)
}

fn attr_name(rng: &mut Rng, scope: &BTreeMap<usize, usize>, tidy: bool) -> usize {
    let ns_name = |rng: &mut Rng, n: usize| 6 + 3 * (n - NS_A) + *rng.pick(&[0usize, 2]);
    let prefixed: Vec<usize> = scope.iter().filter(|(p, n)| **p != 0 && NSS.contains(n)).map(|(_, n)| *n).collect();
    if tidy {
        return match rng.below(10) {
            0..=2 => *rng.pick(&[16usize, 17]),
            3 => *rng.pick(&[0usize, 15]),
            _ => {
                // prefer an attribute whose namespace is also the default namespace
                let dflt: Vec<usize> = prefixed.iter().copied().filter(|n| scope.get(&0) == Some(n)).collect();
                if !dflt.is_empty() && rng.chance(1, 2) {
                    let n = *rng.pick(&dflt);
                    ns_name(rng, n)
                } else if !prefixed.is_empty() {
                    let n = *rng.pick(&prefixed);
                    ns_name(rng, n)
                } else {
                    16
                }
            }
        };
    }
    match rng.below(10) {
        0..=2 => *rng.pick(&[16usize, 17]),
        3..=5 => match scope.get(&0) {
            // an attribute whose namespace is also the default namespace
            Some(n) if NSS.contains(n) => ns_name(rng, *n),
            _ => *rng.pick(&[16usize, 17]),
        },
        6..=7 => {
            let bound: Vec<usize> = scope.values().copied().filter(|n| NSS.contains(n)).collect();
            if bound.is_empty() { 16 } else { let n = *rng.pick(&bound); ns_name(rng, n) }
        }
        8 => *rng.pick(&[0usize, 15]),
        _ => { let n = *rng.pick(&NSS); ns_name(rng, n) }
    }
}

pub fn gen_layout_element(rng: &mut Rng, scope: &BTreeMap<usize, usize>, depth: usize, max_depth: usize, budget: &mut usize, tidy: bool, sink: &mut Sink) -> GTree {
    let decls = gen_decls(rng, scope, sink);
    let inner = apply(scope, &decls);
    let mut kids: Vec<GTree> = decls.iter().map(|(p, n)| GTree::leaf(GValue::Namespace(*p, *n))).collect();
    let name = elem_name(rng, &inner, tidy);
    let mut seen = vec![];
    for _ in 0..*rng.pick(&[0usize, 0, 1, 1, 2]) {
        let a = attr_name(rng, &inner, tidy);
        if seen.contains(&a) {
            continue;
        }
        seen.push(a);
        kids.push(GTree::leaf(GValue::Attribute(a, "v".to_string())));
    }
    if depth < max_depth {
        let n = *rng.pick(&[0usize, 1, 1, 1, 2, 2, 3]);
        let mut last_text = false;
        for _ in 0..n {
            if *budget == 0 {
                break;
            }
            *budget -= 1;
            match rng.below(10) {
                0..=6 => {
                    kids.push(gen_layout_element(rng, &inner, depth + 1, max_depth, budget, tidy, sink));
                    last_text = false;
                }
                7 => {
                    if !last_text {
                        kids.push(GTree::leaf(GValue::Text("t".to_string())));
                        last_text = true;
                    }
                }
                8 => {
                    kids.push(GTree::leaf(GValue::Comment("c".to_string())));
                    last_text = false;
                }
                _ => {
                    kids.push(GTree::leaf(GValue::PI(18, Some("d".to_string()))));
                    last_text = false;
                }
            }
        }
    }
    GTree::new(GValue::Element(name), kids)
}

/// A layout: a document around one element, a fragment, or an unattached element subtree.
pub fn gen_layout(rng: &mut Rng, sink: &mut Sink) -> GTree {
    let max_depth = 2 + rng.below(4);
    let mut budget = 4 + rng.below(8);
    let base: BTreeMap<usize, usize> = [(1usize, 1usize)].into_iter().collect();
    let tidy = rng.chance(3, 5);
    sink.stat(if tidy { "layout.tidy-names" } else { "layout.free-names" });
    match rng.below(10) {
        0..=5 => {
            sink.stat("root.document");
            let e = gen_layout_element(rng, &base, 1, max_depth, &mut budget, tidy, sink);
            GTree::new(GValue::Document, vec![e])
        }
        6..=7 => {
            sink.stat("root.unattached-element");
            gen_layout_element(rng, &base, 1, max_depth, &mut budget, tidy, sink)
        }
        8 => {
            sink.stat("root.fragment");
            let mut kids = vec![];
            for _ in 0..1 + rng.below(3) {
                kids.push(gen_layout_element(rng, &base, 1, max_depth.min(3), &mut budget, tidy, sink));
            }
            GTree::new(GValue::Document, kids)
        }
        _ => {
            sink.stat("root.unattached-leaf");
            match rng.below(3) {
                0 => GTree::leaf(GValue::Attribute(8, "v".to_string())),
                1 => GTree::leaf(GValue::Namespace(2, NS_A)),
                _ => GTree::leaf(GValue::Text("t".to_string())),
            }
        }
    }
}

fn e(name: usize, decls: &[(usize, usize)], attrs: &[usize], kids: Vec<GTree>) -> GTree {
    let mut k: Vec<GTree> = decls.iter().map(|(p, n)| GTree::leaf(GValue::Namespace(*p, *n))).collect();
    k.extend(attrs.iter().map(|a| GTree::leaf(GValue::Attribute(*a, "v".to_string()))));
    k.extend(kids);
    GTree::new(GValue::Element(name), k)
}
fn doc(el: GTree) -> GTree {
    GTree::new(GValue::Document, vec![el])
}

/// Fixed layouts: the shapes named in DESIGN.md section 8 rows 12 and 17 and in the properties.
pub fn corpus() -> Vec<GTree> {
    vec![
        // <a xmlns:p="A" xmlns:q="B"><b xmlns:p="C"/></a>
        doc(e(2, &[(2, NS_A), (3, NS_B)], &[], vec![e(3, &[(2, NS_C)], &[], vec![])])),
        // <a xmlns="A" xmlns:p="A" p:x="v"/>   (attribute whose namespace is also the default one)
        doc(e(6, &[(0, NS_A), (2, NS_A)], &[8], vec![])),
        doc(e(6, &[(2, NS_A), (0, NS_A)], &[8], vec![])),
        doc(e(6, &[(0, NS_A)], &[8], vec![])),
        // <a xmlns:q="A"><b xmlns:p="A" xmlns:q="B"><p:a/></b></a>
        doc(e(2, &[(3, NS_A)], &[], vec![e(3, &[(2, NS_A), (3, NS_B)], &[], vec![e(6, &[], &[], vec![])])])),
        // <r xmlns:q="C" xmlns:p="A"><m xmlns:q="A"><n xmlns:r="C"/></m></r>   (second dedup removes more)
        doc(e(2, &[(3, NS_C), (2, NS_A)], &[], vec![e(3, &[(3, NS_A)], &[], vec![e(4, &[(4, NS_C)], &[], vec![])])])),
        // <r xmlns:p="A"><A:a xmlns="A"><A:b xmlns:q="A" q:x="v"/></A:a></r>   (second dedup removes more, no shadowing)
        doc(e(2, &[(2, NS_A)], &[], vec![e(6, &[(0, NS_A)], &[], vec![e(7, &[(3, NS_A)], &[8], vec![])])])),
        // <a xmlns="A"><b xmlns:p="A"><c xmlns="B"><d p:x="v"/></c></b></a>: the attribute must keep p
        // (tracker: the flag belongs to a, past the other default declared on c)
        doc(e(6, &[(0, NS_A)], &[], vec![e(7, &[(2, NS_A)], &[], vec![e(9, &[(0, NS_B)], &[], vec![e(10, &[], &[8], vec![])])])])),
        // <a xmlns="A"><b xmlns:p="A"><c xmlns="A"><d p:x="v"/></c></b></a>: the flag lands on c's
        // redundant xmlns="A", which is popped before b is judged
        doc(e(6, &[(0, NS_A)], &[], vec![e(7, &[(2, NS_A)], &[], vec![e(6, &[(0, NS_A)], &[], vec![e(7, &[], &[8], vec![])])])])),
        // default namespace declared, undeclared, redeclared
        doc(e(6, &[(0, NS_A)], &[], vec![e(2, &[(0, 0)], &[], vec![e(6, &[(0, NS_A)], &[], vec![e(3, &[], &[], vec![])])])])),
        // no-namespace element under a default namespace
        doc(e(6, &[(0, NS_A)], &[], vec![e(3, &[], &[16], vec![])])),
        // xml:* attribute, unprefixed element
        doc(e(2, &[], &[15, 0], vec![e(3, &[], &[], vec![])])),
        // attribute needs a prefixed binding while the default binding covers the element
        doc(e(6, &[(0, NS_A)], &[], vec![e(7, &[(2, NS_A)], &[8], vec![])])),
        doc(e(6, &[(0, NS_A)], &[], vec![e(7, &[(2, NS_A)], &[], vec![e(7, &[], &[8], vec![])])])),
        // same namespace under several prefixes on one element, redundant below
        doc(e(6, &[(2, NS_A), (3, NS_A)], &[], vec![e(7, &[(4, NS_A), (2, NS_A)], &[], vec![])])),
        // unattached subtree
        e(6, &[(2, NS_A)], &[8], vec![e(9, &[(2, NS_B)], &[], vec![e(6, &[], &[], vec![])])]),
    ]
}

// ---------------------------------------------------------------------------------------------
// Exhaustive small scope

/// Per-level alphabet: ordered lists of at most `max_len` declarations with distinct prefixes.
fn level_alphabet(prefixes: &[usize], nss: &[usize], max_len: usize) -> Vec<Vec<(usize, usize)>> {
    let mut singles = vec![];
    for p in prefixes {
        if *p == 0 {
            singles.push((0, 0));
        }
        for n in nss {
            singles.push((*p, *n));
        }
    }
    let mut out = vec![vec![]];
    for a in &singles {
        out.push(vec![*a]);
    }
    if max_len >= 2 {
        for a in &singles {
            for b in &singles {
                if a.0 != b.0 {
                    out.push(vec![*a, *b]);
                }
            }
        }
    }
    out
}

/// Chain e1 > e2 > … > ek; the deepest element is `{A}a` with attribute `{A}x` (and a `{B}a`
/// sibling chain end when `with_b`), so that scope, name reporting and dedup all have work to do.
fn chain(levels: &[&Vec<(usize, usize)>]) -> GTree {
    let k = levels.len();
    let mut t = e(6, levels[k - 1], &[8], vec![]);
    for i in (0..k - 1).rev() {
        let name = if i % 2 == 0 { 2 } else { 9 };
        t = e(name, levels[i], &[], vec![t]);
    }
    doc(t)
}

fn deepest(levels: usize, decls_at: &[usize]) -> (Vec<usize>, Vec<usize>) {
    // path of the deepest element and of its attribute
    let mut p = vec![0usize];
    for d in decls_at.iter().take(levels - 1) {
        p.push(*d);
    }
    let mut a = p.clone();
    a.push(decls_at[levels - 1]);
    (p, a)
}

pub fn exhaustive(sink: &mut Sink, depth: usize, alphabet: &[Vec<(usize, usize)>]) {
    let mut idx = vec![0usize; depth];
    loop {
        let levels: Vec<&Vec<(usize, usize)>> = idx.iter().map(|i| &alphabet[*i]).collect();
        let t = chain(&levels);
        let lens: Vec<usize> = levels.iter().map(|l| l.len()).collect();
        let (pe, pa) = deepest(depth, &lens);
        sink.stat(&format!("exhaustive.depth{}", depth));
        run_queries(sink, &t, Some(&[pe.clone()]), &["in_scope", "nfp", "defined", "pfn", "node"]);
        run_queries(sink, &t, Some(&[pa]), &["node"]);
        if depth >= 2 {
            run_queries(sink, &t, Some(&[pe[..pe.len() - 1].to_vec()]), &["inherited", "unresolved"]);
        }
        run_dedup(sink, &t, &[]);
        let mut i = depth;
        loop {
            if i == 0 {
                return;
            }
            i -= 1;
            if idx[i] + 1 < alphabet.len() {
                idx[i] += 1;
                for j in idx.iter_mut().skip(i + 1) {
                    *j = 0;
                }
                break;
            }
        }
    }
}

pub fn run(seed: u64, count: usize, tier: &str, sink: &mut Sink) {
    let mut rng = Rng::new(seed ^ 0x5C09E);
    {
        let (_xot, vocab) = fresh();
        sink.emit(vocab.wire(), "ok".to_string());
    }
    for t in corpus() {
        sink.stat("layout.corpus");
        run_queries(sink, &t, None, QUERY_OPS);
        run_dedup(sink, &t, &[]);
        if t.kids.len() == 1 && matches!(t.v, GValue::Document) {
            run_dedup(sink, &t, &[0]);
        }
    }
    for t in crate::scope_names::corpus() {
        sink.stat("layout.corpus-names");
        run_queries(sink, &t, None, QUERY_OPS);
    }
    if tier == "thorough" {
        let full = level_alphabet(&[0, 2, 3], &NSS, 2);
        exhaustive(sink, 1, &full);
        exhaustive(sink, 2, &full);
        let small = level_alphabet(&[0, 2, 3], &[NS_A, NS_B], 2);
        exhaustive(sink, 3, &small);
        let tiny = level_alphabet(&[0, 2, 3], &NSS, 1);
        exhaustive(sink, 4, &tiny);
    }
    for _ in 0..count {
        let t = gen_layout(&mut rng, sink);
        sink.stat("layout.random");
        sink.stat(&format!("layout.nodes.{}", match t.size() { 0..=3 => "1-3", 4..=8 => "4-8", 9..=16 => "9-16", _ => "17+" }));
        run_queries(sink, &t, None, QUERY_OPS);
        // dedup on the root and on one inner element
        run_dedup(sink, &t, &[]);
        let elems: Vec<Vec<usize>> = t
            .paths()
            .into_iter()
            .filter(|p| !p.is_empty() && matches!(t.at(p).unwrap().v, GValue::Element(_)))
            .collect();
        if !elems.is_empty() && rng.chance(1, 2) {
            let p = rng.pick(&elems).clone();
            sink.stat("dedup.inner-node");
            run_dedup(sink, &t, &p);
        }
    }
    // directed layouts for the qualified-name rules (scope_names.rs); a stream of their own, so
    // that the random layouts above do not depend on them
    let mut rng = Rng::new(seed ^ 0xC09_F1);
    for i in 0..count / 3 {
        let t = if i % 2 == 0 { crate::scope_names::gen_attr_shape(&mut rng) } else { crate::scope_names::gen_elem_shape(&mut rng) };
        sink.stat(if i % 2 == 0 { "layout.directed.attribute" } else { "layout.directed.no-namespace-element" });
        run_queries(sink, &t, None, QUERY_OPS);
    }
}
