//! EXTENDED construction programs (C20, `lean/XotModel/Model/FanyorderSpec2.lean`), used by suite
//! `ffixed`: one abstract document is built by a random program that also MOVES things on the way.
//! Besides the plain steps of `suite_fanyorder.rs` a program takes these detours (each leaves exactly
//! the target tree in the end; statistics `program.<detour>`):
//!   1. helper wrapper: a helper element holds a consecutive run of a parent's children for a while
//!      (created by `new` and attached at the run's position, or by `wrap` of a child that is in
//!      place already), later `unwrap`; also the childless helper that just disappears;
//!   2. placeholder: a comment / PI / element / (where it cannot meet a text node) text node keeps a
//!      child's position, later `replace placeholder real`, the real child being parentless or
//!      attached somewhere else, fully or partially built;
//!   3. late values: `set_text`, `set_name`, `set_comment`, `set_pi_data`, `attr_set_value` of a node
//!      created with a dummy value, before or after it is attached;
//!   4. detach and re-attach: a child is first attached under a scratch element or at a wrong position
//!      of its parent, then `detach`ed and attached at its place, or moved there directly;
//!   5. wrap: an element is created around one of its children by `wrap`, the child being parentless
//!      or standing at the element's own final position; its declarations, attributes and other
//!      children come afterwards;
//!   6. clone: a subtree (or only an element's head with its declarations and attributes) is built
//!      as a template, possibly under a scratch element, `clone`d, the copy is used and the template
//!      `remove`d; the whole document may be delivered as the clone of a template document.
//! Helper nodes (scratch elements, templates, placeholders, wrappers) are all gone at the end.
//!
//! Text consolidation: a program never lets two text nodes become adjacent (they would merge for
//! good and one name would disappear).  The generator keeps a SHADOW of the trees it has created
//! (`SNode`: parent, normal children in order, kind) and asks it before every move: a node only
//! leaves a position whose two neighbours are not both text, a text node only lands between
//! non-text neighbours, a wrapper is only dissolved when that joins no two text nodes.
//!
//! Every step is an ordinary `forest` request (replayed by the implementation model).  The whole
//! program is moreover sent as `forest prog2 spec …` / `forest prog2 impl …`, placed BEFORE its first
//! step: the specification's and the model interpreter's run from the state before the program,
//! compared with the content of the real forest after the program.
use crate::common::{enc, Rng, Sink};
use crate::suite_forest::Session;
use crate::suite_fspec::erase_labels;
use crate::tree::*;

#[derive(Clone, Copy, PartialEq, Debug)]
enum Kind {
    Doc,
    Elem,
    Text,
    /// comment or processing instruction
    Misc,
    /// attribute or namespace node
    Entry,
}

fn kind_of(v: &GValue) -> Kind {
    match v {
        GValue::Document => Kind::Doc,
        GValue::Element(_) => Kind::Elem,
        GValue::Text(_) => Kind::Text,
        GValue::Comment(_) | GValue::PI(..) => Kind::Misc,
        GValue::Attribute(..) | GValue::Namespace(..) => Kind::Entry,
    }
}

/// Shadow of one node the program created; its index in `B::nodes` is its CREATE INDEX.
struct SNode {
    label: usize,
    kind: Kind,
    parent: Option<usize>,
    /// normal children, in order
    kids: Vec<usize>,
    alive: bool,
    /// a template that has been cloned: to be removed
    trash: bool,
    /// a scratch element: to be removed once it holds nothing of value
    scratch: bool,
    /// the root of a copy: it may have children the shadow does not know
    opaque: bool,
}

#[derive(Clone, Copy, Debug)]
enum Dest {
    Append(usize),
    AnyAppend(usize),
    Prepend(usize),
    After(usize),
    Before(usize),
}

/// Something that is still to be done to a node that exists already.
enum Deferred {
    SetText(usize, String),
    SetName(usize, usize),
    SetComment(usize, String),
    SetPi(usize, Option<String>),
    AttrValue { attr: usize, owner: usize, value: String },
    /// the namespace declarations of `e` that are still missing, in order
    Ns { e: usize, rest: Vec<(usize, usize)> },
    /// the attributes of `e` that are still missing, in order
    Attrs { e: usize, rest: Vec<(usize, String)> },
}

impl Deferred {
    fn anchor(&self) -> usize {
        match self {
            Deferred::SetText(n, _) | Deferred::SetName(n, _) | Deferred::SetComment(n, _) | Deferred::SetPi(n, _) => *n,
            Deferred::AttrValue { owner, .. } => *owner,
            Deferred::Ns { e, .. } | Deferred::Attrs { e, .. } => *e,
        }
    }
}

const HELPER_NAMES: [usize; 8] = [2, 3, 4, 5, 6, 9, 12, 16];

fn normal_kids(t: &GTree) -> Vec<&GTree> {
    t.kids.iter().filter(|k| k.is_normal()).collect()
}

fn is_text_tree(t: &GTree) -> bool {
    matches!(t.v, GValue::Text(_))
}

/// The state of one child list under construction.
struct LS<'t> {
    p: usize,
    kids: Vec<&'t GTree>,
    /// the real node of the slot (its head exists)
    node: Vec<Option<usize>>,
    /// its content is complete
    filled: Vec<bool>,
    /// it stands at its position
    at_place: Vec<bool>,
    /// the placeholder that stands at the position
    ph: Vec<Option<usize>>,
    /// element created by `wrap` around its child number `.0` (node `.1`)
    pre: Vec<Option<(usize, usize)>>,
    want_ph: Vec<bool>,
    /// the element is to be created by `wrap` around a child standing at the element's position
    want_wrap: Vec<bool>,
    /// 0: no, 1: under a scratch element, 2: at a wrong position of the parent
    want_stray: Vec<u8>,
    /// the active helper wrapper and its run [lo, hi)
    wrapper: Option<(usize, usize, usize)>,
    wrappers_left: usize,
    text_ph_ok: bool,
}

impl<'t> LS<'t> {
    fn occupant(&self, j: usize) -> Option<usize> {
        match self.ph[j] {
            Some(x) => Some(x),
            None => if self.at_place[j] { self.node[j] } else { None },
        }
    }
    fn in_run(&self, j: usize) -> bool {
        self.wrapper.map_or(false, |(_, lo, hi)| lo <= j && j < hi)
    }
    /// The container of a slot (`None`: of the wrapper itself) and its keyed items, in order.
    fn row(&self, slot: Option<usize>) -> (usize, Vec<(usize, usize)>) {
        let inside = slot.map_or(false, |i| self.in_run(i));
        let mut items = vec![];
        for j in 0..self.kids.len() {
            if self.in_run(j) == inside {
                if let Some(o) = self.occupant(j) {
                    items.push((2 * j + 1, o));
                }
            }
        }
        if !inside {
            if let Some((w, lo, _)) = self.wrapper {
                items.push((2 * lo, w));
            }
        }
        items.sort();
        (if inside { self.wrapper.unwrap().0 } else { self.p }, items)
    }
    fn done(&self) -> bool {
        self.wrapper.is_none() && self.at_place.iter().all(|&x| x) && self.filled.iter().all(|&x| x)
    }
}

#[derive(Clone, Copy, Debug)]
enum Task {
    Create(usize),
    PutPh(usize),
    Stray(usize),
    Place(usize),
    Fill(usize),
    MakeWrapper,
    Unwrap,
}

struct B<'a> {
    s: &'a mut Session,
    sink: &'a mut Sink,
    rng: &'a mut Rng,
    text: Vec<String>,
    nodes: Vec<SNode>,
    cons: bool,
    failed: bool,
    /// detours still allowed (keeps programs moderate)
    budget: usize,
    pending: Vec<Deferred>,
    check: bool,
}

impl<'a> B<'a> {
    // -----------------------------------------------------------------------------------------
    // steps

    fn lab(&self, i: usize) -> usize {
        self.nodes[i].label
    }

    /// Execute the request (on labels), record the step (on create indices).
    fn step(&mut self, req: String, stp: String) -> String {
        if self.failed {
            return String::new();
        }
        let r = self.s.exec(self.sink, &req);
        self.text.push(stp);
        if !r.starts_with("ok") {
            self.failed = true;
            self.sink.stat("program.refused");
        }
        r
    }

    /// A node-creating step: the response carries the label.
    fn create(&mut self, req: String, stp: String, kind: Kind) -> usize {
        let r = self.step(req, stp);
        let mut label = 0;
        if !self.failed {
            match r.strip_prefix("ok ").and_then(|x| x.parse::<usize>().ok()) {
                Some(l) => label = l,
                None => {
                    self.failed = true;
                    self.sink.stat("program.refused");
                }
            }
        }
        self.nodes.push(SNode { label, kind, parent: None, kids: vec![], alive: true, trash: false, scratch: false, opaque: false });
        self.nodes.len() - 1
    }

    fn new_leaf(&mut self, v: &GValue) -> usize {
        let w = GTree::leaf(v.clone()).wire();
        self.create(format!("new {}", w), format!("new {}", w), kind_of(v))
    }

    fn detour(&mut self) -> bool {
        if self.budget == 0 {
            return false;
        }
        if self.rng.chance(2, 5) {
            self.budget -= 1;
            true
        } else {
            false
        }
    }

    fn helper_name(&mut self, avoid: Option<usize>) -> usize {
        loop {
            let n = *self.rng.pick(&HELPER_NAMES);
            if Some(n) != avoid {
                return n;
            }
        }
    }

    // -----------------------------------------------------------------------------------------
    // the shadow

    fn is_text(&self, i: Option<usize>) -> bool {
        i.map_or(false, |i| self.nodes[i].kind == Kind::Text)
    }

    fn neighbours(&self, n: usize) -> (Option<usize>, Option<usize>) {
        match self.nodes[n].parent {
            None => (None, None),
            Some(p) => {
                let ks = &self.nodes[p].kids;
                let i = ks.iter().position(|&k| k == n).unwrap();
                (if i > 0 { Some(ks[i - 1]) } else { None }, ks.get(i + 1).copied())
            }
        }
    }

    /// Taking `n` away from where it is joins no two text nodes.
    fn leave_safe(&self, n: usize) -> bool {
        if !self.cons {
            return true;
        }
        let (a, b) = self.neighbours(n);
        !(self.is_text(a) && self.is_text(b))
    }

    /// Where a node lands: parent, the parent's children without the moving node, position in them.
    fn landing(&self, moving: Option<usize>, d: Dest) -> Option<(usize, Vec<usize>, usize)> {
        let p = match d {
            Dest::Append(p) | Dest::AnyAppend(p) | Dest::Prepend(p) => p,
            Dest::After(r) | Dest::Before(r) => self.nodes[r].parent?,
        };
        let kids: Vec<usize> = self.nodes[p].kids.iter().copied().filter(|&k| Some(k) != moving).collect();
        let pos = match d {
            Dest::Append(_) | Dest::AnyAppend(_) => kids.len(),
            Dest::Prepend(_) => 0,
            Dest::After(r) => kids.iter().position(|&k| k == r)? + 1,
            Dest::Before(r) => kids.iter().position(|&k| k == r)?,
        };
        Some((p, kids, pos))
    }

    /// A node of this kind may land there (a text node only between non-text neighbours).
    fn can_land(&self, kind: Kind, moving: Option<usize>, d: Dest) -> bool {
        let (_, kids, pos) = match self.landing(moving, d) {
            Some(x) => x,
            None => return false,
        };
        if !self.cons || kind != Kind::Text {
            return true;
        }
        !(pos > 0 && self.nodes[kids[pos - 1]].kind == Kind::Text) && !(pos < kids.len() && self.nodes[kids[pos]].kind == Kind::Text)
    }

    fn can_move(&self, n: usize, d: Dest) -> bool {
        self.leave_safe(n) && self.can_land(self.nodes[n].kind, Some(n), d)
    }

    fn sh_unlink(&mut self, n: usize) {
        if let Some(p) = self.nodes[n].parent {
            self.nodes[p].kids.retain(|&k| k != n);
        }
        self.nodes[n].parent = None;
    }

    fn sh_kill(&mut self, n: usize) {
        self.nodes[n].alive = false;
        for k in self.nodes[n].kids.clone() {
            self.sh_kill(k);
        }
    }

    fn descendants(&self, n: usize, out: &mut Vec<usize>) {
        out.push(n);
        for &k in &self.nodes[n].kids {
            self.descendants(k, out);
        }
    }

    /// Optional self-check (environment variable XOT_PROG2_CHECK): the shadow agrees with the real store.
    fn verify(&mut self, after: &str) {
        if !self.check || self.failed {
            return;
        }
        for i in 0..self.nodes.len() {
            let n = &self.nodes[i];
            if n.kind == Kind::Entry {
                continue;
            }
            let real = self.s.nodes[n.label];
            let removed = self.s.xot.is_removed(real);
            assert_eq!(removed, !n.alive, "shadow liveness of #{} after {}", i, after);
            if !n.alive {
                continue;
            }
            let rp = self.s.xot.parent(real).map(|p| self.s.label[&p]);
            assert_eq!(rp, n.parent.map(|p| self.nodes[p].label), "shadow parent of #{} after {}", i, after);
            if !n.opaque {
                let rk: Vec<usize> = self.s.xot.children(real).map(|c| self.s.label[&c]).collect();
                let sk: Vec<usize> = n.kids.iter().map(|&k| self.nodes[k].label).collect();
                assert_eq!(rk, sk, "shadow children of #{} after {}", i, after);
            }
        }
    }

    // -----------------------------------------------------------------------------------------
    // primitive calls (request + shadow)

    fn do_move(&mut self, n: usize, d: Dest) {
        if self.failed {
            return;
        }
        let (p, _, pos) = match self.landing(Some(n), d) {
            Some(x) => x,
            None => {
                self.failed = true;
                self.sink.stat("program.stuck.no-landing");
                return;
            }
        };
        let (op, a) = match d {
            Dest::Append(p) => ("append", p),
            Dest::AnyAppend(p) => ("any_append", p),
            Dest::Prepend(p) => ("prepend", p),
            Dest::After(r) => ("insert_after", r),
            Dest::Before(r) => ("insert_before", r),
        };
        self.step(format!("{} {} {}", op, self.lab(a), self.lab(n)), format!("{} {} {}", op, a, n));
        self.sink.stat(&format!("program.attach.{}", op));
        self.sh_unlink(n);
        self.nodes[p].kids.insert(pos, n);
        self.nodes[n].parent = Some(p);
        self.verify(op);
    }

    fn detach(&mut self, n: usize) {
        if self.failed {
            return;
        }
        self.step(format!("detach {}", self.lab(n)), format!("detach {}", n));
        self.sh_unlink(n);
        self.verify("detach");
    }

    fn remove(&mut self, n: usize) {
        if self.failed {
            return;
        }
        self.step(format!("remove {}", self.lab(n)), format!("remove {}", n));
        self.sink.stat("program.remove");
        self.sh_unlink(n);
        self.sh_kill(n);
        self.verify("remove");
    }

    fn can_replace(&self, old: usize, new: usize) -> bool {
        if !self.leave_safe(new) {
            return false;
        }
        if !self.cons || self.nodes[new].kind != Kind::Text {
            return true;
        }
        let p = match self.nodes[old].parent {
            Some(p) => p,
            None => return false,
        };
        let kids: Vec<usize> = self.nodes[p].kids.iter().copied().filter(|&k| k != new).collect();
        let i = kids.iter().position(|&k| k == old).unwrap();
        !(i > 0 && self.nodes[kids[i - 1]].kind == Kind::Text) && !(i + 1 < kids.len() && self.nodes[kids[i + 1]].kind == Kind::Text)
    }

    fn replace(&mut self, old: usize, new: usize) {
        if self.failed {
            return;
        }
        self.step(format!("replace {} {}", self.lab(old), self.lab(new)), format!("replace {} {}", old, new));
        self.sh_unlink(new);
        let p = self.nodes[old].parent.unwrap();
        let i = self.nodes[p].kids.iter().position(|&k| k == old).unwrap();
        self.nodes[p].kids[i] = new;
        self.nodes[new].parent = Some(p);
        self.nodes[old].parent = None;
        self.sh_kill(old);
        self.verify("replace");
    }

    fn wrap(&mut self, n: usize, name: usize) -> usize {
        let w = self.create(format!("wrap {} {}", self.lab(n), name), format!("wrap {} {}", n, name), Kind::Elem);
        if let Some(p) = self.nodes[n].parent {
            let i = self.nodes[p].kids.iter().position(|&k| k == n).unwrap();
            self.nodes[p].kids[i] = w;
            self.nodes[w].parent = Some(p);
        }
        self.nodes[n].parent = Some(w);
        self.nodes[w].kids = vec![n];
        self.verify("wrap");
        w
    }

    fn can_unwrap(&self, w: usize) -> bool {
        if !self.cons {
            return true;
        }
        let (a, b) = self.neighbours(w);
        let ks = &self.nodes[w].kids;
        if ks.is_empty() {
            return !(self.is_text(a) && self.is_text(b));
        }
        !(self.is_text(a) && self.is_text(ks.first().copied())) && !(self.is_text(ks.last().copied()) && self.is_text(b))
    }

    fn unwrap(&mut self, w: usize) {
        if self.failed {
            return;
        }
        self.step(format!("unwrap {}", self.lab(w)), format!("unwrap {}", w));
        self.sink.stat("program.unwrap");
        let ks = std::mem::take(&mut self.nodes[w].kids);
        if let Some(p) = self.nodes[w].parent {
            let i = self.nodes[p].kids.iter().position(|&k| k == w).unwrap();
            self.nodes[p].kids.splice(i..i + 1, ks.iter().copied());
            for &k in &ks {
                self.nodes[k].parent = Some(p);
            }
        }
        self.nodes[w].parent = None;
        self.nodes[w].alive = false;
        self.verify("unwrap");
    }

    fn clone_node(&mut self, n: usize) -> usize {
        let kind = self.nodes[n].kind;
        let c = self.create(format!("clone {}", self.lab(n)), format!("clone {}", n), kind);
        self.nodes[c].opaque = !self.nodes[n].kids.is_empty() || self.nodes[n].opaque;
        self.verify("clone");
        c
    }

    // -----------------------------------------------------------------------------------------
    // late values, declarations and attributes

    fn exec_pending(&mut self, k: usize) {
        if self.failed {
            return;
        }
        let d = self.pending.swap_remove(k);
        match d {
            Deferred::SetText(n, x) => {
                self.step(format!("set_text {} {}", self.lab(n), enc(&x)), format!("set_text {} {}", n, enc(&x)));
            }
            Deferred::SetName(n, name) => {
                self.step(format!("set_name {} {}", self.lab(n), name), format!("set_name {} {}", n, name));
            }
            Deferred::SetComment(n, x) => {
                self.step(format!("set_comment {} {}", self.lab(n), enc(&x)), format!("set_comment {} {}", n, enc(&x)));
            }
            Deferred::SetPi(n, x) => {
                let w = x.as_ref().map_or("-".to_string(), |x| enc(x));
                self.step(format!("set_pi_data {} {}", self.lab(n), w), format!("set_pi_data {} {}", n, w));
            }
            Deferred::AttrValue { attr, value, .. } => {
                self.step(format!("attr_set_value {} {}", self.lab(attr), enc(&value)), format!("attr_set_value {} {}", attr, enc(&value)));
            }
            Deferred::Ns { e, mut rest } => {
                let (p, n) = rest.remove(0);
                if !rest.is_empty() {
                    self.pending.push(Deferred::Ns { e, rest });
                }
                if self.rng.chance(1, 2) {
                    self.step(format!("map_insert ns {} {} {}", self.lab(e), p, n), format!("set_ns {} {} {}", e, p, n));
                } else {
                    let a = self.new_leaf(&GValue::Namespace(p, n));
                    self.step(format!("any_append {} {}", self.lab(e), self.lab(a)), format!("any_append {} {}", e, a));
                }
                self.sink.stat(if self.nodes[e].kids.is_empty() { "program.entry.before-children" } else { "program.entry.after-children" });
            }
            Deferred::Attrs { e, mut rest } => {
                let (n, v) = rest.remove(0);
                if !rest.is_empty() {
                    self.pending.push(Deferred::Attrs { e, rest });
                }
                match self.rng.below(3) {
                    0 => {
                        self.step(format!("map_insert attr {} {} {}", self.lab(e), n, enc(&v)), format!("set_attr {} {} {}", e, n, enc(&v)));
                    }
                    1 => {
                        let a = self.new_leaf(&GValue::Attribute(n, v.clone()));
                        self.step(format!("any_append {} {}", self.lab(e), self.lab(a)), format!("any_append {} {}", e, a));
                    }
                    _ => {
                        let dummy = if self.rng.chance(1, 2) { String::new() } else { format!("{}?", v) };
                        let a = self.new_leaf(&GValue::Attribute(n, dummy));
                        self.step(format!("any_append {} {}", self.lab(e), self.lab(a)), format!("any_append {} {}", e, a));
                        self.pending.push(Deferred::AttrValue { attr: a, owner: e, value: v });
                        self.sink.stat("program.late.attr_set_value");
                    }
                }
                self.sink.stat(if self.nodes[e].kids.is_empty() { "program.entry.before-children" } else { "program.entry.after-children" });
            }
        }
    }

    fn flush_where(&mut self, set: Option<&[usize]>) {
        loop {
            if self.failed {
                return;
            }
            let k = self.pending.iter().position(|d| set.map_or(true, |s| s.contains(&d.anchor())));
            match k {
                Some(k) => self.exec_pending(k),
                None => return,
            }
        }
    }

    /// Everything that is still to be done inside the subtree `n` (a template about to be cloned).
    fn flush_subtree(&mut self, n: usize) {
        let mut set = vec![];
        self.descendants(n, &mut set);
        self.flush_where(Some(&set));
    }

    fn push_entries(&mut self, e: usize, t: &GTree) {
        let mut ns = vec![];
        let mut attrs = vec![];
        for k in &t.kids {
            match &k.v {
                GValue::Namespace(p, n) => ns.push((*p, *n)),
                GValue::Attribute(n, v) => attrs.push((*n, v.clone())),
                _ => {}
            }
        }
        if !ns.is_empty() {
            self.pending.push(Deferred::Ns { e, rest: ns });
        }
        if !attrs.is_empty() {
            self.pending.push(Deferred::Attrs { e, rest: attrs });
        }
        if self.rng.chance(1, 3) {
            self.flush_where(Some(&[e]));
        }
    }

    /// Create the node of `t` without its content, possibly with a dummy value that is set right later.
    fn make_head(&mut self, t: &GTree) -> usize {
        let late = self.rng.chance(1, 3);
        let idx = match &t.v {
            GValue::Element(n) if late => {
                let wrong = self.helper_name(Some(*n));
                let i = self.new_leaf(&GValue::Element(wrong));
                self.pending.push(Deferred::SetName(i, *n));
                self.sink.stat("program.late.set_name");
                i
            }
            GValue::Text(x) if late => {
                let dummy = match self.rng.below(3) {
                    0 => String::new(),
                    1 => "?".to_string(),
                    _ => format!("{}{}", x, x),
                };
                let i = self.new_leaf(&GValue::Text(dummy));
                self.pending.push(Deferred::SetText(i, x.clone()));
                self.sink.stat("program.late.set_text");
                i
            }
            GValue::Comment(x) if late && !x.contains("--") => {
                let dummy = if self.rng.chance(1, 2) { String::new() } else { "dummy".to_string() };
                let i = self.new_leaf(&GValue::Comment(dummy));
                self.pending.push(Deferred::SetComment(i, x.clone()));
                self.sink.stat("program.late.set_comment");
                i
            }
            // xot stores empty data as no data
            GValue::PI(tg, d) if late && d.as_ref().map_or(true, |d| !d.is_empty()) => {
                let dummy = match d {
                    None => Some("dummy".to_string()),
                    Some(_) => if self.rng.chance(1, 2) { None } else { Some("dummy data".to_string()) },
                };
                let i = self.new_leaf(&GValue::PI(*tg, dummy));
                self.pending.push(Deferred::SetPi(i, d.clone()));
                self.sink.stat("program.late.set_pi_data");
                i
            }
            v => self.new_leaf(v),
        };
        if matches!(t.v, GValue::Element(_)) {
            self.push_entries(idx, t);
        }
        idx
    }

    /// `wrap` creates the element `t` around its child `kn`.
    fn wrap_elem(&mut self, kn: usize, t: &GTree) -> usize {
        let name = match &t.v {
            GValue::Element(n) => *n,
            _ => unreachable!(),
        };
        let e;
        if self.rng.chance(1, 4) {
            let wrong = self.helper_name(Some(name));
            e = self.wrap(kn, wrong);
            self.pending.push(Deferred::SetName(e, name));
            self.sink.stat("program.late.set_name");
        } else {
            e = self.wrap(kn, name);
        }
        self.push_entries(e, t);
        e
    }

    // -----------------------------------------------------------------------------------------
    // helper nodes

    fn get_scratch(&mut self, kind: Kind) -> usize {
        let reusable: Vec<usize> = (0..self.nodes.len())
            .filter(|&i| {
                let n = &self.nodes[i];
                n.scratch && n.alive && (!self.cons || (kind != Kind::Text && n.kids.iter().all(|&k| self.nodes[k].kind != Kind::Text)))
            })
            .collect();
        if !reusable.is_empty() && self.rng.chance(1, 2) {
            *self.rng.pick(&reusable)
        } else {
            let nm = self.helper_name(None);
            let sc = self.new_leaf(&GValue::Element(nm));
            self.nodes[sc].scratch = true;
            sc
        }
    }

    /// Helper nodes that can go now.
    fn removable(&self) -> Vec<usize> {
        (0..self.nodes.len())
            .filter(|&i| {
                let n = &self.nodes[i];
                n.alive && self.leave_safe(i) && (n.trash || (n.scratch && n.kids.iter().all(|&k| self.nodes[k].trash)))
            })
            .collect()
    }

    /// Now and then: a late value is set, a declaration or attribute is added, a helper node removed.
    fn tick(&mut self) {
        while !self.failed && !self.pending.is_empty() && self.rng.chance(1, 4) {
            let k = self.rng.below(self.pending.len());
            self.exec_pending(k);
        }
        if self.rng.chance(1, 8) {
            let r = self.removable();
            if !r.is_empty() {
                let x = *self.rng.pick(&r);
                self.remove(x);
            }
        }
    }

    // -----------------------------------------------------------------------------------------
    // subtrees

    /// Build `t` completely as a tree of its own (late values may still be pending).
    fn build_complete(&mut self, t: &GTree, lvl: usize) -> usize {
        let kids = normal_kids(t);
        let is_elem = matches!(t.v, GValue::Element(_));
        if lvl < 2 && t.size() <= 12 && self.detour() {
            // template, clone, remove
            let tpl = self.build_complete(t, lvl + 1);
            if self.rng.chance(1, 3) {
                let sc = self.get_scratch(self.nodes[tpl].kind);
                self.do_move(tpl, Dest::Append(sc));
                self.sink.stat("program.clone.template-under-scratch");
            }
            self.flush_subtree(tpl);
            let c = self.clone_node(tpl);
            self.sink.stat("program.clone.complete");
            self.nodes[tpl].trash = true;
            if self.rng.chance(1, 2) && self.leave_safe(tpl) {
                self.remove(tpl);
            }
            return c;
        }
        if is_elem && !kids.is_empty() && self.detour() {
            let k = self.rng.below(kids.len());
            let kn = self.build_complete(kids[k], lvl);
            let e = self.wrap_elem(kn, t);
            self.sink.stat("program.wrap.parentless");
            self.fill_list(e, t, Some((k, kn)), lvl);
            return e;
        }
        let h = self.make_head(t);
        if is_elem {
            self.fill_list(h, t, None, lvl);
        }
        h
    }

    /// The places a node for this key may be attached at, next to its keyed neighbours.
    fn cands(&self, ls: &LS, slot: Option<usize>, key: usize) -> Vec<Dest> {
        let (c, items) = ls.row(slot);
        let left = items.iter().filter(|x| x.0 < key).last().map(|x| x.1);
        let right = items.iter().find(|x| x.0 > key).map(|x| x.1);
        let mut out = vec![];
        if let Some(l) = left {
            out.push(Dest::After(l));
        }
        if let Some(r) = right {
            out.push(Dest::Before(r));
        }
        if right.is_none() {
            out.push(Dest::Append(c));
            out.push(Dest::AnyAppend(c));
        }
        if left.is_none() {
            out.push(Dest::Prepend(c));
        }
        out
    }

    fn stuck(&mut self, what: &str) {
        if !self.failed {
            self.failed = true;
            self.sink.stat(&format!("program.stuck.{}", what));
        }
    }

    /// Build the normal children of `p` (the node of `t`).  `pre`: child number `.0` is there already.
    fn fill_list(&mut self, p: usize, t: &GTree, pre: Option<(usize, usize)>, lvl: usize) {
        let kids = normal_kids(t);
        let n = kids.len();
        if n == 0 {
            // a childless helper element that just disappears
            if self.budget > 0 && self.rng.chance(1, 8) {
                self.budget -= 1;
                let nm = self.helper_name(None);
                let w = self.new_leaf(&GValue::Element(nm));
                self.do_move(w, Dest::Append(p));
                self.tick();
                self.unwrap(w);
                self.sink.stat("program.wrapper.childless");
            }
            return;
        }
        let ntext = kids.iter().filter(|k| is_text_tree(k)).count();
        let inparent = (!self.cons || ntext <= 1) && self.rng.chance(1, 2);
        let mut ls = LS {
            p,
            kids,
            node: vec![None; n],
            filled: vec![false; n],
            at_place: vec![false; n],
            ph: vec![None; n],
            pre: vec![None; n],
            want_ph: vec![false; n],
            want_wrap: vec![false; n],
            want_stray: vec![0; n],
            wrapper: None,
            wrappers_left: 0,
            text_ph_ok: !self.cons || !inparent,
        };
        if let Some((k, kn)) = pre {
            ls.node[k] = Some(kn);
            ls.filled[k] = true;
            ls.at_place[k] = true;
        }
        for i in 0..n {
            if ls.at_place[i] {
                continue;
            }
            if matches!(ls.kids[i].v, GValue::Element(_)) && ls.kids[i].kids.iter().any(|k| k.is_normal()) && self.detour() {
                ls.want_wrap[i] = true;
                continue;
            }
            if self.detour() {
                ls.want_ph[i] = true;
            }
            if self.detour() {
                ls.want_stray[i] = if inparent && self.rng.chance(1, 2) { 2 } else { 1 };
            }
        }
        if self.detour() {
            ls.wrappers_left = if self.rng.chance(1, 4) { 2 } else { 1 };
        }
        let mut rounds = 0;
        loop {
            if self.failed {
                return;
            }
            rounds += 1;
            if rounds > 5000 {
                self.stuck("rounds");
                return;
            }
            self.tick();
            let mut tasks: Vec<Task> = vec![];
            for i in 0..n {
                match ls.node[i] {
                    None => tasks.push(Task::Create(i)),
                    Some(_) => {
                        if !ls.filled[i] {
                            tasks.push(Task::Fill(i));
                        }
                        if !ls.at_place[i] {
                            if ls.want_stray[i] > 0 {
                                tasks.push(Task::Stray(i));
                            } else if !ls.want_ph[i] && self.can_place(&ls, i) {
                                tasks.push(Task::Place(i));
                            }
                        }
                    }
                }
                if ls.want_ph[i] && !ls.at_place[i] {
                    tasks.push(Task::PutPh(i));
                }
            }
            if ls.wrapper.is_none() && ls.wrappers_left > 0 && !tasks.is_empty() {
                tasks.push(Task::MakeWrapper);
            }
            if let Some((w, _, _)) = ls.wrapper {
                if self.can_unwrap(w) {
                    tasks.push(Task::Unwrap);
                }
            }
            if tasks.is_empty() {
                if !ls.done() {
                    self.stuck("no-task");
                }
                return;
            }
            let task = *self.rng.pick(&tasks);
            match task {
                Task::Create(i) => self.task_create(&mut ls, i, lvl),
                Task::PutPh(i) => self.task_placeholder(&mut ls, i),
                Task::Stray(i) => self.task_stray(&mut ls, i),
                Task::Place(i) => self.task_place(&mut ls, i),
                Task::Fill(i) => {
                    let x = ls.node[i].unwrap();
                    self.sink.stat(if ls.at_place[i] { "program.fill.attached" } else { "program.fill.unattached" });
                    self.fill_list(x, ls.kids[i], ls.pre[i], lvl);
                    ls.filled[i] = true;
                }
                Task::MakeWrapper => self.task_wrapper(&mut ls),
                Task::Unwrap => {
                    let (w, lo, hi) = ls.wrapper.unwrap();
                    let complete = (lo..hi).all(|j| ls.at_place[j]);
                    self.sink.stat(if complete { "program.unwrap.run-complete" } else { "program.unwrap.run-incomplete" });
                    self.unwrap(w);
                    ls.wrapper = None;
                }
            }
        }
    }

    fn can_place(&self, ls: &LS, i: usize) -> bool {
        let x = ls.node[i].unwrap();
        match ls.ph[i] {
            Some(ph) => self.can_replace(ph, x),
            None => self.cands(ls, Some(i), 2 * i + 1).into_iter().any(|d| self.can_move(x, d)),
        }
    }

    fn task_create(&mut self, ls: &mut LS, i: usize, lvl: usize) {
        let t = ls.kids[i];
        let sub = normal_kids(t);
        let is_elem = matches!(t.v, GValue::Element(_));
        let r = self.rng.below(10);
        // wrap a child that stands at the element's own position
        if ls.want_wrap[i] {
            let k = self.rng.below(sub.len());
            let kk = kind_of(&sub[k].v);
            let (c, _) = ls.row(Some(i));
            let ds: Vec<Dest> = self.cands(ls, Some(i), 2 * i + 1).into_iter().filter(|&d| self.can_land(kk, None, d)).collect();
            // xot refuses to wrap a child of the document node other than an element
            if !ds.is_empty() && (self.nodes[c].kind != Kind::Doc || kk == Kind::Elem) {
                let kn = self.build_complete(sub[k], lvl);
                let d = *self.rng.pick(&ds);
                self.do_move(kn, d);
                self.tick();
                let e = self.wrap_elem(kn, t);
                self.sink.stat("program.wrap.in-place");
                ls.node[i] = Some(e);
                ls.at_place[i] = true;
                ls.pre[i] = Some((k, kn));
                return;
            }
        }
        if r <= 3 {
            // bottom-up (with the detours of a tree of its own: wrap, clone)
            let x = self.build_complete(t, lvl);
            ls.node[i] = Some(x);
            ls.filled[i] = true;
            return;
        }
        if r <= 5 && is_elem && lvl < 2 && self.detour() {
            // only the head is a template
            let h = self.make_head(t);
            self.flush_subtree(h);
            let c = self.clone_node(h);
            self.sink.stat("program.clone.head");
            self.nodes[h].trash = true;
            if self.rng.chance(1, 2) {
                self.remove(h);
            }
            ls.node[i] = Some(c);
            ls.filled[i] = false;
            return;
        }
        let h = self.make_head(t);
        ls.node[i] = Some(h);
        ls.filled[i] = !is_elem;
    }

    fn task_placeholder(&mut self, ls: &mut LS, i: usize) {
        let n = ls.kids.len();
        let ds = self.cands(ls, Some(i), 2 * i + 1);
        let text_ds: Vec<Dest> = ds.iter().copied().filter(|&d| self.can_land(Kind::Text, None, d)).collect();
        let text_ok = ls.text_ph_ok
            && !text_ds.is_empty()
            && (!self.cons || ((i == 0 || !is_text_tree(ls.kids[i - 1])) && (i + 1 >= n || !is_text_tree(ls.kids[i + 1]))));
        let choice = loop {
            let c = self.rng.below(4);
            if c != 3 || text_ok {
                break c;
            }
        };
        let ph;
        match choice {
            0 => {
                ph = self.new_leaf(&GValue::Comment("placeholder".into()));
                self.sink.stat("program.placeholder.comment");
            }
            1 => {
                let data = if self.rng.chance(1, 2) { None } else { Some("here".to_string()) };
                ph = self.new_leaf(&GValue::PI(18, data));
                self.sink.stat("program.placeholder.pi");
            }
            2 => {
                let nm = self.helper_name(None);
                ph = self.new_leaf(&GValue::Element(nm));
                if self.rng.chance(1, 3) {
                    let c = self.new_leaf(&GValue::Comment("inside".into()));
                    self.do_move(c, Dest::Append(ph));
                }
                self.sink.stat("program.placeholder.element");
            }
            _ => {
                ph = self.new_leaf(&GValue::Text("placeholder".into()));
                self.sink.stat("program.placeholder.text");
            }
        }
        let d = if choice == 3 { *self.rng.pick(&text_ds) } else { *self.rng.pick(&ds) };
        self.do_move(ph, d);
        ls.ph[i] = Some(ph);
        ls.want_ph[i] = false;
    }

    fn task_stray(&mut self, ls: &mut LS, i: usize) {
        let x = ls.node[i].unwrap();
        let kind = self.nodes[x].kind;
        let mut done = false;
        if ls.want_stray[i] == 2 {
            let (c, _) = ls.row(Some(i));
            let mut ds = vec![Dest::Append(c), Dest::Prepend(c)];
            for &k in &self.nodes[c].kids {
                ds.push(Dest::After(k));
                ds.push(Dest::Before(k));
            }
            let ds: Vec<Dest> = ds.into_iter().filter(|&d| self.can_move(x, d)).collect();
            if !ds.is_empty() {
                let d = *self.rng.pick(&ds);
                self.do_move(x, d);
                self.sink.stat("program.stray.in-parent");
                done = true;
            }
        }
        if !done {
            let sc = self.get_scratch(kind);
            self.do_move(x, Dest::Append(sc));
            self.sink.stat("program.stray.scratch");
        }
        ls.want_stray[i] = 0;
    }

    fn task_place(&mut self, ls: &mut LS, i: usize) {
        let x = ls.node[i].unwrap();
        let attached = self.nodes[x].parent.is_some();
        if let Some(ph) = ls.ph[i] {
            self.sink.stat(if attached { "program.replace.attached" } else { "program.replace.parentless" });
            self.sink.stat(if ls.filled[i] { "program.replace.complete" } else { "program.replace.partial" });
            self.replace(ph, x);
            ls.ph[i] = None;
        } else {
            let ds: Vec<Dest> = self.cands(ls, Some(i), 2 * i + 1).into_iter().filter(|&d| self.can_move(x, d)).collect();
            let d = *self.rng.pick(&ds);
            if attached {
                if self.rng.chance(1, 2) {
                    self.detach(x);
                    self.sink.stat("program.detach");
                } else {
                    self.sink.stat("program.move-attached");
                }
            }
            self.do_move(x, d);
        }
        ls.at_place[i] = true;
    }

    fn task_wrapper(&mut self, ls: &mut LS) {
        let n = ls.kids.len();
        let free = |ls: &LS, j: usize| ls.ph[j].is_none() && !ls.at_place[j];
        ls.wrappers_left -= 1;
        let nm = self.helper_name(None);
        // around a child that is in place already (not a misc child of the document: refused)
        let placed: Vec<usize> = (0..n)
            .filter(|&j| ls.at_place[j] && ls.ph[j].is_none() && (self.nodes[ls.p].kind != Kind::Doc || self.nodes[ls.node[j].unwrap()].kind == Kind::Elem))
            .collect();
        if !placed.is_empty() && self.rng.chance(2, 3) {
            let j = *self.rng.pick(&placed);
            let (mut lo, mut hi) = (j, j + 1);
            while lo > 0 && free(ls, lo - 1) && self.rng.chance(1, 2) {
                lo -= 1;
            }
            while hi < n && free(ls, hi) && self.rng.chance(1, 2) {
                hi += 1;
            }
            let w = self.wrap(ls.node[j].unwrap(), nm);
            self.sink.stat("program.wrapper.by-wrap");
            ls.wrapper = Some((w, lo, hi));
            return;
        }
        let lo = self.rng.below(n + 1);
        let mut hi = lo;
        while hi < n && free(ls, hi) && self.rng.chance(3, 4) {
            hi += 1;
        }
        let w = self.new_leaf(&GValue::Element(nm));
        let ds = self.cands(ls, None, 2 * lo);
        let d = *self.rng.pick(&ds);
        self.do_move(w, d);
        self.sink.stat(if lo == hi { "program.wrapper.empty-run" } else { "program.wrapper.new" });
        ls.wrapper = Some((w, lo, hi));
    }
}

/// Build `t` by a random extended program; returns the label of its root, or `None` after a refusal.
pub fn extended_build(s: &mut Session, sink: &mut Sink, rng: &mut Rng, t: &GTree) -> Option<usize> {
    let mark = sink.lines.len();
    let cons = s.xot_consolidation();
    let budget = 4 + rng.below(12);
    let check = std::env::var("XOT_PROG2_CHECK").is_ok();
    let mut b = B { s, sink, rng, text: vec![], nodes: vec![], cons, failed: false, budget, pending: vec![], check };
    let mut root = b.new_leaf(&GValue::Document);
    b.fill_list(root, t, None, 0);
    b.flush_where(None);
    if !b.failed && b.rng.chance(1, 6) {
        // the document is a template too
        let c = b.clone_node(root);
        b.sink.stat("program.clone.document");
        b.remove(root);
        root = c;
    }
    // helper nodes go
    loop {
        if b.failed {
            break;
        }
        let r = b.removable();
        match r.first() {
            Some(&x) => b.remove(x),
            None => break,
        }
    }
    if !b.failed && (0..b.nodes.len()).any(|i| b.nodes[i].alive && (b.nodes[i].trash || b.nodes[i].scratch)) {
        b.stuck("helper-left");
    }
    if b.failed {
        return None;
    }
    let B { s, sink, text, nodes, .. } = b;
    // the whole program on the specification and on the model's interpreter, evaluated on the
    // state BEFORE the program; expected: the content of the real forest AFTER it
    let content = erase_labels(&s.dump());
    let program = text.join(" ; ");
    sink.lines.insert(mark, (format!("forest prog2 spec {}", program), content.clone()));
    sink.lines.insert(mark + 1, (format!("forest prog2 impl {}", program), format!("ok {}", content)));
    sink.stat("program.programs");
    sink.stat(&format!("program.steps.{}", match text.len() { 0..=10 => "1-10", 11..=25 => "11-25", 26..=60 => "26-60", 61..=120 => "61-120", _ => "121+" }));
    Some(nodes[root].label)
}
