//! Oracle of the `html` suite (C19), independent of the model: a minimal HTML tokenizer and a
//! checker that walks the *generated* tree next to the token stream of the real output.
//! The element tables here are the oracle's own (HTML standard 13.1.2), not the crate's.
use crate::html_tok::{decode, Tk, Tokenizer};
use crate::tree::*;

pub const XHTML_URI: &str = "http://www.w3.org/1999/xhtml";
pub const HTTPS_URI: &str = "https://www.w3.org/1999/xhtml";
pub const MATHML_URI: &str = "http://www.w3.org/1998/Math/MathML";
pub const SVG_URI: &str = "http://www.w3.org/2000/svg";
pub const DOCTYPE: &str = "<!DOCTYPE html>";

/// Void elements of the HTML standard: no end tag.
const SPEC_VOID: &[&str] = &["area", "base", "br", "col", "embed", "hr", "img", "input", "link", "meta", "source", "track", "wbr"];
/// Void in older HTML versions (listed by the XSLT/XQuery serialisation spec): either spelling is accepted.
const LEGACY_VOID: &[&str] = &["param", "keygen", "basefont", "frame", "isindex"];
const RAW_TEXT: &[&str] = &["script", "style"];

/// A property failure found by the checker.
pub struct Finding {
    pub signature: String,
    pub what: String,
}

fn finding(sig: &str, what: String) -> Finding {
    Finding { signature: sig.to_string(), what }
}

/// The property is evaluated with two readings of "the XHTML namespace": the real URI (the crate
/// spells its constant `https://…`, so it treats these elements as foreign: every failure on them
/// is a consequence of that constant and is reported under the one signature of that known
/// finding) and the crate's own constant (so that the rest of the HTML logic is exercised and
/// reported under the ordinary signatures).
#[derive(Clone, Copy, PartialEq, Debug)]
pub enum NsClass {
    Html,     // no namespace, the XHTML namespace, the crate's XHTML constant
    Embedded, // MathML, SVG
    Foreign,
}

pub fn ns_class(uri: &str) -> NsClass {
    match uri {
        "" | XHTML_URI | HTTPS_URI => NsClass::Html,
        MATHML_URI | SVG_URI => NsClass::Embedded,
        _ => NsClass::Foreign,
    }
}

pub struct Checker<'a> {
    pub vocab: &'a Vocab,
    pub cdata: &'a [usize],
    pub pretty: bool,
    pub tk: Tokenizer,
    /// default namespace declared by the open start tags of the *output*, innermost last
    default_ns: Vec<String>,
    /// spellings of the open start tags that are still owed an end tag
    open_tags: Vec<String>,
    /// default namespace (vocabulary index) the *tree* declares around the current node and whether
    /// the output shows that declaration, innermost last; starts with what the ancestors of the
    /// start node declare (not shown)
    pub tree_default: Vec<(usize, bool)>,
    pub stats: Vec<&'static str>,
}

fn squeeze(s: &str) -> String {
    s.chars().filter(|c| *c != ' ' && *c != '\n').collect()
}

impl<'a> Checker<'a> {
    pub fn new(vocab: &'a Vocab, cdata: &'a [usize], pretty: bool, body: &str) -> Self {
        Checker { vocab, cdata, pretty, tk: Tokenizer::new(body), default_ns: vec![], open_tags: vec![], tree_default: vec![], stats: vec![] }
    }
    fn name(&self, id: usize) -> (&str, &str) {
        let (l, ns, _) = &self.vocab.names[id];
        (l.as_str(), self.vocab.namespaces[*ns].0.as_str())
    }
    /// Next token that is not indentation (pretty printing only).
    fn next_markup(&mut self) -> Tk {
        loop {
            let t = self.tk.next();
            if self.pretty {
                if let Tk::Text(s) = &t {
                    if squeeze(s).is_empty() {
                        continue;
                    }
                }
            }
            return t;
        }
    }
    fn peek_markup(&mut self) -> Tk {
        let save = self.tk.pos;
        let t = self.next_markup();
        self.tk.pos = save;
        t
    }
    /// Signature for a failure at an element: the XHTML-constant defect explains every failure on
    /// elements of the real XHTML namespace.
    fn elem_sig(&self, uri: &str, sig: &str) -> String {
        match uri {
            XHTML_URI => "C19:xhtml-namespace-constant-is-https".to_string(),
            _ => sig.to_string(),
        }
    }

    /// Check the nodes `kids` (normal children of one parent, or the single start node).
    pub fn nodes(&mut self, kids: &[&GTree], parent: Option<usize>) -> Result<(), Finding> {
        let mut i = 0;
        while i < kids.len() {
            match &kids[i].v {
                GValue::Text(_) => {
                    let mut text = String::new();
                    while i < kids.len() {
                        if let GValue::Text(s) = &kids[i].v {
                            text.push_str(s);
                            i += 1;
                        } else {
                            break;
                        }
                    }
                    self.text(&text, parent)?;
                    continue;
                }
                GValue::Comment(s) => match self.next_markup() {
                    Tk::Comment(c) if c == *s => {}
                    t => return Err(finding("C19:structure-mismatch", format!("expected comment {:?}, found {:?}", s, t))),
                },
                GValue::PI(target, data) => {
                    let want = match data {
                        Some(d) => format!("{} {}", self.name(*target).0, d),
                        None => self.name(*target).0.to_string(),
                    };
                    match self.next_markup() {
                        Tk::PI(c) if c == want => {}
                        t => return Err(finding("C19:structure-mismatch", format!("expected processing instruction {:?}, found {:?}", want, t))),
                    }
                }
                GValue::Element(n) => self.element(kids[i], *n)?,
                GValue::Document => {
                    let ks: Vec<&GTree> = kids[i].kids.iter().filter(|k| k.is_normal()).collect();
                    self.nodes(&ks, None)?;
                }
                GValue::Attribute(..) | GValue::Namespace(..) => {}
            }
            i += 1;
        }
        Ok(())
    }

    fn text(&mut self, want: &str, parent: Option<usize>) -> Result<(), Finding> {
        let (raw_parent, cdata_ok, puri) = match parent {
            Some(p) => {
                let (l, u) = self.name(p);
                (ns_class(u) == NsClass::Html && RAW_TEXT.contains(&l.to_ascii_lowercase().as_str()), self.cdata.contains(&p), u.to_string())
            }
            None => (false, false, String::new()),
        };
        if raw_parent {
            // the checker is only run when raw-text elements hold nothing but text free of `</`
            let pl = self.name(parent.unwrap()).0.to_string();
            let got = match self.tk.raw_text_until_close(&pl) {
                Some(g) => g,
                None => {
                    // serialised from the text node itself: no end tag follows
                    let g = self.tk.rest();
                    self.tk.pos = self.tk.s.len();
                    g
                }
            };
            self.stats.push("text.raw");
            if got == want {
                return Ok(());
            }
            if cdata_ok && got.starts_with("<![CDATA[") {
                return Ok(());
            }
            return Err(finding(
                &self.elem_sig(&puri, "C19:raw-text-element-content-differs"),
                format!("text {:?} inside <{}> is written {:?}", want, pl, got),
            ));
        }
        let mut got = String::new();
        let mut pieces = String::new();
        loop {
            match self.tk.peek() {
                Tk::Text(s) => {
                    self.tk.next();
                    pieces.push_str(&s);
                    match decode(&s) {
                        Ok(d) => got.push_str(&d),
                        Err(_) => {
                            return Err(finding(&self.elem_sig(&puri, "C19:text-raw-lt-or-amp"), format!("text {:?} is written {:?}: raw '&'", want, s)))
                        }
                    }
                }
                Tk::CData(s) => {
                    self.tk.next();
                    pieces.push_str("<![CDATA[…]]>");
                    if !cdata_ok {
                        return Err(finding("C19:cdata-section-not-requested", format!("text {:?} is written as a CDATA section {:?}", want, s)));
                    }
                    self.stats.push("text.cdata");
                    got.push_str(&s);
                }
                _ => break,
            }
        }
        let same = if self.pretty { squeeze(&got) == squeeze(want) } else { got == want };
        if same {
            self.stats.push("text.escaped");
            return Ok(());
        }
        let sig = if want.contains('<') || want.contains('&') { "C19:text-raw-lt-or-amp" } else { "C19:text-content-differs" };
        Err(finding(&self.elem_sig(&puri, sig), format!("text {:?} is written {:?} (reads back as {:?}); next {:?}", want, pieces, got, self.tk.peek())))
    }

    fn element(&mut self, t: &GTree, n: usize) -> Result<(), Finding> {
        let (local, uri) = {
            let (l, u) = self.name(n);
            (l.to_string(), u.to_string())
        };
        let class = ns_class(&uri);
        let lower = local.to_ascii_lowercase();
        let (tag, attrs, self_closing) = match self.next_markup() {
            Tk::Start { name, attrs, self_closing } => (name, attrs, self_closing),
            Tk::Bad(b) => return Err(finding(&self.elem_sig(&uri, "C19:output-does-not-tokenize"), format!("at element {}: {}", local, b))),
            other => return Err(finding(&self.elem_sig(&uri, "C19:structure-mismatch"), format!("expected start tag of {{{}}}{}, found {:?}", uri, local, other))),
        };
        // the tag name
        let local_ok = tag == local || tag.ends_with(&format!(":{}", local));
        if !local_ok {
            return Err(finding(&self.elem_sig(&uri, "C19:structure-mismatch"), format!("expected start tag of {{{}}}{}, found <{}>", uri, local, tag)));
        }
        match class {
            NsClass::Html => {
                if tag != local {
                    return Err(finding(&self.elem_sig(&uri, "C19:html-element-prefixed"), format!("element {{{}}}{} is written <{}>", uri, local, tag)));
                }
                if self_closing {
                    return Err(finding(&self.elem_sig(&uri, "C19:html-element-self-closed"), format!("element {{{}}}{} is written <{}/>", uri, local, tag)));
                }
            }
            NsClass::Embedded => {
                if tag != local {
                    return Err(finding("C19:mathml-svg-prefixed", format!("element {{{}}}{} is written <{}>", uri, local, tag)));
                }
            }
            _ => {}
        }
        // attributes: xmlns declarations aside, the element's attributes in order
        let mut default_here: Option<String> = None;
        let mut plain: Vec<(String, Option<String>)> = vec![];
        for (an, av) in attrs {
            if an == "xmlns" || an.starts_with("xmlns:") {
                let v = match av.as_deref().map(decode) {
                    Some(Ok(v)) => v,
                    _ => return Err(finding("C19:attribute-raw-quote-or-amp", format!("namespace declaration {}={:?} in <{}>", an, av, tag))),
                };
                if an == "xmlns" {
                    default_here = Some(v);
                }
            } else {
                plain.push((an, av));
            }
        }
        let want_attrs: Vec<(usize, &String)> = t.kids.iter().filter_map(|k| if let GValue::Attribute(a, v) = &k.v { Some((*a, v)) } else { None }).collect();
        if plain.len() != want_attrs.len() {
            return Err(finding(
                &self.elem_sig(&uri, "C19:attribute-raw-quote-or-amp"),
                format!("<{}> has {} attributes {:?}, the element has {}: {:?}", tag, plain.len(), plain, want_attrs.len(), want_attrs),
            ));
        }
        for ((an, av), (wa, wv)) in plain.iter().zip(want_attrs.iter()) {
            let (al, _au) = self.name(*wa);
            if !(an == al || an.ends_with(&format!(":{}", al))) {
                return Err(finding("C19:attribute-differs", format!("attribute {} of <{}> is written {}", al, tag, an)));
            }
            match av {
                None => {
                    if al.to_ascii_lowercase() != wv.to_ascii_lowercase() {
                        return Err(finding("C19:attribute-differs", format!("attribute {}={:?} is written without value", al, wv)));
                    }
                    self.stats.push("attr.boolean");
                }
                Some(v) => match decode(v) {
                    Ok(d) if d == **wv => self.stats.push("attr.value"),
                    Ok(d) => return Err(finding("C19:attribute-differs", format!("attribute {}={:?} is written {:?} (reads back {:?})", al, wv, v, d))),
                    Err(_) => return Err(finding("C19:attribute-raw-quote-or-amp", format!("attribute {}={:?} is written {:?}", al, wv, v))),
                },
            }
        }
        let own_decl = t.kids.iter().find_map(|k| if let GValue::Namespace(0, ns) = k.v { Some(ns) } else { None });
        let own_shown = |d: usize| default_here.as_deref() == Some(self.vocab.namespaces[d].0.as_str());
        let tree_decl: Option<(usize, bool)> = own_decl.map(|d| (d, own_shown(d))).or(self.tree_default.last().copied());
        // MathML / SVG: under a default-namespace declaration of their namespace
        let inherited = self.default_ns.last().cloned().unwrap_or_default();
        let in_scope = default_here.clone().unwrap_or(inherited);
        if class == NsClass::Embedded {
            if in_scope != uri {
                // declared by an enclosing start tag of the output but overridden by a nearer one
                // (the serialiser keeps both bindings of the empty prefix), or declared nowhere
                // above (the binding injected for an earlier element outlived that element)
                let sig = if tree_decl.map_or(false, |(d, shown)| !shown && self.vocab.namespaces[d].0 == uri) {
                    // the tree declares this default namespace on an element of another namespace
                    // (or above the start node): the serialiser hides the declaration but still
                    // counts it as a binding
                    "C19:mathml-svg-under-hidden-default-namespace-declaration"
                } else if self.default_ns.contains(&uri) {
                    "C19:mathml-svg-under-shadowed-default-namespace-declaration"
                } else {
                    "C19:mathml-svg-without-default-namespace-declaration"
                };
                return Err(finding(
                    sig,
                    format!("element {{{}}}{} is written <{}> where the default namespace of the output is {:?}", uri, local, tag, in_scope),
                ));
            }
            self.stats.push("embedded.under-default-namespace");
        }
        if self_closing {
            return Ok(());
        }
        let html = class == NsClass::Html;
        let owes_end = !(html && (SPEC_VOID.contains(&lower.as_str()) || LEGACY_VOID.contains(&lower.as_str())));
        self.default_ns.push(in_scope);
        if let Some(d) = tree_decl {
            self.tree_default.push(d);
        }
        if owes_end {
            self.open_tags.push(tag.clone());
        }
        let kids: Vec<&GTree> = t.kids.iter().filter(|k| k.is_normal()).collect();
        self.nodes(&kids, Some(n))?;
        self.default_ns.pop();
        if tree_decl.is_some() {
            self.tree_default.pop();
        }
        if owes_end {
            self.open_tags.pop();
        }
        // the end tag (an end tag spelled like an enclosing open element's belongs to that element)
        let is_end = |t: &Tk| matches!(t, Tk::End(e) if *e == tag);
        if html && SPEC_VOID.contains(&lower.as_str()) {
            if is_end(&self.peek_markup()) && !self.open_tags.contains(&tag) {
                return Err(finding(&self.elem_sig(&uri, "C19:void-element-with-end-tag"), format!("void element <{}> is written with an end tag", tag)));
            }
            self.stats.push("end.void-none");
        } else if html && LEGACY_VOID.contains(&lower.as_str()) {
            if is_end(&self.peek_markup()) && !self.open_tags.contains(&tag) {
                self.next_markup();
            }
            self.stats.push("end.legacy-void");
        } else {
            match self.next_markup() {
                t if is_end(&t) => self.stats.push("end.explicit"),
                other => {
                    return Err(finding(
                        &self.elem_sig(&uri, if html { "C19:html-element-without-end-tag" } else { "C19:structure-mismatch" }),
                        format!("expected </{}>, found {:?}", tag, other),
                    ))
                }
            }
        }
        Ok(())
    }
}

fn is_html_void(t: &GTree, vocab: &Vocab) -> bool {
    if let GValue::Element(n) = t.v {
        let (l, ns, _) = &vocab.names[n];
        let lower = l.to_ascii_lowercase();
        return ns_class(&vocab.namespaces[*ns].0) == NsClass::Html && (SPEC_VOID.contains(&lower.as_str()) || LEGACY_VOID.contains(&lower.as_str()));
    }
    false
}

/// A void element ends without an end tag: does its output end in text?
fn void_with_trailing_text(t: &GTree, vocab: &Vocab) -> bool {
    is_html_void(t, vocab)
        && match t.kids.iter().filter(|k| k.is_normal()).last() {
            Some(k) => matches!(k.v, GValue::Text(_)) || void_with_trailing_text(k, vocab),
            None => false,
        }
}

/// Can the output of this subtree be tokenized unambiguously?  (Comment text is written
/// verbatim, so is text in script/style: `-->` and `</` there end the construct early for every
/// tokenizer; text at the end of a void element runs into a following text node.  The property
/// says nothing about these.)
pub fn tokenizable(t: &GTree, vocab: &Vocab) -> bool {
    let normal: Vec<&GTree> = t.kids.iter().filter(|k| k.is_normal()).collect();
    for w in normal.windows(2) {
        if void_with_trailing_text(w[0], vocab) && matches!(w[1].v, GValue::Text(_)) {
            return false;
        }
    }
    match &t.v {
        GValue::Comment(s) => !s.contains("-->"),
        GValue::PI(_, Some(d)) => !d.contains('>'),
        GValue::Element(n) => {
            let (l, ns, _) = &vocab.names[*n];
            let raw = ns_class(&vocab.namespaces[*ns].0) == NsClass::Html && RAW_TEXT.contains(&l.to_ascii_lowercase().as_str());
            t.kids.iter().all(|k| {
                if raw && k.is_normal() {
                    matches!(&k.v, GValue::Text(s) if !s.contains("</"))
                } else {
                    tokenizable(k, vocab)
                }
            })
        }
        _ => t.kids.iter().all(|k| tokenizable(k, vocab)),
    }
}
