//! Observation side of the `build` suite: the real tokenizer's token dump for an input, and
//! xot's parse result rendered canonically (tree, xml_id_node probes, SpanInfo, interning
//! table growth, or error variant + span).
use crate::common::{enc, guarded};
use crate::tree::*;
use xmlparser::{ElementEnd, StrSpan, Token, Tokenizer};
use xot::{Node, ParseError, SpanInfo, SpanInfoKey, Value, Xot};

#[derive(Clone, Debug)]
pub enum Tok {
    Decl { version: String },
    PI { target: String },
    Comment,
    Dtd,
    ElemStart { prefix: String, local: String },
    Attr { prefix: String, local: String, value: String, vstart: usize },
    EndOpen,
    EndClose { prefix: String, local: String },
    EndEmpty,
    Text { text: String, start: usize },
    Cdata { text: String, start: usize },
}

pub struct Dump {
    pub words: String,
    pub toks: Vec<Tok>,
    pub lexerr: Option<usize>,
}

fn sp(s: &StrSpan) -> String {
    format!("{} {}", s.start(), enc(s.as_str()))
}

fn osp(s: &Option<StrSpan>) -> String {
    match s {
        Some(s) => sp(s),
        None => "-".to_string(),
    }
}

/// Tokens of the real tokenizer, taken the way `Xot::_parse` takes them (position read before
/// every `next()`); stops at the first tokenizer error.
pub fn dump_tokens(xml: &str, fragment: bool) -> Dump {
    let mut tokenizer = if fragment { Tokenizer::from_fragment(xml, 0..xml.len()) } else { Tokenizer::from(xml) };
    let mut words: Vec<String> = vec![];
    let mut toks = vec![];
    let mut lexerr = None;
    loop {
        let position = tokenizer.stream().pos();
        match tokenizer.next() {
            None => break,
            Some(Err(_)) => {
                lexerr = Some(position);
                words.push(format!("X {}", position));
                break;
            }
            Some(Ok(t)) => match t {
                Token::Declaration { version, encoding, standalone, span } => {
                    let sa = match standalone {
                        Some(true) => "y",
                        Some(false) => "n",
                        None => "-",
                    };
                    words.push(format!("D {} {} {} {}", sp(&version), osp(&encoding), sa, sp(&span)));
                    toks.push(Tok::Decl { version: version.to_string() });
                }
                Token::ProcessingInstruction { target, content, span } => {
                    words.push(format!("P {} {} {}", sp(&target), osp(&content), sp(&span)));
                    toks.push(Tok::PI { target: target.to_string() });
                }
                Token::Comment { text, span } => {
                    words.push(format!("C {} {}", sp(&text), sp(&span)));
                    toks.push(Tok::Comment);
                }
                Token::DtdStart { span, .. } => {
                    words.push(format!("DS {}", sp(&span)));
                    toks.push(Tok::Dtd);
                }
                Token::EmptyDtd { span, .. } => {
                    words.push(format!("ED {}", sp(&span)));
                    toks.push(Tok::Dtd);
                }
                Token::EntityDeclaration { span, .. } => {
                    words.push(format!("EN {}", sp(&span)));
                    toks.push(Tok::Dtd);
                }
                Token::DtdEnd { span } => {
                    words.push(format!("DE {}", sp(&span)));
                    toks.push(Tok::Dtd);
                }
                Token::ElementStart { prefix, local, span } => {
                    words.push(format!("ES {} {} {}", sp(&prefix), sp(&local), sp(&span)));
                    toks.push(Tok::ElemStart { prefix: prefix.to_string(), local: local.to_string() });
                }
                Token::Attribute { prefix, local, value, span } => {
                    words.push(format!("A {} {} {} {}", sp(&prefix), sp(&local), sp(&value), sp(&span)));
                    toks.push(Tok::Attr {
                        prefix: prefix.to_string(),
                        local: local.to_string(),
                        value: value.to_string(),
                        vstart: value.start(),
                    });
                }
                Token::ElementEnd { end, span } => match end {
                    ElementEnd::Open => {
                        words.push(format!("EO {}", sp(&span)));
                        toks.push(Tok::EndOpen);
                    }
                    ElementEnd::Empty => {
                        words.push(format!("EE {}", sp(&span)));
                        toks.push(Tok::EndEmpty);
                    }
                    ElementEnd::Close(p, l) => {
                        words.push(format!("EC {} {} {}", sp(&p), sp(&l), sp(&span)));
                        toks.push(Tok::EndClose { prefix: p.to_string(), local: l.to_string() });
                    }
                },
                Token::Text { text } => {
                    words.push(format!("T {}", sp(&text)));
                    toks.push(Tok::Text { text: text.to_string(), start: text.start() });
                }
                Token::Cdata { text, span } => {
                    words.push(format!("CD {} {}", sp(&text), sp(&span)));
                    toks.push(Tok::Cdata { text: text.to_string(), start: text.start() });
                }
            },
        }
    }
    Dump { words: words.join(" "), toks, lexerr }
}

pub fn comma(l: Vec<String>) -> String {
    if l.is_empty() {
        "-".to_string()
    } else {
        l.join(",")
    }
}

/// Entries the parse added to the three interning tables, found by looking every string of the
/// token dump up through the public read-only API; the vocabulary is extended accordingly.
/// `Err` = the new ids are not dense (a registered string is not among the candidates).
pub fn env_delta(xot: &Xot, vocab: &mut Vocab, dump: &Dump) -> Result<String, String> {
    let mut ns_c: Vec<String> = vec![];
    let mut pf_c: Vec<String> = vec![String::new()];
    let mut loc_c: Vec<String> = vec![];
    for t in &dump.toks {
        match t {
            Tok::Attr { prefix, local, value, .. } => {
                ns_c.push(value.clone());
                if let Ok(d) = xot::verif_hooks::parse_attribute(value, 0) {
                    ns_c.push(d);
                }
                pf_c.push(prefix.clone());
                pf_c.push(local.clone());
                loc_c.push(local.clone());
            }
            Tok::ElemStart { prefix, local } | Tok::EndClose { prefix, local } => {
                pf_c.push(prefix.clone());
                loc_c.push(local.clone());
            }
            Tok::PI { target } => loc_c.push(target.clone()),
            _ => {}
        }
    }
    let mut new_ns: Vec<(usize, xot::NamespaceId)> = vec![];
    for c in &ns_c {
        if let Some(id) = xot.namespace(c) {
            if ns_num(id) >= vocab.namespaces.len() {
                new_ns.push((ns_num(id), id));
            }
        }
    }
    new_ns.sort_by_key(|e| e.0);
    new_ns.dedup_by_key(|e| e.0);
    let mut out_ns = vec![];
    for (n, id) in new_ns {
        if n != vocab.namespaces.len() {
            return Err(format!("namespace id gap at {}", vocab.namespaces.len()));
        }
        vocab.sync_ns(xot, id);
        out_ns.push(enc(xot.namespace_str(id)));
    }
    let mut new_pf: Vec<(usize, xot::PrefixId)> = vec![];
    for c in &pf_c {
        if let Some(id) = xot.prefix(c) {
            if prefix_num(id) >= vocab.prefixes.len() {
                new_pf.push((prefix_num(id), id));
            }
        }
    }
    new_pf.sort_by_key(|e| e.0);
    new_pf.dedup_by_key(|e| e.0);
    let mut out_pf = vec![];
    for (n, id) in new_pf {
        if n != vocab.prefixes.len() {
            return Err(format!("prefix id gap at {}", vocab.prefixes.len()));
        }
        vocab.sync_prefix(xot, id);
        out_pf.push(enc(xot.prefix_str(id)));
    }
    let mut new_nm: Vec<(usize, xot::NameId, usize)> = vec![];
    let ns_ids: Vec<xot::NamespaceId> = vocab.namespaces.iter().map(|e| e.1).collect();
    for l in &loc_c {
        for (k, nsid) in ns_ids.iter().enumerate() {
            if let Some(id) = xot.name_ns(l, *nsid) {
                if name_num(id) >= vocab.names.len() {
                    new_nm.push((name_num(id), id, k));
                }
            }
        }
    }
    new_nm.sort_by_key(|e| e.0);
    new_nm.dedup_by_key(|e| e.0);
    let mut out_nm = vec![];
    for (n, id, k) in new_nm {
        if n != vocab.names.len() {
            return Err(format!("name id gap at {}", vocab.names.len()));
        }
        vocab.sync_name(xot, id);
        out_nm.push(format!("{}@{}", enc(xot.local_name_str(id)), k));
    }
    Ok(format!("ns {} ; pf {} ; nm {}", comma(out_ns), comma(out_pf), comma(out_nm)))
}

pub fn err_words(e: &ParseError) -> String {
    let s = e.span();
    let (v, payload): (&str, Vec<String>) = match e {
        ParseError::UnclosedTag(_) => ("UnclosedTag", vec![]),
        ParseError::InvalidCloseTag(p, n, _) => ("InvalidCloseTag", vec![enc(p), enc(n)]),
        ParseError::UnclosedEntity(t, _) => ("UnclosedEntity", vec![enc(t)]),
        ParseError::InvalidEntity(t, _) => ("InvalidEntity", vec![enc(t)]),
        ParseError::UnknownPrefix(p, _) => ("UnknownPrefix", vec![enc(p)]),
        ParseError::DuplicateAttribute(n, _) => ("DuplicateAttribute", vec![enc(n)]),
        ParseError::UnsupportedVersion(v, _) => ("UnsupportedVersion", vec![enc(v)]),
        ParseError::DtdUnsupported(_) => ("DtdUnsupported", vec![]),
        ParseError::NoElementAtTopLevel(_) => ("NoElementAtTopLevel", vec![]),
        ParseError::MultipleElementsAtTopLevel(_) => ("MultipleElementsAtTopLevel", vec![]),
        ParseError::TextAtTopLevel(_) => ("TextAtTopLevel", vec![]),
        ParseError::DuplicateId(v, _) => ("DuplicateId", vec![enc(v)]),
        ParseError::InvalidNamespaceDeclaration(n, _) => {
            ("InvalidNamespaceDeclaration", vec![enc(n)])
        }
        ParseError::InvalidTarget(t, _) => ("InvalidTarget", vec![enc(t)]),
        ParseError::XmlParser(_, _) => ("XmlParser", vec![]),
        #[allow(unreachable_patterns)]
        _ => ("Other", vec![]),
    };
    let mut out = format!("err:{} {} {}", v, s.start, s.end);
    for p in payload {
        out.push(' ');
        out.push_str(&p);
    }
    out
}

pub const KINDS: &[&str] = &["ES", "EE", "T", "C", "PT", "PC"];

pub fn key_of(kind: &str, n: Node) -> SpanInfoKey {
    match kind {
        "ES" => SpanInfoKey::ElementStart(n),
        "EE" => SpanInfoKey::ElementEnd(n),
        "T" => SpanInfoKey::Text(n),
        "C" => SpanInfoKey::Comment(n),
        "PT" => SpanInfoKey::PiTarget(n),
        _ => SpanInfoKey::PiContent(n),
    }
}

/// What a successful parse shows.
pub struct Seen {
    pub doc: Node,
    pub tree: GTree,
    pub nodes: Vec<Node>,
    pub paths: Vec<Vec<usize>>,
    pub span_info: SpanInfo,
}

impl Seen {
    pub fn path_of(&self, n: Node) -> Option<&Vec<usize>> {
        self.nodes.iter().position(|m| *m == n).map(|i| &self.paths[i])
    }
    pub fn node_at(&self, p: &[usize]) -> Option<Node> {
        self.paths.iter().position(|q| q.as_slice() == p).map(|i| self.nodes[i])
    }
}

pub enum Observed {
    Panic,
    Err(ParseError),
    Ok(Seen),
}

/// All recorded spans of a parsed tree, in the canonical order of the model's printer.
pub fn spans_words(xot: &Xot, seen: &Seen) -> String {
    let mut out = vec![];
    for (i, n) in seen.nodes.iter().enumerate() {
        let p = path_str(&seen.paths[i]);
        for k in KINDS {
            if let Some(s) = seen.span_info.get(key_of(k, *n)) {
                out.push(format!("{}/{}={}-{}", p, k, s.start, s.end));
            }
        }
        if xot.is_element(*n) {
            let mut names: Vec<(usize, xot::NameId)> = vec![];
            for a in xot.attribute_nodes(*n) {
                if let Value::Attribute(av) = xot.value(a) {
                    names.push((name_num(av.name()), av.name()));
                }
            }
            names.sort_by_key(|e| e.0);
            names.dedup_by_key(|e| e.0);
            for (num, id) in &names {
                if let Some(s) = seen.span_info.get(SpanInfoKey::AttributeName(*n, *id)) {
                    out.push(format!("{}/AN{}={}-{}", p, num, s.start, s.end));
                }
            }
            for (num, id) in &names {
                if let Some(s) = seen.span_info.get(SpanInfoKey::AttributeValue(*n, *id)) {
                    out.push(format!("{}/AV{}={}-{}", p, num, s.start, s.end));
                }
            }
        }
    }
    comma(out)
}

/// `xml_id_node` probes: every xml:id value in the tree and every value-like string of the dump.
pub fn ids_words(xot: &Xot, seen: &Seen, dump: &Dump) -> String {
    let mut cands: Vec<String> = vec![];
    for n in &seen.nodes {
        if let Value::Attribute(a) = xot.value(*n) {
            cands.push(a.value().to_string());
        }
    }
    for t in &dump.toks {
        if let Tok::Attr { value, .. } = t {
            cands.push(value.clone());
            if let Ok(d) = xot::verif_hooks::parse_attribute(value, 0) {
                cands.push(xot::verif_hooks::normalize_xml_id(&d));
                cands.push(d.trim_matches(' ').to_string());
                cands.push(d);
            }
        }
    }
    cands.sort();
    cands.dedup();
    let mut out = vec![];
    for c in cands {
        if let Some(n) = xot.xml_id_node(seen.doc, &c) {
            let p = match seen.path_of(n) {
                Some(p) => path_str(p),
                None => "?".to_string(),
            };
            out.push(format!("{}={}", enc(&c), p));
        }
    }
    comma(out)
}

/// Run one of the four entry points on a fresh Xot with the standard vocabulary.
/// Returns the Xot, the vocabulary, what was observed and the canonical response.
pub fn observe(xml: &str, fragment: bool, with_spans: bool, dump: &Dump) -> (Xot, Vocab, Observed, String) {
    let mut xot = Xot::new();
    let mut vocab = Vocab::standard(&mut xot);
    // the parser merges adjacent character data whatever the store's text-consolidation switch
    // says (that switch is about the manipulation API): parse into stores with it off, too
    if xml.len() % 3 == 0 {
        xot.set_text_consolidation(false);
    }
    let r = guarded(|| {
        if with_spans {
            if fragment {
                xot.parse_fragment_with_span_info(xml).map(|(n, s)| (n, Some(s)))
            } else {
                xot.parse_with_span_info(xml).map(|(n, s)| (n, Some(s)))
            }
        } else if fragment {
            xot.parse_fragment(xml).map(|n| (n, None))
        } else {
            xot.parse(xml).map(|n| (n, None))
        }
    });
    match r {
        None => (xot, vocab, Observed::Panic, "panic".to_string()),
        Some(Err(e)) => {
            let resp = match env_delta(&xot, &mut vocab, dump) {
                Ok(d) => format!("{} ; {}", err_words(&e), d),
                Err(g) => format!("{} ; harness-gap {}", err_words(&e), g),
            };
            (xot, vocab, Observed::Err(e), resp)
        }
        Some(Ok((doc, si))) => {
            let delta = env_delta(&xot, &mut vocab, dump);
            let delta = match delta {
                Ok(d) => d,
                Err(g) => {
                    // cannot read the tree back with numeric ids; report and stop here
                    let seen = Seen { doc, tree: GTree::leaf(GValue::Document), nodes: vec![], paths: vec![], span_info: si.unwrap_or_else(empty_span_info) };
                    return (xot, vocab, Observed::Ok(seen), format!("ok harness-gap {}", g));
                }
            };
            let tree = read_tree(&xot, &mut vocab, doc);
            let nodes = nodes_in_order(&xot, doc);
            let paths = tree.paths();
            let seen = Seen { doc, tree, nodes, paths, span_info: si.unwrap_or_else(empty_span_info) };
            let resp = if with_spans {
                format!(
                    "ok {} ; ids {} ; spans {} ; {}",
                    seen.tree.wire(),
                    ids_words(&xot, &seen, dump),
                    spans_words(&xot, &seen),
                    delta
                )
            } else {
                format!("ok {} ; ids {} ; {}", seen.tree.wire(), ids_words(&xot, &seen, dump), delta)
            };
            (xot, vocab, Observed::Ok(seen), resp)
        }
    }
}

/// A SpanInfo without entries (for the entry points that return none).
pub fn empty_span_info() -> SpanInfo {
    let mut xot = Xot::new();
    xot.parse_fragment_with_span_info("").map(|(_, s)| s).expect("empty fragment parses")
}

pub fn json_escape(s: &str) -> String {
    let mut o = String::new();
    for c in s.chars() {
        match c {
            '"' => o.push_str("\\\""),
            '\\' => o.push_str("\\\\"),
            '\n' => o.push_str("\\n"),
            '\r' => o.push_str("\\r"),
            '\t' => o.push_str("\\t"),
            c if (c as u32) < 0x20 => o.push_str(&format!("\\u{:04x}", c as u32)),
            c => o.push(c),
        }
    }
    o
}

pub fn f_line(prop: &str, sig: &str, what: &str, entry: &str, input: &str) -> String {
    let shown: String = input.chars().take(200).collect();
    format!(
        "F\t{}\t{{\"signature\": \"{}:{}\", \"what\": \"{}\", \"replay\": {{\"suite\": \"build\", \"entry\": \"{}\", \"input\": \"{}\", \"text\": \"{}\"}}}}",
        prop,
        prop,
        json_escape(sig),
        json_escape(what),
        entry,
        enc(input),
        json_escape(&shown)
    )
}
