//! Suite `idmap`, part 1: the oracle's ground truth (what has been registered, with which id),
//! failure reporting (`F` lines), id values by number, the state of one `Xot` under test.
use crate::common::{guarded, Sink};
use crate::tree::{name_num, ns_num, prefix_num};
use std::collections::HashMap;
use std::fmt::Debug;
use std::hash::Hash;
use xot::{NameId, NamespaceId, PrefixId, Xot};

pub const XML_NS: &str = "http://www.w3.org/XML/1998/namespace";
pub const WRAP: &str = "C08:id-wraps-after-65536-registrations";
/// Number of distinct values a 16-bit id can tell apart (only used to pick the signature).
pub const CAPACITY: usize = 1 << 16;

pub fn json_str(s: &str) -> String {
    let mut o = String::from("\"");
    for c in s.chars() {
        match c {
            '"' => o.push_str("\\\""),
            '\\' => o.push_str("\\\\"),
            c if (c as u32) < 0x20 || (c as u32) > 0x7e => {
                let mut buf = [0u16; 2];
                for u in c.encode_utf16(&mut buf) {
                    o.push_str(&format!("\\u{:04x}", u));
                }
            }
            c => o.push(c),
        }
    }
    o.push('"');
    o
}

/// Oracle failures: at most two `F` lines per signature and table, the rest only counted.
pub struct Fails {
    pub seen: HashMap<String, usize>,
    pub lines: Vec<String>,
}

impl Fails {
    pub fn new() -> Self {
        Fails { seen: HashMap::new(), lines: vec![] }
    }
    pub fn report(&mut self, sink: &mut Sink, signature: &str, what: String, recent: &[String]) {
        sink.stat(&format!("oracle.{}", signature));
        // cap per signature and table (first word of the description)
        let key = format!("{} {}", signature, what.split(' ').next().unwrap_or(""));
        let n = self.seen.entry(key).or_insert(0);
        *n += 1;
        if *n <= 2 {
            let reqs: Vec<String> = recent.iter().rev().take(8).rev().map(|r| json_str(r)).collect();
            self.lines.push(format!(
                "F\tC08\t{{\"signature\": {}, \"what\": {}, \"replay\": {{\"suite\": \"idmap\", \"last_requests\": [{}]}}}}",
                json_str(signature),
                json_str(&what),
                reqs.join(", ")
            ));
        }
    }
}

/// Ground truth of one table.
#[derive(Clone)]
pub struct Table<V: Clone + Eq + Hash + Debug> {
    pub kind: &'static str,
    /// value -> id number it received when first registered
    pub truth: HashMap<V, usize>,
    pub order: Vec<V>,
    /// id number -> first value that received it
    pub owner: HashMap<usize, V>,
}

impl<V: Clone + Eq + Hash + Debug> Table<V> {
    pub fn new(kind: &'static str) -> Self {
        Table { kind, truth: HashMap::new(), order: vec![], owner: HashMap::new() }
    }
    pub fn sig(&self, other: &str) -> String {
        if self.order.len() > CAPACITY {
            WRAP.to_string()
        } else {
            other.to_string()
        }
    }
    /// A registration of `v` returned id number `n`.
    pub fn observe(&mut self, v: &V, n: usize, fails: &mut Fails, sink: &mut Sink, recent: &[String]) {
        if let Some(&old) = self.truth.get(v) {
            sink.stat(&format!("reg.{}.duplicate", self.kind));
            if old != n {
                let s = self.sig("C08:registration-not-stable");
                fails.report(sink, &s, format!("{} table: {:?} was registered with id {} and now returns id {}", self.kind, v, old, n), recent);
            }
            return;
        }
        sink.stat(&format!("reg.{}.fresh", self.kind));
        self.truth.insert(v.clone(), n);
        self.order.push(v.clone());
        if let Some(w) = self.owner.get(&n) {
            let s = self.sig("C08:distinct-values-share-id");
            fails.report(
                sink,
                &s,
                format!("{} table: {:?}, the {}th distinct value registered, received id {}, which is already the id of {:?}", self.kind, v, self.order.len(), n, w),
                recent,
            );
        } else {
            self.owner.insert(n, v.clone());
        }
    }
}

/// Id values by number (taken from a donor `Xot`; an id is just its number).
pub fn bank_push(b: &mut Bank, n: NameId, ns: NamespaceId, p: PrefixId) {
    b.names.push(n);
    b.nss.push(ns);
    b.pfs.push(p);
}

pub struct Bank {
    pub names: Vec<NameId>,
    pub nss: Vec<NamespaceId>,
    pub pfs: Vec<PrefixId>,
}

impl Bank {
    pub fn new() -> Self {
        let mut x = Xot::new();
        let mut b = Bank { names: vec![], nss: vec![], pfs: vec![] };
        b.names.push(x.xml_space_name());
        b.names.push(x.xml_id_name());
        b.nss.push(x.no_namespace());
        b.nss.push(x.xml_namespace());
        b.pfs.push(x.empty_prefix());
        b.pfs.push(x.xml_prefix());
        // a little beyond 2^16 so that ids of a widened id type are available too; with 16-bit ids
        // the entries past 2^16 are the wrapped ids again, and with a registration that refuses
        // the overflow the bank simply ends there
        for i in 2..CAPACITY + 256 {
            let s = format!("bank{}", i);
            match guarded(|| (x.add_name(&s), x.add_namespace(&s), x.add_prefix(&s))) {
                Some((a, bb, c)) => {
                    bank_push(&mut b, a, bb, c);
                }
                None => break,
            }
        }
        for i in [0usize, 1, 2, 77, 4096, CAPACITY - 1] {
            assert_eq!(name_num(b.names[i]), i);
            assert_eq!(ns_num(b.nss[i]), i);
            assert_eq!(prefix_num(b.pfs[i]), i);
        }
        b
    }
}

#[derive(Clone)]
pub struct State {
    pub xot: Xot,
    pub ns: Table<String>,
    pub pf: Table<String>,
    pub nm: Table<(String, usize)>,
}

impl State {
    pub fn new() -> Self {
        // every other store is made by `Xot::default()`: the same store by the crate's documentation
        // (seed C08j: a derived Default with empty tables)
        static COUNT: std::sync::atomic::AtomicUsize = std::sync::atomic::AtomicUsize::new(0);
        let xot = if COUNT.fetch_add(1, std::sync::atomic::Ordering::Relaxed) % 2 == 1 { Xot::default() } else { Xot::new() };
        let mut s = State { xot, ns: Table::new("namespace"), pf: Table::new("prefix"), nm: Table::new("name") };
        // what Xot::new is documented to contain; verified against the real Xot by `builtins`
        for (v, n) in [("", 0usize), (XML_NS, 1)] {
            s.ns.truth.insert(v.to_string(), n);
            s.ns.order.push(v.to_string());
            s.ns.owner.insert(n, v.to_string());
        }
        for (v, n) in [("", 0usize), ("xml", 1)] {
            s.pf.truth.insert(v.to_string(), n);
            s.pf.order.push(v.to_string());
            s.pf.owner.insert(n, v.to_string());
        }
        for (v, n) in [("space", 0usize), ("id", 1)] {
            let k = (v.to_string(), 1usize);
            s.nm.truth.insert(k.clone(), n);
            s.nm.order.push(k.clone());
            s.nm.owner.insert(n, k);
        }
        s
    }
}
