//! Oracles of suite `scope`, evaluated on the implementation and independent of the Lean model.
//!
//! C09: an independent resolver (top-down: start from `xml`, apply each element's declarations on
//! the way from the root to the node, `xmlns=""` removes the default binding) is compared with
//! every scope query; reported qualified names are resolved back by the XML-Namespaces rule for
//! the node's kind.
//! C15: after `deduplicate_namespaces` the tree differs from the input only by deleted namespace
//! nodes; a tree that serialised before still does and reparses to the same content; a second
//! call removes nothing.
use crate::common::Sink;
use crate::tree::*;
use std::collections::{BTreeMap, BTreeSet};
use xot::{Error, Node, Xot};

pub type Scope = BTreeMap<usize, usize>;

pub fn json_escape(s: &str) -> String {
    s.replace('\\', "\\\\").replace('"', "\\\"")
}

pub fn fail(sink: &mut Sink, prop: &str, signature: &str, what: &str, t: &GTree, path: &[usize], op: &str) {
    sink.stat(&format!("oracle.{}", signature));
    // the first few cases of each signature are enough for the verdict (the count is in the statistics)
    let n = sink.stats.get(&format!("oracle.{}", signature)).copied().unwrap_or(0);
    if n > 3 {
        return;
    }
    println!(
        "F\t{}\t{{\"signature\": \"{}\", \"what\": \"{}\", \"replay\": {{\"suite\": \"scope\", \"op\": \"{}\", \"path\": \"{}\", \"tree\": \"{}\"}}}}",
        prop,
        json_escape(signature),
        json_escape(what),
        op,
        path_str(path),
        json_escape(&t.wire())
    );
}

pub fn decls_of(t: &GTree) -> Vec<(usize, usize)> {
    let mut out = vec![];
    for k in &t.kids {
        match k.v {
            GValue::Namespace(p, n) => out.push((p, n)),
            _ => break,
        }
    }
    out
}

fn apply(scope: &mut Scope, decls: &[(usize, usize)]) {
    // NodeMap semantics for a repeated prefix on one element would be "first wins"; the
    // generators never repeat a prefix on one element
    for (p, n) in decls {
        if *p == 0 && *n == 0 {
            scope.remove(p);
        } else {
            scope.insert(*p, *n);
        }
    }
}

/// The bindings in scope at `path`, top-down.
pub fn resolve(t: &GTree, path: &[usize]) -> Scope {
    let mut scope: Scope = [(1usize, 1usize)].into_iter().collect();
    let mut cur = t;
    apply(&mut scope, &decls_of(cur));
    for i in path {
        cur = &cur.kids[*i];
        apply(&mut scope, &decls_of(cur));
    }
    scope
}

fn declared_on_chain(t: &GTree, path: &[usize]) -> Vec<usize> {
    let mut out = vec![];
    let mut cur = t;
    out.extend(decls_of(cur).iter().map(|d| d.0));
    for i in path {
        cur = &cur.kids[*i];
        out.extend(decls_of(cur).iter().map(|d| d.0));
    }
    out
}

pub fn ns_of_name(vocab: &Vocab, name: usize) -> usize {
    vocab.names[name].1
}

fn attrs_of(t: &GTree) -> Vec<usize> {
    t.kids.iter().filter_map(|k| if let GValue::Attribute(n, _) = k.v { Some(n) } else { None }).collect()
}

/// Namespaces used in the subtree that no declaration inside the subtree provides a usable
/// prefix for (element names may use the default binding, attribute names need a real prefix).
fn expected_unresolved(vocab: &Vocab, sub: &GTree) -> (BTreeSet<usize>, BTreeSet<usize>) {
    // returns (kind-aware set, kind-blind set)
    fn go(vocab: &Vocab, t: &GTree, scope: &Scope, aware: &mut BTreeSet<usize>, blind: &mut BTreeSet<usize>) {
        if let GValue::Element(name) = t.v {
            let mut s = scope.clone();
            apply(&mut s, &decls_of(t));
            let ns = ns_of_name(vocab, name);
            // the xml prefix is reserved and always bound: the XML namespace is never unresolved
            if ns != 0 && ns != 1 && !s.values().any(|n| *n == ns) {
                aware.insert(ns);
                blind.insert(ns);
            }
            for a in attrs_of(t) {
                let ns = ns_of_name(vocab, a);
                if ns != 0 && ns != 1 {
                    if !s.values().any(|n| *n == ns) {
                        blind.insert(ns);
                    }
                    if !s.iter().any(|(p, n)| *n == ns && *p != 0) {
                        aware.insert(ns);
                    }
                }
            }
            for k in &t.kids {
                go(vocab, k, &s, aware, blind);
            }
        } else {
            for k in &t.kids {
                go(vocab, k, scope, aware, blind);
            }
        }
    }
    let base: Scope = [(1usize, 1usize)].into_iter().collect();
    let (mut aware, mut blind) = (BTreeSet::new(), BTreeSet::new());
    go(vocab, sub, &base, &mut aware, &mut blind);
    (aware, blind)
}

pub fn check_node(sink: &mut Sink, xot: &Xot, vocab: &Vocab, t: &GTree, path: &[usize], node: Node) {
    let scope = resolve(t, path);
    let sub = t.at(path).unwrap();
    let declared = declared_on_chain(t, path);
    let redeclared = {
        let mut d = declared.clone();
        d.push(1);
        let n = d.len();
        d.sort();
        d.dedup();
        d.len() != n
    };
    // in_scope
    let got: Vec<(usize, usize)> = xot.namespaces_in_scope(node).map(|(p, n)| (prefix_num(p), ns_num(n))).collect();
    let as_map: Scope = got.iter().copied().collect();
    if as_map.len() != got.len() {
        fail(sink, "C09", "C09:in_scope-repeats-a-prefix", "namespaces_in_scope yields a prefix twice", t, path, "in_scope");
    }
    if as_map != scope {
        fail(sink, "C09", "C09:in_scope-differs-from-nearest-declaration", &format!("namespaces_in_scope {:?}, nearest-declaration-wins resolver {:?}", as_map, scope), t, path, "in_scope");
    }
    // namespace_for_prefix, is_prefix_defined
    for p in 0..vocab.prefixes.len() {
        let got = xot.namespace_for_prefix(node, vocab.prefix(p)).map(ns_num);
        let want = scope.get(&p).copied();
        if got != want {
            if want == Some(0) && got.is_none() {
                fail(sink, "C09", "C09:namespace_for_prefix-none-for-prefix-bound-to-empty-uri", &format!("prefix {} is listed by namespaces_in_scope as bound to the no-namespace id but namespace_for_prefix returns None", p), t, path, "nfp");
            } else {
                fail(sink, "C09", "C09:namespace_for_prefix-wrong", &format!("prefix {}: got {:?}, want {:?}", p, got, want), t, path, "nfp");
            }
        }
        let got = xot.is_prefix_defined(node, vocab.prefix(p));
        let want = p == 1 || declared.contains(&p);
        if got != want {
            fail(sink, "C09", "C09:is_prefix_defined-wrong", &format!("prefix {}: got {}, want {}", p, got, want), t, path, "defined");
        }
    }
    // prefix_for_namespace, for real namespaces
    for ns in 1..vocab.namespaces.len() {
        let got = xot.prefix_for_namespace(node, vocab.ns(ns)).map(prefix_num);
        match got {
            Some(p) => {
                if scope.get(&p) != Some(&ns) {
                    fail(sink, "C09", "C09:prefix_for_namespace-unsound", &format!("namespace {}: returned prefix {} which is bound to {:?}", ns, p, scope.get(&p)), t, path, "pfn");
                }
            }
            None => {
                if scope.values().any(|n| *n == ns) {
                    if redeclared {
                        fail(sink, "C09", "C09:prefix_for_namespace-gives-up-at-shadowed-prefix", &format!("namespace {} is bound in scope ({:?}) but prefix_for_namespace returns None; some prefix is declared twice along the ancestor chain", ns, scope), t, path, "pfn");
                    } else {
                        fail(sink, "C09", "C09:prefix_for_namespace-incomplete", &format!("namespace {} is bound in scope ({:?}) but prefix_for_namespace returns None", ns, scope), t, path, "pfn");
                    }
                }
            }
        }
    }
    // unresolved_namespaces / inherited_prefixes (normal nodes: traverse yields nothing otherwise)
    if sub.is_normal() {
        // a panic of the crate here is a failure of the property, not of the harness (seed C09h)
        let got: BTreeSet<usize> = match crate::common::guarded(|| xot.unresolved_namespaces(node)) {
            Some(v) => v.into_iter().map(ns_num).collect(),
            None => {
                fail(sink, "C09", "C09:unresolved_namespaces-panics", "unresolved_namespaces panicked on a tree built through the public API", t, path, "unresolved");
                return;
            }
        };
        let (aware, blind) = expected_unresolved(vocab, sub);
        for ns in got.difference(&aware) {
            match *ns {
                0 => fail(sink, "C09", "C09:unresolved_namespaces-reports-no-namespace", "the no-namespace id is reported as an unresolved namespace (unprefixed element or attribute without a namespace)", t, path, "unresolved"),
                1 => fail(sink, "C09", "C09:unresolved_namespaces-reports-xml-namespace", "the XML namespace is reported as unresolved for an xml:* attribute (the name stack starts without the base xml binding)", t, path, "unresolved"),
                n => fail(sink, "C09", "C09:unresolved_namespaces-extra", &format!("namespace {} reported but resolvable inside the subtree", n), t, path, "unresolved"),
            }
        }
        for ns in aware.difference(&got) {
            if blind.contains(ns) {
                fail(sink, "C09", "C09:unresolved_namespaces-missing", &format!("namespace {} is used without any binding inside the subtree but is not reported", ns), t, path, "unresolved");
            } else {
                fail(sink, "C09", "C09:unresolved_namespaces-misses-attribute-namespace-bound-only-as-default", &format!("namespace {} of an attribute is bound inside the subtree only as the default namespace (unusable for attributes) and is not reported", ns), t, path, "unresolved");
            }
        }
        let inh: Scope = match crate::common::guarded(|| xot.inherited_prefixes(node)) {
            Some(v) => v.into_iter().map(|(p, n)| (prefix_num(p), ns_num(n))).collect(),
            None => {
                fail(sink, "C09", "C09:inherited_prefixes-panics", "inherited_prefixes panicked on a tree built through the public API", t, path, "inherited");
                return;
            }
        };
        let parent_scope: Scope = if path.is_empty() { Scope::new() } else { resolve(t, &path[..path.len() - 1]) };
        for (p, n) in &inh {
            if parent_scope.get(p) != Some(n) {
                fail(sink, "C09", "C09:inherited_prefixes-not-in-parent-scope", &format!("({}, {}) is not a binding in scope at the parent", p, n), t, path, "inherited");
            }
        }
        // needed: the bindings in scope at the parent whose namespace some name of the subtree
        // cannot be written with (an attribute name may still be unable to use a default binding
        // listed here; the filter is by namespace)
        let want: Scope = parent_scope.iter().filter(|(_, n)| aware.contains(n)).map(|(p, n)| (*p, *n)).collect();
        if inh != want {
            let extra: Vec<(usize, usize)> = inh.iter().filter(|(p, _)| !want.contains_key(p)).map(|(p, n)| (*p, *n)).collect();
            let lacking: Vec<(usize, usize)> = want.iter().filter(|(p, _)| !inh.contains_key(p)).map(|(p, n)| (*p, *n)).collect();
            for (p, n) in &extra {
                match *n {
                    1 => fail(sink, "C09", "C09:inherited_prefixes-includes-xml-binding", "a binding to the XML namespace is reported as inherited-and-needed because unresolved_namespaces reports the XML namespace", t, path, "inherited"),
                    0 => fail(sink, "C09", "C09:inherited_prefixes-includes-no-namespace-binding", "a prefix bound to the no-namespace id is reported as needed because unresolved_namespaces reports the no-namespace id", t, path, "inherited"),
                    _ => fail(sink, "C09", "C09:inherited_prefixes-extra", &format!("({}, {}) is not needed by the subtree", p, n), t, path, "inherited"),
                }
            }
            for (p, n) in &lacking {
                if blind.contains(n) {
                    fail(sink, "C09", "C09:inherited_prefixes-missing", &format!("({}, {}) is needed by the subtree and not reported", p, n), t, path, "inherited");
                } else {
                    fail(sink, "C09", "C09:inherited_prefixes-misses-prefix-needed-by-attribute", &format!("({}, {}) is needed by an attribute whose namespace is bound inside the subtree only as default namespace", p, n), t, path, "inherited");
                }
            }
        }
    }
    // qualified names (full_name / name_ref / node_name_ref), by the rule for the node's kind
    crate::scope_names::check_names(sink, xot, vocab, t, path, node, &scope, redeclared);
}

// ---------------------------------------------------------------------------------------------
// C15

/// `after` is `before` with some namespace-node children deleted and nothing else changed.
fn only_ns_deleted(before: &GTree, after: &GTree) -> Result<(), &'static str> {
    if before.v != after.v {
        return Err("C15:non-namespace-node-changed");
    }
    let mut j = 0;
    for k in &before.kids {
        if j < after.kids.len() {
            let a = &after.kids[j];
            if matches!(k.v, GValue::Namespace(..)) {
                if a.v == k.v {
                    only_ns_deleted(k, a)?;
                    j += 1;
                }
                // else: this declaration was deleted (or altered: caught below as a leftover)
                continue;
            }
            only_ns_deleted(k, a)?;
            j += 1;
        } else if !matches!(k.v, GValue::Namespace(..)) {
            return Err("C15:non-namespace-node-changed");
        }
    }
    if j != after.kids.len() {
        return Err("C15:declaration-added-or-altered");
    }
    Ok(())
}

/// Some prefix is declared twice on a root-to-node path (or `xml` is declared at all).
fn has_shadowing(t: &GTree, above: &mut Vec<usize>) -> bool {
    let d = decls_of(t);
    let n0 = above.len();
    let mut found = false;
    for (p, _) in &d {
        if above.contains(p) {
            found = true;
        }
        above.push(*p);
    }
    if !found {
        for k in &t.kids {
            if has_shadowing(k, above) {
                found = true;
                break;
            }
        }
    }
    above.truncate(n0);
    found
}

/// Some attribute is in a namespace declared as default namespace on its element or above
/// (inside `t`): the DeduplicateTracker of the code before d434a2d set a flag here.  Input statistic
/// only (the shape on which the old second-call defect depended).
fn sets_tracker_flag(vocab: &Vocab, t: &GTree, defaults: &mut Vec<usize>) -> bool {
    let n0 = defaults.len();
    let mut found = false;
    if matches!(t.v, GValue::Element(_)) {
        // NodeMap::get: the first declaration of the empty prefix
        if let Some((_, n)) = decls_of(t).iter().find(|(p, _)| *p == 0) {
            defaults.push(*n);
        }
        for k in t.kids.iter().skip_while(|k| matches!(k.v, GValue::Namespace(..))) {
            match k.v {
                GValue::Attribute(a, _) => {
                    if defaults.contains(&vocab.names[a].1) {
                        found = true;
                    }
                }
                _ => break,
            }
        }
    }
    if !found {
        found = t.kids.iter().any(|k| sets_tracker_flag(vocab, k, defaults));
    }
    defaults.truncate(n0);
    found
}

/// Some element declares a prefix twice, or a prefix declared above is bound to ANOTHER namespace
/// further down the path.  Input statistic only (the shape on which the old second-call defect depended).
fn has_rebinding(t: &GTree, above: &mut Vec<(usize, usize)>) -> bool {
    let n0 = above.len();
    let mut found = false;
    if matches!(t.v, GValue::Element(_)) {
        let d = decls_of(t);
        for (i, (p, n)) in d.iter().enumerate() {
            if d[..i].iter().any(|(q, _)| q == p) || above.iter().any(|(q, m)| q == p && m != n) {
                found = true;
            }
        }
        above.extend(d);
    }
    if !found {
        found = t.kids.iter().any(|k| has_rebinding(k, above));
    }
    above.truncate(n0);
    found
}

/// Declarations of every non-namespace node in raw document order (`declsOf` of the Lean side).
fn decls_per_node(t: &GTree, out: &mut Vec<Vec<(usize, usize)>>) {
    out.push(decls_of(t));
    for k in &t.kids {
        if !matches!(k.v, GValue::Namespace(..)) {
            decls_per_node(k, out);
        }
    }
}

fn subtree_at<'a>(t: &'a GTree, path: &[usize]) -> Option<&'a GTree> {
    match path.split_first() {
        None => Some(t),
        Some((i, rest)) => t.kids.get(*i).and_then(|k| subtree_at(k, rest)),
    }
}

/// Some element declares a prefix twice (not constructible through the namespace map).
fn has_duplicate_prefix(t: &GTree) -> bool {
    let d = decls_of(t);
    d.iter().enumerate().any(|(i, (p, _))| d[..i].iter().any(|(q, _)| q == p)) || t.kids.iter().any(has_duplicate_prefix)
}

fn has_prefix_bound_to_empty_uri(t: &GTree) -> bool {
    matches!(t.v, GValue::Namespace(p, 0) if p != 0) || t.kids.iter().any(has_prefix_bound_to_empty_uri)
}

fn strip_ns(t: &GTree) -> GTree {
    GTree::new(t.v.clone(), t.kids.iter().filter(|k| !matches!(k.v, GValue::Namespace(..))).map(strip_ns).collect())
}

#[allow(clippy::too_many_arguments)]
pub fn check_dedup(sink: &mut Sink, xot: &mut Xot, vocab: &mut Vocab, t: &GTree, path: &[usize], root: Node, node: Node, after: &GTree, before_str: Option<Result<String, Error>>, before_node_str: Option<Result<String, Error>>) {
    if let Err(sig) = only_ns_deleted(t, after) {
        fail(sink, "C15", sig, "deduplicate_namespaces changed something other than deleting namespace declarations", t, path, "dedup");
    }
    // serialisation
    match before_str {
        Some(Ok(s)) => {
            sink.stat("dedup.serialised-before");
            if !has_shadowing(t, &mut vec![1]) {
                sink.stat("dedup.serialised-before.no-shadowing");
                if !path.is_empty() {
                    sink.stat("dedup.serialised-before.no-shadowing.inner-call");
                }
            }
            match crate::common::guarded(|| xot.to_string(root)) {
                Some(Ok(s2)) => {
                    // the original, as a document without its declarations
                    let orig = match t.v {
                        GValue::Document => Some(strip_ns(t)),
                        GValue::Element(_) => Some(GTree::new(GValue::Document, vec![strip_ns(t)])),
                        _ => None,
                    };
                    let d1 = xot.parse(&s);
                    let d2 = xot.parse(&s2);
                    match (orig, d1, d2) {
                        (Some(orig), Ok(d1), Ok(d2)) => {
                            let g1 = strip_ns(&read_tree(xot, vocab, d1));
                            let g2 = strip_ns(&read_tree(xot, vocab, d2));
                            if g1 != orig {
                                // the text written before dedup already misrepresents the tree (C10's
                                // business: e.g. a no-namespace element under a default namespace)
                                sink.stat("dedup.before-text-does-not-reparse-to-the-tree");
                            } else {
                                sink.stat("dedup.reparsed");
                                if g2 != orig || !xot.deep_equal(d1, d2) {
                                    if has_prefix_bound_to_empty_uri(t) {
                                        fail(sink, "C15", "C15:undeclaration-removed-because-a-prefix-is-bound-to-empty-uri", &format!("xmlns=\"\" is dropped as redundant because some xmlns:p=\"\" above makes the no-namespace id 'known'; before: {} after: {}", s, s2), t, path, "dedup");
                                    } else {
                                        fail(sink, "C15", "C15:reparse-differs-after-dedup", &format!("before: {} after: {}", s, s2), t, path, "dedup");
                                    }
                                }
                            }
                        }
                        (Some(_), Ok(_), Err(_)) => fail(sink, "C15", "C15:output-unparseable-after-dedup", &format!("before: {} after: {}", s, s2), t, path, "dedup"),
                        (_, Err(xot::ParseError::InvalidNamespaceDeclaration(..)), _) if has_prefix_bound_to_empty_uri(t) => {
                            // xmlns:p="" (API only) is written as it is and rejected by the parser
                            sink.stat("dedup.before-text-rejected.prefix-bound-to-empty-uri")
                        }
                        _ => sink.stat("dedup.before-text-not-a-document"),
                    }
                }
                Some(Err(e)) => {
                    // one failure per mechanism (scope_dedup_class.rs): which kind of name lost its
                    // prefix, how the namespace was known above the removed declaration, why that does
                    // not help the name
                    let (mut lost, _) = crate::scope_dedup_class::classify(vocab, t, after, None, path);
                    if lost.is_empty() {
                        lost.push("no-name-lost-its-prefix".to_string());
                    }
                    // C15_serialises (Lean): impossible for every tree and call node; there are no known
                    // classes any more, every class is a finding
                    let head = "C15:serialisation-fails-after-dedup";
                    for class in lost {
                        fail(sink, "C15", &format!("{}:{}", head, class), &format!("to_string succeeded before ({}) and fails after deduplicate_namespaces with {:?}", s, e), t, path, "dedup");
                    }
                }
                None => fail(sink, "C15", "C15:serialisation-panics-after-dedup", "to_string panics after deduplicate_namespaces", t, path, "dedup"),
            }
        }
        Some(Err(_)) => sink.stat("dedup.not-serialisable-before"),
        None => sink.stat("dedup.serialise-before-panicked"),
    }
    // C15_keeps_undeclarations (Lean): node by node, a binding to the no-namespace id stays
    // (given unique prefixes per element in the call's subtree)
    if let Some(sub) = subtree_at(t, path) {
        if !has_duplicate_prefix(sub) {
            let (mut b, mut a) = (vec![], vec![]);
            decls_per_node(t, &mut b);
            decls_per_node(after, &mut a);
            if b.len() == a.len() {
                sink.stat("dedup.undeclarations-compared");
                for (db, da) in b.iter().zip(a.iter()) {
                    for d in db.iter().filter(|d| d.1 == 0) {
                        sink.stat(if d.0 == 0 { "dedup.undeclaration-present" } else { "dedup.prefix-bound-to-empty-uri-present" });
                        if !da.contains(d) {
                            fail(sink, "C15", "C15:binding-to-no-namespace-removed", &format!("xmlns{}=\"\" was removed", if d.0 == 0 { String::new() } else { format!(":{}", d.0) }), t, path, "dedup");
                        }
                    }
                }
            }
        }
    }
    // to_string(node) of the call node itself (C15_serialises_call_node)
    if !path.is_empty() {
        if let Some(Ok(sn)) = &before_node_str {
            sink.stat("dedup.call-node-serialised-before");
            match crate::common::guarded(|| xot.to_string(node)) {
                Some(Ok(_)) => sink.stat("dedup.call-node-serialised-after"),
                Some(Err(e)) => fail(sink, "C15", "C15:serialisation-of-call-node-fails-after-dedup", &format!("to_string(node) succeeded before ({}) and fails after deduplicate_namespaces(node) with {:?}", sn, e), t, path, "dedup"),
                None => fail(sink, "C15", "C15:serialisation-panics-after-dedup", "to_string(node) panics after deduplicate_namespaces", t, path, "dedup"),
            }
        }
    }
    // a second call removes nothing (C15_idem: every tree, every call node); the shape statistics of
    // the old partial theorem are kept as input statistics
    let idem_guards = match subtree_at(t, path) {
        Some(sub) => !has_rebinding(sub, &mut vec![]) && !sets_tracker_flag(vocab, sub, &mut vec![]),
        None => false,
    };
    if idem_guards {
        sink.stat("dedup.idem-guards-hold");
        if after != t {
            sink.stat("dedup.idem-guards-hold.first-call-removed-something");
        }
    } else if after != t {
        sink.stat("dedup.rebinding-or-flag.first-call-removed-something");
    }
    if crate::common::guarded(|| xot.deduplicate_namespaces(node)).is_some() {
        let again = read_tree(xot, vocab, root);
        if &again != after {
            let (_, mut second) = crate::scope_dedup_class::classify(vocab, t, after, Some(&again), path);
            if second.is_empty() {
                second.push("unclassified".to_string());
            }
            for class in second {
                fail(sink, "C15", &format!("C15:second-call-removes-more:{}", class), "a second deduplicate_namespaces call on the same node removes further declarations", t, path, "dedup");
            }
        }
    }
}
