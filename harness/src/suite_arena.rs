//! Suite `arena` (C04 / C06 / C07): random histories of calls on a real `indextree::Arena<u32>`
//! (the crate xot stores its nodes in), with live, removed, stale (slot reused since) and
//! foreign (from another, bigger arena) ids.  One request line = one history; after every
//! mutating call the whole arena is dumped (every slot: five pointers, stamp, removed flag /
//! payload / free-list link; the two free-list heads), iterator results are taken from every slot.
//! The pointer-level model (`Model/Arena*.lean`) replays the history and must print the same line.
//!
//! What `indextree` does not make public (stamps, the `NextFree` links, the free-list heads) is
//! read from the `Debug` output of `NodeId`, `Node` and `Arena`.
//!
//! Oracles (on the implementation, independent of the model):
//!   C06  a refused `checked_*` call leaves the arena (its `Debug` text) unchanged;
//!   C04  a call with live arguments on a valid arena, outside the three documented ways of
//!        leaving the list semantics (sibling insertion of an ancestor, sibling insertion next
//!        to a parentless node, `remove` of a parentless node with two or more children) and
//!        outside the documented `checked_prepend` panic (prepending the first child again),
//!        does not panic and leaves a valid arena (`validate`, written against the accessors);
//!   C04  `is_removed` of an id whose node was removed is true for ever (stamp below 32767).
use crate::arena_obs::*;
use crate::common::{guarded, Rng, Sink};
use indextree::{Arena, NodeEdge, NodeId};

// ---------------------------------------------------------------- termination guard

/// Does the call end?  It is first run on a clone in a helper thread; no answer within a second
/// means the crate is looping over a pointer cycle (every call on these arenas takes
/// microseconds).  The helper thread of an endless call is left behind until the process exits.
fn terminates(a: &A, f: impl FnOnce(&mut A) + Send + 'static) -> bool {
    let mut c = a.clone();
    let (tx, rx) = std::sync::mpsc::channel();
    std::thread::spawn(move || {
        let _ = std::panic::catch_unwind(std::panic::AssertUnwindSafe(|| f(&mut c)));
        let _ = tx.send(());
    });
    rx.recv_timeout(std::time::Duration::from_millis(1000)).is_ok()
}

fn call1(op: &str, x: NodeId, a: &mut A) {
    match op { "det" => x.detach(a), "rm" => x.remove(a), _ => x.remove_subtree(a) }
}

fn call2(op: &str, x: NodeId, y: NodeId, a: &mut A) -> Result<(), indextree::NodeError> {
    match op {
        "app" => x.checked_append(y, a),
        "pre" => x.checked_prepend(y, a),
        "ia" => x.checked_insert_after(y, a),
        "ib" => x.checked_insert_before(y, a),
        "uapp" => { x.append(y, a); Ok(()) }
        "upre" => { x.prepend(y, a); Ok(()) }
        "uia" => { x.insert_after(y, a); Ok(()) }
        _ => { x.insert_before(y, a); Ok(()) }
    }
}

// ---------------------------------------------------------------- session

struct Sess {
    a: A,
    ids: Vec<NodeId>,      // every id new_node ever returned, in order
    foreign: Vec<NodeId>,  // ids of another arena (some out of range here)
    removed_seen: Vec<NodeId>, // ids observed removed (is_removed true) with stamp < 32767
    reqs: Vec<String>,
    resps: Vec<String>,
    corrupt_steps: usize,
    stop: bool,
    max_stamp: i64,
    double_free: bool, // remove / remove_subtree was called on an id whose slot is free: outside every contract
    ref_live: bool,    // still inside the fragment on which the refinement to the forest model is checked
    ref_checked: usize,
}

#[derive(Clone, Copy, PartialEq)]
enum Class { Live, Removed, Stale, Foreign }

fn class_name(c: Class) -> &'static str {
    match c { Class::Live => "live", Class::Removed => "removed", Class::Stale => "stale", Class::Foreign => "foreign" }
}

impl Sess {
    fn new(rng: &mut Rng) -> Self {
        // the foreign arena: 24 slots, some reused so that stamps vary
        let mut other: A = Arena::new();
        let mut f = Vec::new();
        for k in 0..24u32 { f.push(other.new_node(1000 + k)); }
        for k in 0..8 { f[k * 3].remove(&mut other); }
        for k in 0..8u32 { f.push(other.new_node(2000 + k)); }
        let _ = rng;
        Sess { a: Arena::new(), ids: vec![], foreign: f, removed_seen: vec![], reqs: vec![], resps: vec![],
            corrupt_steps: 0, stop: false, max_stamp: 0, double_free: false, ref_live: true, ref_checked: 0 }
    }

    fn classify(&self, id: NodeId) -> Class {
        let (i1, st) = id_parts(id);
        if !self.ids.contains(&id) { return Class::Foreign; }
        match self.a.get(id) {
            None => Class::Foreign,
            Some(n) => {
                let (cur, _) = slot_private(n);
                let _ = i1;
                if cur == st { Class::Live } else if cur < 0 { Class::Removed } else { Class::Stale }
            }
        }
    }

    fn of_class(&self, c: Class) -> Vec<NodeId> {
        if c == Class::Foreign { return self.foreign.clone(); }
        self.ids.iter().copied().filter(|id| self.classify(*id) == c).collect()
    }

    /// draw an argument: weights (live, removed, stale, foreign)
    fn arg(&self, rng: &mut Rng, w: [usize; 4]) -> Option<NodeId> {
        let classes = [Class::Live, Class::Removed, Class::Stale, Class::Foreign];
        let pools: Vec<Vec<NodeId>> = classes.iter().map(|c| self.of_class(*c)).collect();
        let total: usize = (0..4).filter(|k| !pools[*k].is_empty()).map(|k| w[k]).sum();
        if total == 0 { return None; }
        let mut r = rng.below(total);
        for k in 0..4 {
            if pools[k].is_empty() { continue; }
            if r < w[k] { return Some(*rng.pick(&pools[k])); }
            r -= w[k];
        }
        None
    }

    fn latest_per_slot(&self) -> Vec<NodeId> {
        let mut out: Vec<Option<NodeId>> = vec![None; self.a.count()];
        for id in &self.ids { let i: usize = (*id).into(); if i <= out.len() { out[i - 1] = Some(*id); } }
        out.into_iter().flatten().collect()
    }

    /// A mutating call is about to be recorded: does the run-time refinement check (`arena refine`)
    /// cover it?  It does while every mutating call so far had live arguments and stayed inside
    /// the forest model's list semantics.
    fn ref_note(&mut self, all_live: bool, leaves: bool) {
        if self.ref_live {
            if !all_live || leaves { self.ref_live = false; } else { self.ref_checked += 1; }
        }
    }

    fn push(&mut self, req: String, resp: String) {
        self.reqs.push(req);
        self.resps.push(resp);
    }

    fn after_mutation(&mut self, sink: &mut Sink, what: &str) {
        let ok = validate(&self.a);
        self.push("wf".to_string(), format!("ok {}", ok));
        if !ok {
            if self.corrupt_steps == 0 { sink.stat(&format!("corrupt.by.{}", what)); }
            self.corrupt_steps += 1;
            self.stop = true; // calls on an arena with pointer cycles may not end
        }
        for n in self.a.iter() { let (s, _) = slot_private(n); if s.abs() > self.max_stamp { self.max_stamp = s.abs(); } }
        // C04 oracle: removed for ever
        let seen = if self.double_free { vec![] } else { self.removed_seen.clone() };
        for id in seen {
            if guarded(|| id.is_removed(&self.a)) == Some(false) {
                let h = self.reqs.clone();
                sink.fail("C04", "C04:arena-is_removed-revived", &format!("{} was removed and is reported live again", wid(id)), &h);
            }
        }
        let ids = self.ids.clone();
        for id in ids {
            let (_, st) = id_parts(id);
            if st < 32767 && !self.removed_seen.contains(&id) && guarded(|| id.is_removed(&self.a)) == Some(true) {
                self.removed_seen.push(id);
            }
        }
    }
}

const LIM_MUL: usize = 2;

fn limit(a: &A) -> usize { LIM_MUL * a.count() + 3 }

fn wids(v: &[NodeId]) -> String {
    if v.is_empty() { "-".to_string() } else { v.iter().map(|x| wid(*x)).collect::<Vec<_>>().join(",") }
}

fn wedges(v: &[NodeEdge]) -> String {
    if v.is_empty() { return "-".to_string(); }
    v.iter().map(|e| match e { NodeEdge::Start(n) => format!("S{}", wid(*n)), NodeEdge::End(n) => format!("E{}", wid(*n)) })
        .collect::<Vec<_>>().join(",")
}

#[allow(deprecated)]
fn run_iter(a: &A, kind: &str, id: NodeId) -> String {
    let l = limit(a);
    let ids = |r: Option<Vec<NodeId>>| match r { Some(v) => format!("ok {}", wids(&v)), None => "panic".to_string() };
    let edges = |r: Option<Vec<NodeEdge>>| match r { Some(v) => format!("ok {}", wedges(&v)), None => "panic".to_string() };
    match kind {
        "anc" => ids(guarded(|| id.ancestors(a).take(l).collect())),
        "pred" => ids(guarded(|| id.predecessors(a).take(l).collect())),
        "chi" => ids(guarded(|| id.children(a).take(l).collect())),
        "chirev" => ids(guarded(|| id.children(a).rev().take(l).collect())),
        "rchi" => ids(guarded(|| id.reverse_children(a).take(l).collect())),
        "fol" => ids(guarded(|| id.following_siblings(a).take(l).collect())),
        "prec" => ids(guarded(|| id.preceding_siblings(a).take(l).collect())),
        "trav" => edges(guarded(|| id.traverse(a).take(l).collect())),
        "rtrav" => edges(guarded(|| id.reverse_traverse(a).take(l).collect())),
        "desc" => {
            match guarded(|| id.traverse(a).take(l).collect::<Vec<_>>()) {
                None => "panic".to_string(),
                Some(es) => if es.len() >= l { "long".to_string() } else { ids(guarded(|| id.descendants(a).collect())) }
            }
        }
        _ => unreachable!(),
    }
}

const KINDS: [&str; 10] = ["anc", "pred", "chi", "chirev", "rchi", "fol", "prec", "trav", "rtrav", "desc"];

fn do_iters(s: &mut Sess, rng: &mut Rng, sink: &mut Sink) {
    let mut ids = s.latest_per_slot();
    for _ in 0..2 { if let Some(x) = s.arg(rng, [0, 1, 3, 1]) { ids.push(x); } }
    if ids.is_empty() { return; }
    let req = format!("iters {}", ids.iter().map(|x| wid(*x)).collect::<Vec<_>>().join(" "));
    let resp = ids.iter().map(|id| KINDS.iter().map(|k| run_iter(&s.a, k, *id)).collect::<Vec<_>>().join(" "))
        .collect::<Vec<_>>().join(" / ");
    sink.stat_n("iters.ids", ids.len() as u64);
    // C07-side oracle on a valid arena: no iterator from a live node yields a removed id
    if validate(&s.a) {
        for id in &ids {
            if s.classify(*id) != Class::Live { continue; }
            for k in ["anc", "chi", "rchi", "fol", "prec", "desc"] {
                let l = limit(&s.a);
                #[allow(deprecated)]
                let v: Vec<NodeId> = match k {
                    "anc" => id.ancestors(&s.a).take(l).collect(),
                    "chi" => id.children(&s.a).take(l).collect(),
                    "rchi" => id.reverse_children(&s.a).take(l).collect(),
                    "fol" => id.following_siblings(&s.a).take(l).collect(),
                    "prec" => id.preceding_siblings(&s.a).take(l).collect(),
                    _ => id.descendants(&s.a).take(l).collect(),
                };
                if v.iter().any(|x| x.is_removed(&s.a)) {
                    let h = s.reqs.clone();
                    sink.fail("C07", "C07:arena-iterator-yields-removed", &format!("{} from {}", k, wid(*id)), &h);
                }
            }
        }
    }
    s.push(req, resp);
}

/// The forest model's documented exits from the list semantics, and the documented panic.
fn known_exception(a: &A, op: &str, x: NodeId, y: Option<NodeId>) -> Option<&'static str> {
    match (op, y) {
        ("ia", Some(n)) | ("ib", Some(n)) | ("uia", Some(n)) | ("uib", Some(n)) => {
            if x == n { return None; }
            if x.ancestors(a).take(a.count() + 1).any(|z| z == n) { return Some("sibling-insert-of-ancestor"); }
            if a[x].parent().is_none() { return Some("sibling-insert-next-to-root"); }
            None
        }
        ("pre", Some(c)) | ("upre", Some(c)) => {
            if a[x].first_child() == Some(c) { Some("prepend-first-child-again") } else { None }
        }
        ("rm", None) => {
            if a[x].parent().is_none() && x.children(a).take(3).count() >= 2 { Some("remove-root-with-children") } else { None }
        }
        _ => None,
    }
}

fn step(s: &mut Sess, rng: &mut Rng, sink: &mut Sink, w: [usize; 4], cap: usize, avoid_known: bool) {
    // choose an op
    let live = s.of_class(Class::Live).len();
    let r = rng.below(100);
    let op: &str = if s.ids.is_empty() || (live < 2 && r < 60) { "new" }
        else if r < 14 { if s.a.count() < cap || free_heads(&s.a).0.is_some() { "new" } else { "rm" } }
        else if r < 30 { "app" } else if r < 38 { "pre" } else if r < 47 { "ia" } else if r < 55 { "ib" }
        else if r < 62 { "det" } else if r < 72 { "rm" } else if r < 80 { "rms" }
        else if r < 82 { "uapp" } else if r < 83 { "upre" } else if r < 84 { "uia" } else if r < 85 { "uib" }
        else if r < 88 { "isrem" } else if r < 90 { "val" } else if r < 92 { "set" } else if r < 94 { "get" }
        else if r < 95 { "idat" } else if r < 96 { "count" } else if r < 98 { "it" } else { "iters" };
    sink.stat(&format!("op.{}", op));
    if std::env::var("XOT_ARENA_TRACE").is_ok() { eprintln!("op {} after [{}]", op, s.reqs.join(" ; ")); }
    let valid_before = s.corrupt_steps == 0;
    match op {
        "new" => {
            let v = rng.below(1000) as u32;
            let id = s.a.new_node(v);
            s.ids.push(id);
            let (_, st) = id_parts(id);
            if st > 0 { sink.stat("new.reused-slot"); }
            s.ref_note(true, false);
            s.push(format!("new {}", v), format!("ok {} {}", wid(id), dump(&s.a)));
            s.after_mutation(sink, "new");
        }
        "det" | "rm" | "rms" => {
            let x = match s.arg(rng, w) { Some(x) => x, None => return };
            let cx = s.classify(x);
            sink.stat(&format!("arg.{}.{}", op, class_name(cx)));
            let req = format!("{} {}", op, wid(x));
            if cx != Class::Live {
                let o = op.to_string();
                if !terminates(&s.a, move |a| call1(&o, x, a)) {
                    sink.stat(&format!("diverge.{}.{}", op, class_name(cx)));
                    // the loop never ends: the model must say so; the arena reached is not observable
                    s.ref_live = false;
                    s.push(format!("div {}", req), "diverge".to_string());
                    s.stop = true;
                    return;
                }
            }
            let known = if cx == Class::Live && valid_before && op == "rm" { known_exception(&s.a, op, x, None) } else { None };
            if known.is_some() && avoid_known && !rng.chance(1, 8) { sink.stat("skipped.known-exit"); return; }
            s.ref_note(cx == Class::Live, known.is_some());
            if op != "det" && cx != Class::Live && cx != Class::Stale { s.double_free = true; sink.stat("double-free-call"); }
            let r = guarded(|| call1(op, x, &mut s.a));
            let res = if r.is_some() { "ok" } else { "panic" };
            sink.stat(&format!("res.{}.{}.{}", op, class_name(cx), res));
            s.push(req, format!("{} {}", res, dump(&s.a)));
            s.after_mutation(sink, &format!("{}.{}", op, class_name(cx)));
            if let Some(k) = known { sink.stat(&format!("known.{}", k)); }
            if cx == Class::Live && valid_before && known.is_none() && (r.is_none() || s.corrupt_steps > 0) {
                let h = s.reqs.clone();
                sink.fail("C04", "C04:arena-invalid-after-live-call", &format!("{} on a live node: {}", op, res), &h);
            }
        }
        "app" | "pre" | "ia" | "ib" | "uapp" | "upre" | "uia" | "uib" => {
            let x = match s.arg(rng, w) { Some(x) => x, None => return };
            let mut y = if rng.chance(1, 25) { x } else { match s.arg(rng, w) { Some(y) => y, None => return } };
            if y == x && rng.chance(4, 5) { y = match s.arg(rng, w) { Some(y) => y, None => return }; }
            let (cx, cy) = (s.classify(x), s.classify(y));
            sink.stat(&format!("arg.{}.{}-{}", op, class_name(cx), class_name(cy)));
            let req = format!("{} {} {}", op, wid(x), wid(y));
            if cx != Class::Live || cy != Class::Live {
                let o = op.to_string();
                if !terminates(&s.a, move |a| { let _ = call2(&o, x, y, a); }) {
                    sink.stat(&format!("diverge.{}.{}-{}", op, class_name(cx), class_name(cy)));
                    s.ref_live = false;
                    s.push(format!("div {}", req), "diverge".to_string());
                    s.stop = true;
                    return;
                }
            }
            let all_live = cx == Class::Live && cy == Class::Live && valid_before;
            let known = if all_live { known_exception(&s.a, op, x, Some(y)) } else { None };
            if known.is_some() && avoid_known && !rng.chance(1, 8) { sink.stat("skipped.known-exit"); return; }
            s.ref_note(cx == Class::Live && cy == Class::Live,
                matches!(known, Some("sibling-insert-of-ancestor") | Some("sibling-insert-next-to-root")));
            let before = format!("{:?}", s.a);
            let checked = !op.starts_with('u');
            let r: Option<Result<(), indextree::NodeError>> = guarded(|| call2(op, x, y, &mut s.a));
            let res = match &r { None => "panic".to_string(), Some(Ok(())) => "ok".to_string(), Some(Err(e)) => format!("err:{:?}", e) };
            sink.stat(&format!("res.{}.{}", op, res));
            if checked {
                if let Some(Err(_)) = &r {
                    if format!("{:?}", s.a) != before {
                        let h = s.reqs.clone();
                        sink.fail("C06", "C06:arena-refusal-changed", &format!("{} refused ({}) but the arena changed", req, res), &h);
                    }
                }
            }
            s.push(req, format!("{} {}", res, dump(&s.a)));
            s.after_mutation(sink, &format!("{}.{}-{}", op, class_name(cx), class_name(cy)));
            if let Some(k) = known { sink.stat(&format!("known.{}", k)); }
            if all_live && known.is_none() && (r.is_none() && checked || s.corrupt_steps > 0) {
                let h = s.reqs.clone();
                sink.fail("C04", "C04:arena-invalid-after-live-call", &format!("{} with live arguments: {}", op, res), &h);
            }
        }
        "isrem" | "val" | "get" => {
            let x = match s.arg(rng, [3, 3, 3, 1]) { Some(x) => x, None => return };
            sink.stat(&format!("arg.{}.{}", op, class_name(s.classify(x))));
            let resp = match op {
                "isrem" => guarded(|| x.is_removed(&s.a)).map(|b| format!("ok {}", b)).unwrap_or_else(|| "panic".into()),
                "val" => guarded(|| *s.a[x].get()).map(|v| format!("ok {}", v)).unwrap_or_else(|| "panic".into()),
                _ => match s.a.get(x) { None => "none".to_string(), Some(n) => format!("some {}", wslot(n)) },
            };
            s.push(format!("{} {}", op, wid(x)), resp);
        }
        "set" => {
            let x = match s.arg(rng, [4, 2, 2, 1]) { Some(x) => x, None => return };
            let v = rng.below(1000) as u32;
            let live = s.classify(x) == Class::Live;
            s.ref_note(live, false);
            let r = guarded(|| { *s.a.get_mut(x).unwrap().get_mut() = v; });
            s.push(format!("set {} {}", wid(x), v), format!("{} {}", if r.is_some() { "ok" } else { "panic" }, dump(&s.a)));
        }
        "idat" => {
            let i = 1 + rng.below(s.a.count() + 2);
            let r = s.a.get_node_id_at(std::num::NonZeroUsize::new(i).unwrap());
            s.push(format!("idat {}", i), match r { None => "none".to_string(), Some(id) => format!("some {}", wid(id)) });
        }
        "count" => { let c = s.a.count(); s.push("count".to_string(), format!("ok {}", c)); }
        "it" => {
            let x = match s.arg(rng, [3, 2, 2, 1]) { Some(x) => x, None => return };
            let k = *rng.pick(&KINDS);
            sink.stat(&format!("it.{}.{}", k, class_name(s.classify(x))));
            let resp = run_iter(&s.a, k, x);
            s.push(format!("it {} {}", k, wid(x)), resp);
        }
        _ => do_iters(s, rng, sink),
    }
}

fn finish(s: Sess, sink: &mut Sink) {
    sink.stat(&format!("history.max-generation.{}", if s.max_stamp >= 6 { "6+".to_string() } else { s.max_stamp.to_string() }));
    sink.stat(if s.corrupt_steps > 0 { "history.left-list-semantics" } else { "history.valid-throughout" });
    sink.stat_n("calls", s.reqs.len() as u64);
    sink.emit(format!("arena hist {}", s.reqs.join(" ; ")), s.resps.join(" ; "));
    // the same history again: refinement to the forest model, checked by the model side at run time
    sink.stat_n("refine.calls-checked", s.ref_checked as u64);
    sink.emit(format!("arena refine {}", s.reqs.join(" ; ")), format!("ok {}", s.ref_checked));
}

fn history(rng: &mut Rng, sink: &mut Sink, profile: usize) {
    let mut s = Sess::new(rng);
    // profile 0: live arguments only; 1: mixed; 2: small arena, heavy reuse, stale ids; 3: saturation;
    // 4: tiny arena, live arguments only, long: deep slot reuse on a valid arena
    let (w, cap, len): ([usize; 4], usize, usize) = match profile {
        0 => ([1, 0, 0, 0], 10, 10 + rng.below(30)),
        1 => ([12, 3, 3, 1], 9, 10 + rng.below(25)),
        2 => ([20, 3, 4, 0], 4, 20 + rng.below(30)),
        4 => ([1, 0, 0, 0], 3, 30 + rng.below(40)),
        _ => ([6, 2, 4, 0], 3, 6 + rng.below(10)),
    };
    let avoid_known = profile == 0 || profile == 4;
    sink.stat(&format!("profile.{}", profile));
    if profile == 3 {
        // bring slot 0 next to the saturation of the 15-bit stamp
        let k = *rng.pick(&[32765usize, 32766, 32767, 32768, 32770]);
        let mut last = None;
        for _ in 0..k { let id = s.a.new_node(7); id.remove(&mut s.a); last = Some(id); }
        s.ids.push(last.unwrap());
        s.ref_live = false;
        s.push(format!("churn {} 7", k), format!("ok {} {}", wid(last.unwrap()), dump(&s.a)));
        s.after_mutation(sink, "churn");
        sink.stat(&format!("churn.{}", k));
    }
    for _ in 0..len {
        if s.stop { break; }
        step(&mut s, rng, sink, w, cap, avoid_known);
        if !s.stop && rng.chance(1, 6) { do_iters(&mut s, rng, sink); }
    }
    if !s.stop || s.corrupt_steps > 0 { do_iters(&mut s, rng, sink); }
    finish(s, sink);
}

/// Small scope: every call with every pair of arguments (live, removed, stale) on three fixed arenas.
fn directed(sink: &mut Sink) {
    let builders: [&[&str]; 3] = [
        &["new", "new", "new", "new", "app 0 1", "app 0 2", "app 1 3"],
        &["new", "new", "new", "new", "new", "app 0 1", "app 0 2", "app 0 3", "rm 2", "new", "app 1 5"],
        &["new", "new", "new", "app 0 1", "app 1 2", "rms 1", "new", "new", "new", "app 3 4", "rm 3", "new"],
    ];
    let ops = ["det", "rm", "rms", "app", "pre", "ia", "ib"];
    for b in builders.iter() {
        // count ids first
        let nids = b.iter().filter(|x| **x == "new").count();
        for op in ops.iter() {
            let unary = matches!(*op, "det" | "rm" | "rms");
            for i in 0..nids {
                for j in 0..(if unary { 1 } else { nids }) {
                    let mut rng = Rng::new(1);
                    let mut s = Sess::new(&mut rng);
                    for cmd in b.iter() {
                        let p: Vec<&str> = cmd.split(' ').collect();
                        match p[0] {
                            "new" => { let v = s.ids.len() as u32; let id = s.a.new_node(v); s.ids.push(id); s.ref_note(true, false);
                                s.push(format!("new {}", v), format!("ok {} {}", wid(id), dump(&s.a))); }
                            "app" => { let (x, y) = (s.ids[p[1].parse::<usize>().unwrap()], s.ids[p[2].parse::<usize>().unwrap()]);
                                s.ref_note(true, false);
                                let _ = x.checked_append(y, &mut s.a);
                                s.push(format!("app {} {}", wid(x), wid(y)), format!("ok {}", dump(&s.a))); }
                            "rm" => { let x = s.ids[p[1].parse::<usize>().unwrap()]; s.ref_note(true, false); x.remove(&mut s.a);
                                s.push(format!("rm {}", wid(x)), format!("ok {}", dump(&s.a))); }
                            _ => { let x = s.ids[p[1].parse::<usize>().unwrap()]; s.ref_note(true, false); x.remove_subtree(&mut s.a);
                                s.push(format!("rms {}", wid(x)), format!("ok {}", dump(&s.a))); }
                        }
                    }
                    let (x, y) = (s.ids[i], s.ids[j]);
                    let req = if unary { format!("{} {}", op, wid(x)) } else { format!("{} {} {}", op, wid(x), wid(y)) };
                    let o = op.to_string();
                    {
                        let (cx, cy) = (s.classify(x), if unary { Class::Live } else { s.classify(y) });
                        let all_live = cx == Class::Live && cy == Class::Live;
                        let known = if all_live && validate(&s.a) { known_exception(&s.a, op, x, if unary { None } else { Some(y) }) } else { None };
                        s.ref_note(all_live, matches!(known, Some("sibling-insert-of-ancestor") | Some("sibling-insert-next-to-root") | Some("remove-root-with-children")));
                    }
                    if !terminates(&s.a, move |a| { if unary { call1(&o, x, a) } else { let _ = call2(&o, x, y, a); } }) {
                        sink.stat(&format!("directed.{}.diverge", op));
                        s.push(format!("div {}", req), "diverge".to_string());
                        finish(s, sink);
                        continue;
                    }
                    let r: Option<Result<(), indextree::NodeError>> = guarded(|| if unary { call1(op, x, &mut s.a); Ok(()) } else { call2(op, x, y, &mut s.a) });
                    let res = match &r { None => "panic".to_string(), Some(Ok(())) => "ok".to_string(), Some(Err(e)) => format!("err:{:?}", e) };
                    sink.stat(&format!("directed.{}.{}", op, res));
                    s.push(req, format!("{} {}", res, dump(&s.a)));
                    s.after_mutation(sink, "directed");
                    let mut rng2 = Rng::new(2);
                    do_iters(&mut s, &mut rng2, sink);
                    finish(s, sink);
                }
            }
        }
    }
}

pub fn run(seed: u64, count: usize, tier: &str, sink: &mut Sink) {
    let mut rng = Rng::new(seed ^ 0xA2E7A);
    if tier == "thorough" { directed(sink); }
    for k in 0..count {
        let profile = match k % 20 { 0..=6 => 0, 7..=11 => 1, 12..=15 => 2, 16..=18 => 4, _ => if k % 100 == 19 { 3 } else { 4 } };
        history(&mut rng, sink, profile);
    }
}
