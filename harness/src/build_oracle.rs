//! Oracles of the `build` suite, evaluated on the implementation only (the model is not
//! consulted): C02 (the parsed tree is the abstract document that was spelled), C03 (no panic,
//! faults rejected, accepted trees sound and re-serialisable), C17 (spans and error positions).
use crate::build_obs::*;
use crate::build_render::*;
use crate::common::enc;
use crate::strings::is_xml_char;
use crate::tree::*;
use std::collections::BTreeSet;
use xot::{ParseError, SpanInfoKey};

/// Reference decoder of character data / attribute values (XML 1.0 sections 2.11, 3.3.3, 4.1,
/// 4.6): `None` when the text is not well-formed.
pub fn ref_decode(s: &str, attr: bool) -> Option<String> {
    let cs: Vec<char> = s.chars().collect();
    let mut out = String::new();
    let mut i = 0;
    while i < cs.len() {
        let c = cs[i];
        if c == '\r' {
            if i + 1 < cs.len() && cs[i + 1] == '\n' {
                i += 1;
            }
            out.push(if attr { ' ' } else { '\n' });
        } else if c == '&' {
            let mut j = i + 1;
            while j < cs.len() && cs[j] != ';' {
                j += 1;
            }
            if j >= cs.len() {
                return None;
            }
            let name: String = cs[i + 1..j].iter().collect();
            let ch = match name.as_str() {
                "amp" => '&',
                "lt" => '<',
                "gt" => '>',
                "apos" => '\'',
                "quot" => '"',
                _ => {
                    let (digits, radix) = if let Some(h) = name.strip_prefix("#x") {
                        (h, 16)
                    } else if let Some(d) = name.strip_prefix('#') {
                        (d, 10)
                    } else {
                        return None;
                    };
                    if digits.is_empty() || !digits.chars().all(|d| d.is_digit(radix)) {
                        return None;
                    }
                    let mut v: u64 = 0;
                    for d in digits.chars() {
                        v = v * radix as u64 + d.to_digit(radix).unwrap() as u64;
                        if v > 0x10ffff {
                            return None;
                        }
                    }
                    let ch = char::from_u32(v as u32)?;
                    if !is_xml_char(ch) {
                        return None;
                    }
                    ch
                }
            };
            out.push(ch);
            i = j;
        } else if c == '<' {
            return None;
        } else if attr && (c == '\t' || c == '\n') {
            out.push(' ');
        } else {
            out.push(c);
        }
        i += 1;
    }
    Some(out)
}

pub fn normalise_line_ends(s: &str) -> String {
    s.replace("\r\n", "\n").replace('\r', "\n")
}

/// xml:id normalisation (https://www.w3.org/TR/xml-id/#id-avn): strip leading and trailing
/// spaces, collapse runs of spaces.
pub fn trim_collapse(s: &str) -> String {
    s.split(' ').filter(|w| !w.is_empty()).collect::<Vec<_>>().join(" ")
}

/// The raw tree (numeric ids) as an abstract forest (strings); `Err` = a structural violation.
pub fn to_abstract(vocab: &Vocab, t: &GTree, problems: &mut BTreeSet<String>) -> Vec<ANode> {
    t.kids.iter().filter_map(|k| node_abstract(vocab, k, problems)).collect()
}

fn name_strs(vocab: &Vocab, id: usize) -> (String, String) {
    let (l, ns, _) = &vocab.names[id];
    (vocab.namespaces[*ns].0.clone(), l.clone())
}

fn node_abstract(vocab: &Vocab, t: &GTree, problems: &mut BTreeSet<String>) -> Option<ANode> {
    match &t.v {
        GValue::Document => {
            problems.insert("document-node-below-root".into());
            None
        }
        GValue::Attribute(..) | GValue::Namespace(..) => {
            problems.insert("attribute-or-namespace-node-outside-element".into());
            None
        }
        GValue::Text(s) => {
            if !t.kids.is_empty() {
                problems.insert("leaf-with-children".into());
            }
            Some(ANode::Text(s.clone()))
        }
        GValue::Comment(s) => {
            if !t.kids.is_empty() {
                problems.insert("leaf-with-children".into());
            }
            Some(ANode::Comment(s.clone()))
        }
        GValue::PI(target, d) => {
            if !t.kids.is_empty() {
                problems.insert("leaf-with-children".into());
            }
            // a PI target is a bare name: the id the parser gave it must denote (target, no namespace)
            // whatever default namespace is in scope (seed C08h)
            if vocab.names[*target].1 != 0 {
                problems.insert("processing-instruction-target-in-a-namespace".into());
            }
            Some(ANode::PI(vocab.names[*target].0.clone(), d.clone()))
        }
        GValue::Element(n) => {
            let (ns, local) = name_strs(vocab, *n);
            let mut decls = vec![];
            let mut attrs = vec![];
            let mut kids = vec![];
            // 0 = namespaces, 1 = attributes, 2 = normal
            let mut phase = 0;
            let mut attr_ids: Vec<usize> = vec![];
            let mut prefix_ids: Vec<usize> = vec![];
            let mut last_text = false;
            for k in &t.kids {
                match &k.v {
                    GValue::Namespace(p, u) => {
                        if phase > 0 {
                            problems.insert("children-ill-ordered".into());
                        }
                        if prefix_ids.contains(p) {
                            problems.insert("prefix-declared-twice-accepted".into());
                        }
                        prefix_ids.push(*p);
                        decls.push((vocab.prefixes[*p].0.clone(), vocab.namespaces[*u].0.clone()));
                        last_text = false;
                    }
                    GValue::Attribute(a, v) => {
                        if phase > 1 {
                            problems.insert("children-ill-ordered".into());
                        }
                        phase = phase.max(1);
                        if attr_ids.contains(a) {
                            problems.insert("duplicate-attribute-by-expanded-name-accepted".into());
                        }
                        attr_ids.push(*a);
                        let (ans, al) = name_strs(vocab, *a);
                        attrs.push((ans, al, v.clone()));
                        last_text = false;
                    }
                    _ => {
                        phase = 2;
                        let is_text = matches!(k.v, GValue::Text(_));
                        if is_text && last_text {
                            problems.insert("adjacent-text-nodes".into());
                        }
                        last_text = is_text;
                        if let Some(a) = node_abstract(vocab, k, problems) {
                            kids.push(a);
                        }
                    }
                }
            }
            Some(ANode::Elem(AElem { ns, local, decls, attrs, kids }))
        }
    }
}

pub fn top_level_adjacent_text(t: &GTree) -> bool {
    t.kids.windows(2).any(|w| matches!(w[0].v, GValue::Text(_)) && matches!(w[1].v, GValue::Text(_)))
}

fn decode_eq(actual: &str, expected: &str) -> bool {
    actual != expected && ref_decode(actual, true).as_deref() == Some(expected)
}

/// Difference classes between the expected and the actual forest.
pub fn diff(exp: &[ANode], act: &[ANode], out: &mut BTreeSet<String>) {
    let stripped: Vec<&ANode> = act.iter().filter(|n| !matches!(n, ANode::Text(s) if s.is_empty())).collect();
    if stripped.len() != act.len() {
        out.insert("empty-cdata-makes-empty-text-node".into());
    }
    if stripped.len() != exp.len() {
        out.insert("children-differ".into());
        return;
    }
    for (e, a) in exp.iter().zip(stripped.into_iter()) {
        match (e, a) {
            (ANode::Text(x), ANode::Text(y)) => {
                if x != y {
                    if normalise_line_ends(y) == normalise_line_ends(x) {
                        out.insert("cdata-line-ends-not-normalised".into());
                    } else {
                        out.insert("text-value-differs".into());
                    }
                }
            }
            (ANode::Comment(x), ANode::Comment(y)) => {
                if x != y {
                    if normalise_line_ends(y) == *x {
                        out.insert("comment-pi-line-ends-not-normalised".into());
                    } else {
                        out.insert("comment-differs".into());
                    }
                }
            }
            (ANode::PI(t1, d1), ANode::PI(t2, d2)) => {
                if t1 != t2 || d1 != d2 {
                    if t1 == t2 && d1.is_some() && d2.as_deref().map(normalise_line_ends) == *d1 {
                        out.insert("comment-pi-line-ends-not-normalised".into());
                    } else {
                        out.insert("processing-instruction-differs".into());
                    }
                }
            }
            (ANode::Elem(x), ANode::Elem(y)) => diff_elem(x, y, out),
            _ => {
                out.insert("node-kind-differs".into());
            }
        }
    }
}

fn diff_elem(x: &AElem, y: &AElem, out: &mut BTreeSet<String>) {
    if x.local != y.local {
        out.insert("element-local-name-differs".into());
    }
    if x.ns != y.ns {
        if decode_eq(&y.ns, &x.ns) {
            out.insert("namespace-uri-not-decoded".into());
        } else if x.attrs.iter().any(|a| a.1 == "xmlns") {
            out.insert("attribute-named-xmlns-taken-as-default-declaration".into());
        } else {
            out.insert("element-namespace-differs".into());
        }
    }
    if x.decls.len() != y.decls.len() {
        if x.attrs.iter().any(|a| a.1 == "xmlns") {
            out.insert("attribute-named-xmlns-taken-as-default-declaration".into());
        } else {
            out.insert("declarations-differ".into());
        }
    } else {
        for (d, e) in x.decls.iter().zip(y.decls.iter()) {
            if d.0 != e.0 {
                out.insert("declarations-differ".into());
            } else if d.1 != e.1 {
                if decode_eq(&e.1, &d.1) {
                    out.insert("namespace-uri-not-decoded".into());
                } else {
                    out.insert("declaration-uri-differs".into());
                }
            }
        }
    }
    if x.attrs.len() != y.attrs.len() {
        if x.attrs.iter().any(|a| a.1 == "xmlns") {
            out.insert("attribute-named-xmlns-taken-as-default-declaration".into());
        } else {
            out.insert("attributes-differ".into());
        }
    } else {
        for (a, b) in x.attrs.iter().zip(y.attrs.iter()) {
            if a.1 != b.1 {
                out.insert("attribute-local-name-differs".into());
            }
            if a.0 != b.0 {
                if decode_eq(&b.0, &a.0) {
                    out.insert("namespace-uri-not-decoded".into());
                } else {
                    out.insert("attribute-namespace-differs".into());
                }
            }
            if a.2 != b.2 {
                if a.0 == XML_NS && a.1 == "id" {
                    if trim_collapse(&b.2) == a.2 {
                        out.insert("xml-id-not-fully-normalised".into());
                    } else {
                        out.insert("xml-id-value-differs".into());
                    }
                } else {
                    out.insert("attribute-value-differs".into());
                }
            }
        }
    }
    diff(&x.kids, &y.kids, out);
}

/// Expected xml:id index: (value, path of the element).
pub fn expected_ids(top: &[ANode]) -> Vec<(String, Vec<usize>)> {
    fn go(nodes: &[ANode], base: usize, path: &mut Vec<usize>, out: &mut Vec<(String, Vec<usize>)>) {
        for (i, n) in nodes.iter().enumerate() {
            if let ANode::Elem(e) = n {
                path.push(base + i);
                for a in &e.attrs {
                    if a.0 == XML_NS && a.1 == "id" {
                        out.push((a.2.clone(), path.clone()));
                    }
                }
                go(&e.kids, e.decls.len() + e.attrs.len(), path, out);
                path.pop();
            }
        }
    }
    let mut out = vec![];
    go(top, 0, &mut vec![], &mut out);
    out
}

pub fn all_values_xml_chars(t: &GTree) -> bool {
    let ok = |s: &str| s.chars().all(is_xml_char);
    let here = match &t.v {
        GValue::Text(s) | GValue::Comment(s) | GValue::Attribute(_, s) => ok(s),
        GValue::PI(_, Some(s)) => ok(s),
        _ => true,
    };
    here && t.kids.iter().all(all_values_xml_chars)
}

pub fn has_empty_text(t: &GTree) -> bool {
    matches!(&t.v, GValue::Text(s) if s.is_empty()) || t.kids.iter().any(has_empty_text)
}

pub fn xml_id_edge_space(t: &GTree) -> bool {
    matches!(&t.v, GValue::Attribute(1, s) if s.starts_with(' ') || s.ends_with(' ') || s.contains("  "))
        || t.kids.iter().any(xml_id_edge_space)
}

/// Text / CDATA runs of the token dump: (expected decoded value or None, start, end).
pub fn text_runs(dump: &Dump) -> Vec<(Option<String>, usize, usize)> {
    let mut runs: Vec<(Option<String>, usize, usize)> = vec![];
    let mut open = false;
    for t in &dump.toks {
        let part = match t {
            Tok::Text { text, start } => Some((ref_decode(text, false), *start, start + text.len())),
            // an empty CDATA section contributes no character data: it is not a part of the run
            Tok::Cdata { text, .. } if text.is_empty() => continue,
            Tok::Cdata { text, start } => Some((Some(normalise_line_ends(text)), *start, start + text.len())),
            _ => None,
        };
        match part {
            Some((v, s, e)) => {
                if open {
                    let last = runs.last_mut().unwrap();
                    last.0 = match (last.0.take(), v) {
                        (Some(a), Some(b)) => Some(a + &b),
                        _ => None,
                    };
                    last.2 = e;
                } else {
                    runs.push((v, s, e));
                    open = true;
                }
            }
            None => open = false,
        }
    }
    runs
}

/// Does the dump contain an end tag at depth 0 (only a fragment tokenizer produces that)?
pub fn stray_end_tag(dump: &Dump) -> bool {
    let mut depth = 0usize;
    for t in &dump.toks {
        match t {
            Tok::EndOpen => depth += 1,
            Tok::EndClose { .. } => {
                if depth == 0 {
                    return true;
                }
                depth -= 1;
            }
            _ => {}
        }
    }
    false
}

pub fn signed_reference(dump: &Dump) -> bool {
    dump.toks.iter().any(|t| match t {
        Tok::Text { text, .. } => text.contains("&#+") || text.contains("&#x+"),
        Tok::Attr { value, .. } => value.contains("&#+") || value.contains("&#x+"),
        _ => false,
    })
}

pub fn err_variant(e: &ParseError) -> String {
    err_words(e).split(' ').next().unwrap().trim_start_matches("err:").to_string()
}

/// C17 on any accepted input: bounds, char boundaries, presence, slices, decoding.
pub fn generic_spans(vocab: &Vocab, seen: &Seen, src: &str, dump: &Dump, out: &mut BTreeSet<String>) {
    let check = |s: &xot::Span, what: &str, out: &mut BTreeSet<String>| -> Option<String> {
        if s.start > s.end || s.end > src.len() {
            out.insert(format!("{}-span-out-of-bounds", what));
            return None;
        }
        if !src.is_char_boundary(s.start) || !src.is_char_boundary(s.end) {
            out.insert(format!("{}-span-not-on-char-boundary", what));
            return None;
        }
        // `Span::range` is the span as a range: the slice is taken through it
        if s.range() != (s.start..s.end) {
            out.insert(format!("{}-span-range-differs-from-start-end", what));
            return None;
        }
        Some(src[s.range()].to_string())
    };
    let runs = text_runs(dump);
    let mut text_index = 0;
    for (i, n) in seen.nodes.iter().enumerate() {
        let g = seen.tree.at(&seen.paths[i]).unwrap();
        match &g.v {
            GValue::Element(name) => {
                match seen.span_info.get(SpanInfoKey::ElementStart(*n)) {
                    None => {
                        out.insert("element-start-span-missing".into());
                    }
                    Some(s) => {
                        if let Some(slice) = check(s, "element-start", out) {
                            let local = &vocab.names[*name].0;
                            let ok = slice == *local || slice.ends_with(&format!(":{}", local));
                            if !ok {
                                out.insert("element-start-span-is-not-the-name".into());
                            }
                        }
                    }
                }
                match seen.span_info.get(SpanInfoKey::ElementEnd(*n)) {
                    None => {
                        out.insert("element-end-span-missing".into());
                    }
                    Some(s) => {
                        if let Some(slice) = check(s, "element-end", out) {
                            if !(slice == "/>" || (slice.starts_with("</") && slice.ends_with('>'))) {
                                out.insert("element-end-span-is-not-the-end-tag".into());
                            }
                        }
                    }
                }
                let attr_ids: Vec<usize> = g.kids.iter().filter_map(|k| if let GValue::Attribute(a, _) = &k.v { Some(*a) } else { None }).collect();
                for k in &g.kids {
                    if let GValue::Attribute(a, v) = &k.v {
                        if attr_ids.iter().filter(|b| *b == a).count() > 1 {
                            // two attributes with one expanded name share one key (reported under C03)
                            continue;
                        }
                        let id = vocab.name(*a);
                        match seen.span_info.get(SpanInfoKey::AttributeName(*n, id)) {
                            None => {
                                out.insert("attribute-name-span-missing".into());
                            }
                            Some(s) => {
                                if let Some(slice) = check(s, "attribute-name", out) {
                                    let local = &vocab.names[*a].0;
                                    if !(slice == *local || slice.ends_with(&format!(":{}", local))) {
                                        out.insert("attribute-name-span-is-not-the-name".into());
                                    }
                                }
                            }
                        }
                        match seen.span_info.get(SpanInfoKey::AttributeValue(*n, id)) {
                            None => {
                                out.insert("attribute-value-span-missing".into());
                            }
                            Some(s) => {
                                if let Some(slice) = check(s, "attribute-value", out) {
                                    if *a != 1 {
                                        if let Some(d) = ref_decode(&slice, true) {
                                            if d != *v {
                                                out.insert("attribute-value-slice-decodes-differently".into());
                                            }
                                        }
                                    }
                                }
                            }
                        }
                    }
                }
            }
            GValue::Text(v) => {
                match seen.span_info.get(SpanInfoKey::Text(*n)) {
                    None => {
                        out.insert("text-span-missing".into());
                    }
                    Some(s) => {
                        if check(s, "text", out).is_some() {
                            if let Some(run) = runs.get(text_index) {
                                if (s.start, s.end) != (run.1, run.2) {
                                    out.insert("text-span-is-not-first-to-last-part".into());
                                }
                                if let Some(e) = &run.0 {
                                    if normalise_line_ends(v) != normalise_line_ends(e) {
                                        out.insert("text-parts-decode-differently".into());
                                    }
                                }
                            } else {
                                out.insert("text-node-without-token-run".into());
                            }
                        }
                    }
                }
                text_index += 1;
            }
            GValue::Comment(v) => match seen.span_info.get(SpanInfoKey::Comment(*n)) {
                None => {
                    out.insert("comment-span-missing".into());
                }
                Some(s) => {
                    if let Some(slice) = check(s, "comment", out) {
                        // the value is the slice with its line ends normalised
                        if normalise_line_ends(&slice) != normalise_line_ends(v) {
                            out.insert("comment-span-is-not-the-body".into());
                        } else if normalise_line_ends(&slice) != *v {
                            out.insert("comment-value-is-not-the-line-end-normalised-slice".into());
                        }
                    }
                }
            },
            GValue::PI(t, d) => {
                match seen.span_info.get(SpanInfoKey::PiTarget(*n)) {
                    None => {
                        out.insert("pi-target-span-missing".into());
                    }
                    Some(s) => {
                        if let Some(slice) = check(s, "pi-target", out) {
                            if slice != vocab.names[*t].0 {
                                out.insert("pi-target-span-is-not-the-target".into());
                            }
                        }
                    }
                }
                match (d, seen.span_info.get(SpanInfoKey::PiContent(*n))) {
                    (Some(v), Some(s)) => {
                        if let Some(slice) = check(s, "pi-content", out) {
                            if normalise_line_ends(&slice) != normalise_line_ends(v) {
                                out.insert("pi-content-span-is-not-the-content".into());
                            } else if normalise_line_ends(&slice) != *v {
                                out.insert("pi-content-value-is-not-the-line-end-normalised-slice".into());
                            }
                        }
                    }
                    (None, None) => {}
                    _ => {
                        out.insert("pi-content-span-presence-differs".into());
                    }
                }
            }
            _ => {}
        }
    }
}

/// C17 on a rendered input: the recorded spans are the ones the renderer wrote.
pub fn expected_spans(vocab: &Vocab, seen: &Seen, r: &Rendered, out: &mut BTreeSet<String>) {
    for e in &r.spans {
        let node = match seen.node_at(&e.path) {
            Some(n) => n,
            None => {
                out.insert("expected-node-absent".into());
                continue;
            }
        };
        let key = match e.kind {
            "AN" | "AV" => {
                let g = seen.tree.at(&e.path).unwrap();
                let nd = g.kids.iter().filter(|k| matches!(k.v, GValue::Namespace(..))).count();
                match g.kids.get(nd + e.attr).map(|k| &k.v) {
                    Some(GValue::Attribute(a, _)) => {
                        if e.kind == "AN" {
                            SpanInfoKey::AttributeName(node, vocab.name(*a))
                        } else {
                            SpanInfoKey::AttributeValue(node, vocab.name(*a))
                        }
                    }
                    _ => {
                        out.insert("expected-node-absent".into());
                        continue;
                    }
                }
            }
            k => key_of(k, node),
        };
        match seen.span_info.get(key) {
            None => {
                out.insert(format!("{}-span-missing", e.kind));
            }
            Some(s) => {
                if (s.start, s.end) != (e.start, e.end) {
                    out.insert(format!("{}-span-differs-from-what-was-written", e.kind));
                }
            }
        }
    }
}
