//! Generators of the `ser` suite: trees (documents, fragments, unattached elements, single nodes)
//! decorated with xml:space attributes and repaired / unrepaired namespace scopes, and parameter sets.
use crate::common::{Rng, Sink};
use crate::suite_ser::{Domain, Params, NAME_WA, NAME_WE, NS_XMLNS};
use crate::tree::*;

const SPACE_NAME: usize = 0;

/// xml:space attributes at any depth (C14), bindings of a prefix to the XML namespace (rare).
fn decorate(rng: &mut Rng, t: &mut GTree, sink: &mut Sink, representable: bool, ids: &mut usize) {
    if let GValue::Element(_) = t.v {
        if representable {
            // xml:id values are normalised and must be unique for the parser: keep them plain
            for k in t.kids.iter_mut() {
                if let GValue::Attribute(1, v) = &mut k.v {
                    *ids += 1;
                    *v = format!("id{}", ids);
                }
            }
        }
        if rng.chance(1, 5) {
            let v = rng.pick(&["preserve", "preserve", "default", "x", ""]).to_string();
            sink.stat(&format!("gen.xml-space.{}", if v.is_empty() { "empty" } else { v.as_str() }));
            t.kids.retain(|k| !matches!(k.v, GValue::Attribute(SPACE_NAME, _)));
            let at = t.kids.iter().position(|k| k.is_normal()).unwrap_or(t.kids.len());
            t.kids.insert(at, GTree::leaf(GValue::Attribute(SPACE_NAME, v)));
        }
    }
    for k in t.kids.iter_mut() {
        decorate(rng, k, sink, representable, ids);
    }
}

/// Independent scope bookkeeping on generated trees: frames of (prefix, namespace), innermost last.
fn lookup(scope: &[(usize, usize)], prefix: usize) -> Option<usize> {
    scope.iter().rev().find(|(p, _)| *p == prefix).map(|(_, n)| *n)
}

fn usable_prefix(scope: &[(usize, usize)], ns: usize, allow_empty: bool) -> bool {
    if ns == 1 {
        return true; // the xml prefix is always bound
    }
    let mut seen = vec![];
    for (p, n) in scope.iter().rev() {
        if seen.contains(p) {
            continue;
        }
        seen.push(*p);
        if *n == ns && (allow_empty || *p != 0) {
            return true;
        }
    }
    false
}

/// Add the declarations the names of the tree need (so that it serialises), top-down.
/// `undeclare`: also write `xmlns=""` on no-namespace elements under a default namespace.
fn repair(t: &mut GTree, vocab: &Vocab, scope: &mut Vec<(usize, usize)>, undeclare: bool) {
    if let GValue::Element(name) = t.v {
        let mark = scope.len();
        let own = |t: &GTree| -> Vec<(usize, usize)> {
            t.kids.iter().filter_map(|k| if let GValue::Namespace(p, n) = k.v { Some((p, n)) } else { None }).collect()
        };
        scope.extend(own(t));
        let mut needed: Vec<(usize, bool)> = vec![(vocab.names[name].1, true)];
        for k in &t.kids {
            if let GValue::Attribute(a, _) = k.v {
                needed.push((vocab.names[a].1, false));
            }
        }
        for (ns, allow_empty) in needed {
            if ns != 0 && !usable_prefix(scope, ns, allow_empty) {
                let declared: Vec<usize> = own(t).iter().map(|d| d.0).collect();
                let p = [2usize, 3, 4, 5, 6].into_iter().find(|p| !declared.contains(p)).unwrap();
                let at = t.kids.iter().position(|k| !matches!(k.v, GValue::Namespace(..))).unwrap_or(t.kids.len());
                t.kids.insert(at, GTree::leaf(GValue::Namespace(p, ns)));
                scope.push((p, ns));
            }
        }
        if undeclare && vocab.names[name].1 == 0 && lookup(scope, 0).map_or(false, |n| n != 0) {
            if let Some(k) = t.kids.iter_mut().find(|k| matches!(k.v, GValue::Namespace(0, _))) {
                k.v = GValue::Namespace(0, 0);
            } else {
                t.kids.insert(0, GTree::leaf(GValue::Namespace(0, 0)));
            }
            scope.push((0, 0));
        }
        for k in t.kids.iter_mut() {
            repair(k, vocab, scope, undeclare);
        }
        scope.truncate(mark);
    } else {
        for k in t.kids.iter_mut() {
            repair(k, vocab, scope, undeclare);
        }
    }
}

pub fn gen_params(rng: &mut Rng, elem_names: &[usize]) -> Params {
    // the lists are the caller's, in any order and possibly with repetitions: shuffle, so that
    // nothing can rely on them being sorted by id
    let subset = |rng: &mut Rng| -> Vec<usize> {
        let mut v: Vec<usize> = match rng.below(4) {
            0 => vec![],
            1 => vec![*rng.pick(elem_names)],
            2 => elem_names.iter().copied().filter(|_| rng.chance(1, 2)).collect(),
            _ => elem_names.to_vec(),
        };
        if rng.chance(3, 4) {
            for i in (1..v.len()).rev() {
                let j = rng.below(i + 1);
                v.swap(i, j);
            }
        }
        if !v.is_empty() && rng.chance(1, 8) {
            let x = *rng.pick(&v);
            v.push(x);
        }
        v
    };
    let cdata = if rng.chance(1, 2) { subset(rng) } else { vec![] };
    let indent = if rng.chance(1, 2) { Some(if rng.chance(1, 2) { subset(rng) } else { vec![] }) } else { None };
    let decl = if rng.chance(1, 3) {
        let e = match rng.below(5) {
            0 | 1 => None,
            2 => Some("UTF-8".to_string()),
            3 => Some("ISO-8859-1".to_string()),
            _ => Some(rng.pick(&["", "x\"y", "a?>b", "é"]).to_string()),
        };
        let s = *rng.pick(&[None, None, Some(true), Some(false)]);
        Some((e, s))
    } else {
        None
    };
    let doctype = if rng.chance(1, 4) {
        let sys = rng.pick(&["doc.dtd", "http://example.com/a b.dtd", "", "x\"y", "a>b"]).to_string();
        if rng.chance(1, 2) {
            Some((Some(rng.pick(&["-//W3C//DTD XHTML 1.0 Strict//EN", "", "p\"q"]).to_string()), sys))
        } else {
            Some((None, sys))
        }
    } else {
        None
    };
    Params { cdata, gt: rng.chance(1, 2), indent, decl, doctype }
}

fn node_at_mut<'a>(t: &'a mut GTree, p: &[usize]) -> &'a mut GTree {
    let mut cur = t;
    for &i in p {
        cur = &mut cur.kids[i];
    }
    cur
}

pub fn gen_tree(rng: &mut Rng, sink: &mut Sink, vocab: &Vocab) -> (GTree, Domain) {
    let mut cfg = GenCfg::default_cfg();
    let mut representable = true;
    if rng.chance(1, 6) {
        cfg.xml_chars_only = false;
        cfg.adjacent_text = true;
        representable = false;
        sink.stat("gen.any-chars");
    }
    if rng.chance(1, 6) {
        // adjacent text nodes (consolidation off) with XML characters only
        cfg.adjacent_text = true;
        representable = false;
        sink.stat("gen.adjacent-text");
    }
    if rng.chance(1, 10) {
        // names of the namespace whose URI needs escaping
        cfg.elem_names.push(NAME_WE);
        cfg.attr_names.push(NAME_WA);
        sink.stat("gen.weird-uri-names");
    }
    if rng.chance(1, 3) {
        cfg.max_depth = 5;
        cfg.max_kids = 3;
    }
    let kind = rng.below(20);
    let mut t = match kind {
        0..=8 => gen_document(rng, &cfg),
        9..=11 => gen_fragment(rng, &cfg),
        12..=16 => gen_element(rng, &cfg, 1),
        17 => GTree::leaf(GValue::Text(gen_text(rng, &cfg, true))),
        18 => match rng.below(3) {
            0 => GTree::leaf(GValue::Comment(gen_comment(rng))),
            1 => GTree::leaf(GValue::PI(*rng.pick(&[17usize, 18, 6]), gen_pi_data(rng))),
            _ => GTree::leaf(GValue::Document),
        },
        _ => {
            if rng.chance(1, 2) {
                GTree::leaf(GValue::Attribute(*rng.pick(&cfg.attr_names), gen_text(rng, &cfg, false)))
            } else {
                GTree::leaf(GValue::Namespace(*rng.pick(&[0usize, 2, 3]), *rng.pick(&[NS_A, NS_B, 0])))
            }
        }
    };
    sink.stat(&format!(
        "gen.kind.{}",
        match kind {
            0..=8 => "document",
            9..=11 => "fragment",
            12..=16 => "element",
            17 => "text",
            18 => "comment-pi-emptydoc",
            _ => "attribute-namespace",
        }
    ));
    decorate(rng, &mut t, sink, representable, &mut 0);
    if rng.chance(1, 25) {
        // a processing instruction whose target is in a namespace, somewhere
        if let Some(k) = t.kids.iter_mut().find(|k| matches!(k.v, GValue::Element(_))) {
            k.kids.push(GTree::leaf(GValue::PI(6, None)));
            sink.stat("gen.pi-target-in-namespace");
        }
    }
    if rng.chance(1, 15) {
        // a second prefix bound to the XML namespace next to an xml:lang attribute
        if let Some(k) = t.kids.iter_mut().find(|k| matches!(k.v, GValue::Element(_))) {
            // ... or the legal explicit declaration xmlns:xml="http://www.w3.org/XML/1998/namespace" (prefix 1):
            // a namespace node with its own event that is rendered as the empty token (seed C16k)
            let pfx = if rng.chance(1, 2) { 1usize } else { 2 };
            k.kids.retain(|x| !matches!(x.v, GValue::Namespace(q, _) if q == pfx) && !matches!(x.v, GValue::Attribute(15, _)));
            k.kids.insert(0, GTree::leaf(GValue::Namespace(pfx, 1)));
            if pfx == 1 {
                sink.stat("gen.xml-prefix-declared-explicitly");
            }
            let at = k.kids.iter().position(|x| !matches!(x.v, GValue::Namespace(..))).unwrap_or(k.kids.len());
            k.kids.insert(at, GTree::leaf(GValue::Attribute(15, "en".to_string())));
            representable = false;
            sink.stat("gen.prefix-bound-to-xml-namespace");
        }
    }
    if rng.chance(1, 12) {
        // a text node with EMPTY character data (new_text(""), Text::set("")): it has its own event and,
        // under a CDATA-section element, its own `<![CDATA[]]>` (seed C16j); outside the round-trip domain
        let holders: Vec<Vec<usize>> = t.paths().into_iter().filter(|p| matches!(t.at(p).unwrap().v, GValue::Element(_))).collect();
        if !holders.is_empty() {
            let p = rng.pick(&holders).clone();
            let h: &mut GTree = node_at_mut(&mut t, &p);
            let first = h.kids.iter().position(|k| k.is_normal()).unwrap_or(h.kids.len());
            let at = first + rng.below(h.kids.len() - first + 1);
            h.kids.insert(at, GTree::leaf(GValue::Text(String::new())));
            representable = false;
            sink.stat("gen.empty-text-node");
        }
    }
    let mut domain = if representable { Domain::Representable } else { Domain::Outside };
    if representable && rng.chance(1, 8) {
        // one step outside the round-trip domain, with a precise expectation
        let holders: Vec<Vec<usize>> = t.paths().into_iter().filter(|p| matches!(t.at(p).unwrap().v, GValue::Element(_) | GValue::Document)).collect();
        let elements: Vec<Vec<usize>> = holders.iter().filter(|p| matches!(t.at(p).unwrap().v, GValue::Element(_))).cloned().collect();
        let kind = rng.below(4);
        if kind < 2 && !holders.is_empty() {
            let p = rng.pick(&holders).clone();
            let v = rng.pick(&["a\rb", "\r", "a\r\nb", "\r\n\r", "x\r"]).to_string();
            let node = if kind == 0 { GValue::Comment(v) } else { GValue::PI(17, Some(format!("d{}", v))) };
            let h: &mut GTree = node_at_mut(&mut t, &p);
            h.kids.push(GTree::leaf(node));
            domain = Domain::OutsideCrOrRejectedDeclaration;
            sink.stat(if kind == 0 { "gen.outside.comment-cr" } else { "gen.outside.pi-data-cr" });
        } else if !elements.is_empty() {
            let p = rng.pick(&elements).clone();
            let (prefix, ns) = *rng.pick(&[(5usize, 0usize), (6, 0), (5, NS_XMLNS), (0, NS_XMLNS)]);
            let h: &mut GTree = node_at_mut(&mut t, &p);
            if !h.kids.iter().any(|k| matches!(k.v, GValue::Namespace(q, _) if q == prefix)) {
                h.kids.insert(0, GTree::leaf(GValue::Namespace(prefix, ns)));
                domain = Domain::OutsideCrOrRejectedDeclaration;
                sink.stat(if ns == 0 { "gen.outside.prefix-bound-to-empty-uri" } else { "gen.outside.xmlns-namespace-bound" });
            }
        }
    }
    match rng.below(6) {
        0 => sink.stat("gen.scope.as-generated"),
        1 | 2 => {
            repair(&mut t, vocab, &mut vec![], false);
            sink.stat("gen.scope.repaired");
        }
        _ => {
            repair(&mut t, vocab, &mut vec![], true);
            sink.stat("gen.scope.repaired+undeclared");
        }
    }
    (t, domain)
}

