//! Oracles of the `ser` suite: the properties evaluated directly on the implementation, without
//! the model.  C16 (streams = string), C10 (names keep their meaning: an independent namespace
//! resolver over the token texts, and reparse), C14 (options / indentation do not change content),
//! C11 (declarations then attributes in view order).
use crate::common::{guarded, Sink};
use crate::suite_ser::{Case, Ev, Observed, Params, Res, Tok, WEIRD_URI};
use crate::ser_ws::{strip_prolog, ws_diff, Ctx};
use crate::tree::*;
use std::cell::RefCell;
use std::collections::HashMap;
use xot::{Node, Value, Xot};

thread_local! {
    static EMITTED: RefCell<HashMap<String, usize>> = RefCell::new(HashMap::new());
}

pub(crate) fn json_str(s: &str) -> String {
    let mut o = String::from("\"");
    for c in s.chars() {
        match c {
            '"' => o.push_str("\\\""),
            '\\' => o.push_str("\\\\"),
            '\n' => o.push_str("\\n"),
            '\r' => o.push_str("\\r"),
            '\t' => o.push_str("\\t"),
            c if (c as u32) < 0x20 || (c as u32) > 0x7e => {
                let mut b = [0u16; 2];
                for u in c.encode_utf16(&mut b) {
                    o.push_str(&format!("\\u{:04x}", u));
                }
            }
            c => o.push(c),
        }
    }
    o.push('"');
    o
}

/// One `F` line (at most 6 per signature and run; the statistics count all of them).
pub fn fail(sink: &mut Sink, pid: &str, signature: &str, what: &str, c: &Case, p: &Params) {
    sink.stat(&format!("oracle.fail.{}", signature));
    let n = EMITTED.with(|m| {
        let mut m = m.borrow_mut();
        let e = m.entry(format!("{}|{}", pid, signature)).or_insert(0);
        *e += 1;
        *e
    });
    if n > 6 {
        return;
    }
    let source = guarded(|| c.xot.to_string(c.root).unwrap_or_else(|e| format!("<{:?}>", e))).unwrap_or("<panic>".to_string());
    println!(
        "F\t{}\t{{\"signature\": {}, \"what\": {}, \"replay\": {{\"suite\": \"ser\", \"tree\": {}, \"start\": {}, \"params\": {}, \"whole_tree_as_xml\": {}}}}}",
        pid,
        json_str(signature),
        json_str(what),
        json_str(&c.tree.wire()),
        json_str(&path_str(&c.start_path)),
        json_str(&p.wire()),
        json_str(&source)
    );
}

pub(crate) fn short(s: &str) -> String {
    let v: String = s.chars().take(160).collect();
    if v.len() < s.len() { format!("{}…", v) } else { v }
}

// ---------------------------------------------------------------------------------------------
// canonical content of a real subtree, read through value accessors only

#[derive(Clone, Debug, PartialEq)]
pub enum CNode {
    Doc(Vec<CNode>),
    Elem { name: (String, String), id: usize, attrs: Vec<((String, String), String)>, kids: Vec<CNode> },
    Text(String),
    Comment(String),
    PI(String, Option<String>),
    Other,
}

pub fn canon(xot: &Xot, node: Node) -> CNode {
    let kids = |xot: &Xot| xot.children(node).map(|k| canon(xot, k)).collect::<Vec<_>>();
    let nm = |n: xot::NameId| {
        let (l, u) = xot.name_ns_str(n);
        (l.to_string(), u.to_string())
    };
    match xot.value(node) {
        Value::Document => CNode::Doc(kids(xot)),
        Value::Element(e) => {
            let mut attrs: Vec<((String, String), String)> = xot.attributes(node).iter().map(|(n, v)| (nm(n), v.clone())).collect();
            attrs.sort();
            CNode::Elem { name: nm(e.name()), id: name_num(e.name()), attrs, kids: kids(xot) }
        }
        Value::Text(t) => CNode::Text(t.get().to_string()),
        Value::Comment(c) => CNode::Comment(c.get().to_string()),
        Value::ProcessingInstruction(pi) => CNode::PI(nm(pi.target()).0, pi.data().map(|s| s.to_string())),
        _ => CNode::Other,
    }
}

/// Reparse serialised text the way the start node calls for; the result is compared with
/// `canon(start)`.  `None`: the node kind has no reparse oracle.
pub(crate) fn reparse(xot: &mut Xot, original: &CNode, text: &str) -> Option<Result<CNode, String>> {
    match original {
        CNode::Doc(kids) => {
            let elements = kids.iter().filter(|k| matches!(k, CNode::Elem { .. })).count();
            let texts = kids.iter().any(|k| matches!(k, CNode::Text(_)));
            let r = if elements == 1 && !texts {
                guarded(|| xot.parse(text))
            } else {
                guarded(|| xot.parse_fragment(text))
            };
            Some(match r {
                None => Err("parser panics".to_string()),
                Some(Err(e)) => Err(format!("{:?}", e)),
                Some(Ok(d)) => Ok(canon(xot, d)),
            })
        }
        CNode::Elem { .. } => Some(match guarded(|| xot.parse(text)) {
            None => Err("parser panics".to_string()),
            Some(Err(e)) => Err(format!("{:?}", e)),
            Some(Ok(d)) => match xot.document_element(d) {
                Ok(e) => Ok(canon(xot, e)),
                Err(e) => Err(format!("{:?}", e)),
            },
        }),
        _ => None,
    }
}

// ---------------------------------------------------------------------------------------------
// C16

fn concat_tokens(v: &[Tok]) -> String {
    let mut s = String::new();
    for k in v {
        if k.space {
            s.push(' ');
        }
        s.push_str(&k.text);
    }
    s
}

fn concat_pretty(v: &[Tok]) -> String {
    let mut s = String::new();
    for k in v {
        for _ in 0..k.indentation {
            s.push_str("  ");
        }
        if k.space {
            s.push(' ');
        }
        s.push_str(&k.text);
        if k.newline {
            s.push('\n');
        }
    }
    s
}

fn stream_vs_string(sink: &mut Sink, c: &Case, p: &Params, which: &str, toks: &Res<Vec<Tok>>, s: &Res<String>, cat: fn(&[Tok]) -> String) {
    match (toks, s) {
        (Res::Ok(v), Res::Ok(s)) => {
            let joined = cat(v);
            if joined != *s {
                fail(sink, "C16", &format!("C16:{}-concatenation-differs-from-string", which), &format!("tokens give {:?}, string is {:?}", short(&joined), short(s)), c, p);
            } else {
                sink.stat(&format!("oracle.C16.{}-equals-string", which));
            }
        }
        (Res::Panic, Res::Err(_)) => sink.stat(&format!("oracle.C16.{}-unwrap-on-unserialisable", which)),
        (_, Res::Panic) => fail(sink, "C16", "C16:string-serialisation-panics", "serialize_xml_string panics", c, p),
        (Res::Panic, Res::Ok(_)) => fail(sink, "C16", &format!("C16:{}-panic-where-string-succeeds", which), "token stream panics, string serialisation succeeds", c, p),
        (Res::Ok(_), Res::Err(e)) => fail(sink, "C16", &format!("C16:{}-succeed-where-string-fails", which), &format!("string serialisation fails with {}", e), c, p),
        (Res::Err(_), _) => {}
    }
}

/// The event list the property describes, from the generated tree alone (without the extra
/// declarations of the top element).
fn expected_events(t: &GTree, path: &mut Vec<usize>, out: &mut Vec<(String, Ev)>) {
    let here = path_str(path);
    match &t.v {
        GValue::Element(n) => {
            out.push((here.clone(), Ev::SO(*n)));
            for k in &t.kids {
                if let GValue::Namespace(p, ns) = k.v {
                    out.push((here.clone(), Ev::PX(p, ns)));
                }
            }
            for k in &t.kids {
                if let GValue::Attribute(a, v) = &k.v {
                    out.push((here.clone(), Ev::AT(*a, v.clone())));
                }
            }
            out.push((here.clone(), Ev::SC));
        }
        GValue::Text(s) => out.push((here.clone(), Ev::TX(s.clone()))),
        GValue::Comment(s) => out.push((here.clone(), Ev::CM(s.clone()))),
        GValue::PI(t, d) => out.push((here.clone(), Ev::PI(*t, d.clone()))),
        _ => {}
    }
    for (i, k) in t.kids.iter().enumerate() {
        if k.is_normal() {
            path.push(i);
            expected_events(k, path, out);
            path.pop();
        }
    }
    if let GValue::Element(n) = t.v {
        out.push((here, Ev::ET(n)));
    }
}

/// Bindings in scope at `path` coming from strict ancestors (nearest wins), plus the base `xml`
/// binding, minus the prefixes the node declares itself and the `xmlns=""` undeclaration.
fn inherited_bindings(t: &GTree, path: &[usize]) -> Vec<(usize, usize)> {
    let mut chain = vec![];
    let mut cur = t;
    for &i in path {
        chain.push(cur);
        cur = &cur.kids[i];
    }
    let own: Vec<usize> = cur.kids.iter().filter_map(|k| if let GValue::Namespace(p, _) = k.v { Some(p) } else { None }).collect();
    let mut map: Vec<(usize, usize)> = vec![];
    for anc in chain.iter().rev() {
        for k in &anc.kids {
            if let GValue::Namespace(p, n) = k.v {
                if !map.iter().any(|(q, _)| *q == p) {
                    map.push((p, n));
                }
            }
        }
    }
    if !map.iter().any(|(q, _)| *q == 1) {
        map.push((1, 1));
    }
    let mut r: Vec<(usize, usize)> = map.into_iter().filter(|(p, n)| !own.contains(p) && !(*p == 0 && *n == 0)).collect();
    r.sort();
    r
}

fn check_events(sink: &mut Sink, c: &Case, p: &Params, evs: &[(String, Ev)]) {
    let start_tree = c.tree.at(&c.start_path).unwrap();
    let mut expected = vec![];
    if start_tree.is_normal() {
        expected_events(start_tree, &mut c.start_path.clone(), &mut expected);
    }
    // split off the extra declarations of the top element
    let mut actual: Vec<(String, Ev)> = evs.to_vec();
    let mut extras = vec![];
    if let GValue::Element(_) = start_tree.v {
        let own = start_tree.kids.iter().filter(|k| matches!(k.v, GValue::Namespace(..))).count();
        let px = actual.iter().skip(1).take_while(|(_, e)| matches!(e, Ev::PX(..))).count();
        if px >= own {
            for (_, e) in actual.drain(1..1 + (px - own)) {
                if let Ev::PX(p, n) = e {
                    extras.push((p, n));
                }
            }
        }
        extras.sort();
        let want = inherited_bindings(c.tree, &c.start_path);
        if extras != want {
            fail(sink, "C16", "C16:top-element-inherited-declarations", &format!("extra declarations on the top element {:?}, bindings inherited from its ancestors {:?}", extras, want), c, p);
        } else if !want.is_empty() {
            sink.stat("oracle.C16.inherited-declarations-checked");
        }
    }
    if actual != expected {
        let at = actual.iter().zip(expected.iter()).position(|(a, b)| a != b).unwrap_or(actual.len().min(expected.len()));
        fail(sink, "C16", "C16:event-stream-structure", &format!("event {} is {:?}, expected {:?}", at, actual.get(at), expected.get(at)), c, p);
    } else {
        sink.stat("oracle.C16.events-as-described");
    }
}

/// C11: per element the declaration events (after the inherited ones) and attribute events follow
/// `namespaces(e).iter()` / `attributes(e).iter()`.
fn check_view_order(sink: &mut Sink, c: &Case, p: &Params, evs: &[(String, Ev)]) {
    let by_path: HashMap<&String, Node> = c.paths.iter().map(|(n, s)| (s, *n)).collect();
    let mut i = 0;
    while i < evs.len() {
        if let (path, Ev::SO(_)) = &evs[i] {
            let node = by_path[path];
            let mut px = vec![];
            let mut at = vec![];
            let mut j = i + 1;
            let mut px_after_at = false;
            while j < evs.len() && evs[j].0 == *path && !matches!(evs[j].1, Ev::SC) {
                match &evs[j].1 {
                    Ev::PX(a, b) => {
                        if !at.is_empty() {
                            px_after_at = true;
                        }
                        px.push((*a, *b))
                    }
                    Ev::AT(n, v) => at.push((*n, v.clone())),
                    _ => {}
                }
                j += 1;
            }
            let view_ns: Vec<(usize, usize)> = c.xot.namespaces(node).iter().map(|(p, n)| (prefix_num(p), ns_num(*n))).collect();
            let view_at: Vec<(usize, String)> = c.xot.attributes(node).iter().map(|(n, v)| (name_num(n), v.clone())).collect();
            let own_px = if px.len() >= view_ns.len() { px[px.len() - view_ns.len()..].to_vec() } else { px.clone() };
            if own_px != view_ns || at != view_at || px_after_at {
                fail(sink, "C11", "C11:serialisation-order-differs-from-view-order", &format!("events {:?} {:?}, views {:?} {:?}", own_px, at, view_ns, view_at), c, p);
            } else {
                sink.stat("oracle.C11.element-in-view-order");
            }
            i = j;
        } else {
            i += 1;
        }
    }
}

// ---------------------------------------------------------------------------------------------
// C10: XML-Namespaces resolution over the token texts

pub const XML_URI: &str = "http://www.w3.org/XML/1998/namespace";

/// Decode an attribute-value literal the way an XML processor does (predefined entities and
/// character references) — independent of the crate's own decoder.
fn unescape_value(s: &str) -> String {
    let mut out = String::new();
    let mut rest = s;
    while let Some(i) = rest.find('&') {
        out.push_str(&rest[..i]);
        let tail = &rest[i..];
        match tail.find(';') {
            Some(j) => {
                let ent = &tail[1..j];
                let c = match ent {
                    "amp" => Some('&'),
                    "lt" => Some('<'),
                    "gt" => Some('>'),
                    "quot" => Some('"'),
                    "apos" => Some('\''),
                    _ if ent.starts_with("#x") => u32::from_str_radix(&ent[2..], 16).ok().and_then(char::from_u32),
                    _ if ent.starts_with('#') => ent[1..].parse::<u32>().ok().and_then(char::from_u32),
                    _ => None,
                };
                match c {
                    Some(c) => out.push(c),
                    None => out.push_str(&tail[..=j]),
                }
                rest = &tail[j + 1..];
            }
            None => {
                out.push_str(tail);
                rest = "";
            }
        }
    }
    out.push_str(rest);
    out
}

fn split_qname(q: &str) -> (Option<&str>, &str) {
    match q.find(':') {
        Some(i) => (Some(&q[..i]), &q[i + 1..]),
        None => (None, q),
    }
}

fn resolve(scope: &[Vec<(String, String)>], prefix: Option<&str>, is_attr: bool) -> Result<String, String> {
    match prefix {
        Some("xml") => Ok(XML_URI.to_string()),
        Some(p) => {
            for frame in scope.iter().rev() {
                if let Some((_, u)) = frame.iter().find(|(q, _)| q == p) {
                    return Ok(u.clone());
                }
            }
            Err(p.to_string())
        }
        None if is_attr => Ok(String::new()),
        None => {
            for frame in scope.iter().rev() {
                if let Some((_, u)) = frame.iter().find(|(q, _)| q.is_empty()) {
                    return Ok(u.clone());
                }
            }
            Ok(String::new())
        }
    }
}

/// Returns true when every name resolved to the node's expanded name.
fn check_names(sink: &mut Sink, c: &Case, p: &Params, toks: &[Tok]) -> bool {
    let xot: &Xot = c.xot;
    let expanded = |n: usize| {
        let (l, u) = xot.name_ns_str(c.vocab.name(n));
        (l.to_string(), u.to_string())
    };
    let mut scope: Vec<Vec<(String, String)>> = vec![];
    let mut good = true;
    let mut report = |sink: &mut Sink, sig: &str, what: String| {
        good = false;
        fail(sink, "C10", sig, &what, c, p);
    };
    let mut i = 0;
    while i < toks.len() {
        match &toks[i].ev {
            Ev::SO(name) => {
                let qname = toks[i].text.trim_start_matches('<').to_string();
                let mut frame = vec![];
                let mut attrs: Vec<(usize, String)> = vec![];
                let mut j = i + 1;
                while j < toks.len() && !matches!(toks[j].ev, Ev::SC) {
                    let text = &toks[j].text;
                    match &toks[j].ev {
                        Ev::PX(..) if !text.is_empty() => {
                            // xmlns="uri" | xmlns:p="uri", read from the text
                            let eq = text.find("=\"").unwrap_or(text.len());
                            let lhs = &text[..eq];
                            let uri = if eq + 2 <= text.len() && text.ends_with('"') && text.len() >= eq + 3 { &text[eq + 2..text.len() - 1] } else { "" };
                            let pfx = lhs.strip_prefix("xmlns:").unwrap_or("");
                            if uri.contains('"') || uri.contains('<') {
                                // the literal ends at the first quote for an XML processor
                                fail(sink, "C10", "C10:namespace-uri-written-unescaped", &format!("declaration token {:?} contains a raw quote or '<' in the URI", text), c, p);
                            }
                            frame.push((pfx.to_string(), unescape_value(uri)));
                        }
                        Ev::AT(n, _) => attrs.push((*n, text[..text.find('=').unwrap_or(text.len())].to_string())),
                        _ => {}
                    }
                    j += 1;
                }
                scope.push(frame);
                let (pfx, local) = split_qname(&qname);
                let want = expanded(*name);
                match resolve(&scope, pfx, false) {
                    Ok(uri) => {
                        if (local.to_string(), uri.clone()) != want {
                            if want.1 == XML_URI {
                                report(sink, "C10:prefix-bound-to-xml-namespace-written-without-declaration", format!("<{}> resolves to {{{}}}{}: the declaration binding the prefix to the XML namespace is not written", qname, uri, local));
                            } else if want.1.is_empty() && pfx.is_none() {
                                report(sink, "C10:unprefixed-no-namespace-element-joins-default-namespace", format!("<{}> is written inside the scope of xmlns={:?}; the element is in no namespace", qname, uri));
                            } else {
                                report(sink, "C10:element-name-resolves-to-another-name", format!("<{}> resolves to {{{}}}{}, the element is {{{}}}{}", qname, uri, local, want.1, want.0));
                            }
                        } else {
                            sink.stat("oracle.C10.element-name-resolves");
                        }
                    }
                    Err(px) => {
                        if want.1 == XML_URI {
                            report(sink, "C10:prefix-bound-to-xml-namespace-written-without-declaration", format!("<{}>: prefix {} is not declared in the output", qname, px));
                        } else {
                            report(sink, "C10:element-prefix-not-declared-in-output", format!("<{}>: prefix {} is not declared in the output", qname, px));
                        }
                    }
                }
                for (n, q) in attrs {
                    let (pfx, local) = split_qname(&q);
                    let want = expanded(n);
                    match resolve(&scope, pfx, true) {
                        Ok(uri) => {
                            if (local.to_string(), uri.clone()) != want && want.1 == XML_URI {
                                report(sink, "C10:prefix-bound-to-xml-namespace-written-without-declaration", format!("attribute {} resolves to {{{}}}{}: the declaration binding the prefix to the XML namespace is not written", q, uri, local));
                            } else if (local.to_string(), uri.clone()) != want {
                                report(sink, "C10:attribute-name-resolves-to-another-name", format!("{} resolves to {{{}}}{}, the attribute is {{{}}}{}", q, uri, local, want.1, want.0));
                            } else {
                                sink.stat("oracle.C10.attribute-name-resolves");
                            }
                        }
                        Err(px) => {
                            if want.1 == XML_URI {
                                report(sink, "C10:prefix-bound-to-xml-namespace-written-without-declaration", format!("attribute {}: prefix {} is not declared in the output", q, px));
                            } else {
                                report(sink, "C10:attribute-prefix-not-declared-in-output", format!("attribute {}: prefix {} is not declared in the output", q, px));
                            }
                        }
                    }
                }
                i = j;
            }
            Ev::ET(_) => {
                scope.pop();
                i += 1;
            }
            _ => i += 1,
        }
    }
    good
}

/// Independent of the implementation: is there, at or below the start node, an element in no
/// namespace for which the nearest declaration of the empty prefix (its own declarations, its
/// ancestors' up to the root of the whole tree) binds a namespace?  Such a tree has no XML
/// spelling without an `xmlns=""` declaration, so serialisation must refuse it.
fn no_namespace_element_under_default(c: &Case) -> bool {
    fn own_default(t: &GTree) -> Option<usize> {
        t.kids.iter().take_while(|k| matches!(k.v, GValue::Namespace(..))).find_map(|k| match k.v {
            GValue::Namespace(0, ns) => Some(ns),
            _ => None,
        })
    }
    fn below(t: &GTree, default: usize, ns_of: &dyn Fn(usize) -> usize) -> bool {
        if !t.is_normal() {
            return false;
        }
        let mut d = default;
        if let GValue::Element(n) = t.v {
            if let Some(ns) = own_default(t) {
                d = ns;
            }
            if ns_of(n) == 0 && d != 0 {
                return true;
            }
        }
        t.kids.iter().any(|k| below(k, d, ns_of))
    }
    let mut default = 0;
    let mut cur = c.tree;
    for &i in &c.start_path {
        if let GValue::Element(_) = cur.v {
            if let Some(ns) = own_default(cur) {
                default = ns;
            }
        }
        cur = &cur.kids[i];
    }
    let ns_of = |n: usize| c.vocab.names[n].1;
    below(cur, default, &ns_of)
}

// ---------------------------------------------------------------------------------------------

pub fn check(c: &mut Case, p: &Params, obs: &Observed, sink: &mut Sink) {
    // C16
    stream_vs_string(sink, c, p, "tokens", &obs.tokens, &obs.token_string, concat_tokens);
    stream_vs_string(sink, c, p, "pretty-tokens", &obs.pretty_tokens, &obs.pretty_string, concat_pretty);
    match (&obs.xml_string, &obs.xml_write) {
        (Res::Ok(s), (Res::Ok(()), w)) => {
            if s != w {
                fail(sink, "C16", "C16:write-differs-from-string", &format!("serialize_xml_write wrote {:?}, serialize_xml_string returned {:?}", short(w), short(s)), c, p);
            } else {
                sink.stat("oracle.C16.write-equals-string");
            }
        }
        (a, (b, _)) if a.kind() != b.kind() => fail(sink, "C16", "C16:write-and-string-outcomes-differ", &format!("string: {}, write: {}", a.kind(), b.kind()), c, p),
        _ => {}
    }
    if let Res::Ok(evs) = &obs.outputs {
        check_events(sink, c, p, evs);
        check_view_order(sink, c, p, evs);
    } else {
        fail(sink, "C16", "C16:outputs-panics", "Xot::outputs panics", c, p);
    }
    // C10
    let names_ok = match &obs.tokens {
        Res::Ok(toks) => check_names(sink, c, p, toks),
        _ => true,
    };
    // C10, no guard any more (/repo a32c6f4): a no-namespace element inside the scope of a
    // default namespace must be refused, never written
    if no_namespace_element_under_default(c) {
        match &obs.token_string {
            Res::Ok(s) => fail(sink, "C10", "C10:no-namespace-element-under-default-namespace-is-written", &format!("serialisation succeeds with {:?}; an element in no namespace sits in the scope of a default namespace", short(s)), c, p),
            Res::Err(e) if e.starts_with("err:MissingPrefix") || e.starts_with("err:NamespaceInProcessingInstruction") => sink.stat("oracle.C10.no-namespace-under-default-refused"),
            Res::Err(e) => fail(sink, "C10", "C10:no-namespace-element-under-default-namespace-other-error", &format!("serialisation fails with {}", e), c, p),
            Res::Panic => {}
        }
    }
    let original = canon(c.xot, c.start);
    let mut base_reparse: Option<Result<CNode, String>> = None;
    if c.representable {
        if let Res::Ok(s) = &obs.token_string {
            let plain = Params { cdata: vec![], gt: false, ..Params::plain() };
            let default_text = if p.cdata.is_empty() && !p.gt { Some(s.clone()) } else { c.xot.serialize_xml_string(plain.xml_params(c.vocab), c.start).ok() };
            if let Some(text) = default_text {
                base_reparse = reparse(c.xot, &original, &text);
                match &base_reparse {
                    Some(Ok(back)) if *back == original => sink.stat("oracle.C10.reparse-equal"),
                    Some(r) if names_ok => {
                        let uses_weird = text.contains(WEIRD_URI);
                        let sig = if uses_weird { "C10:namespace-uri-written-unescaped" } else { "C10:reparse-differs" };
                        let what = match r {
                            Ok(_) => format!("{:?} reparses to different content", short(&text)),
                            Err(e) => format!("{:?} does not parse: {}", short(&text), short(e)),
                        };
                        fail(sink, "C10", sig, &what, c, p);
                        if uses_weird {
                            fail(sink, "C01", "C01:namespace-uri-written-unescaped", &what, c, p);
                        }
                    }
                    _ => {}
                }
            }
        }
    }
    if c.domain == crate::suite_ser::Domain::OutsideCrOrRejectedDeclaration {
        crate::ser_outside::check_outside(c, p, obs, &original, names_ok, sink);
    }
    // C14
    if c.representable && p.prolog_safe() {
        if let (Res::Ok(s), Some(base)) = (&obs.xml_string, &base_reparse) {
            let first_tag = obs.tokens.ok().and_then(|t| t.iter().find(|k| matches!(k.ev, Ev::SO(_))).map(|k| k.text.trim_start_matches('<').to_string()));
            match strip_prolog(s, p) {
                Err(e) => fail(sink, "C14", "C14:prolog-malformed", &format!("{} in {:?}", e, short(s)), c, p),
                Ok((body, dt_name)) => {
                    if dt_name.is_some() && dt_name != first_tag {
                        fail(sink, "C14", "C14:doctype-name-differs-from-root-element", &format!("doctype names {:?}, first start tag {:?}", dt_name, first_tag), c, p);
                    }
                    let base_ok = matches!(base, Ok(b) if *b == original);
                    let back = reparse(c.xot, &original, body);
                    // with an XML declaration (and no doctype, which xot refuses to parse) the WHOLE
                    // output must reparse like the body alone, when the encoding is an EncName
                    if p.doctype.is_none() {
                        if let Some((enc, _)) = &p.decl {
                            let enc_ok = enc.as_ref().map_or(true, |e| {
                                let mut cs = e.chars();
                                cs.next().map_or(false, |c| c.is_ascii_alphabetic()) && cs.all(|c| c.is_ascii_alphanumeric() || c == '.' || c == '_' || c == '-')
                            });
                            let uses_parse = match &original {
                                CNode::Elem { .. } => true,
                                CNode::Doc(k) => k.iter().filter(|x| matches!(x, CNode::Elem { .. })).count() == 1 && !k.iter().any(|x| matches!(x, CNode::Text(_))),
                                _ => false,
                            };
                            if enc_ok && uses_parse {
                                let full = reparse(c.xot, &original, s);
                                let same = match (&full, &back) {
                                    (Some(Ok(x)), Some(Ok(y))) => x == y,
                                    (Some(Err(_)), Some(Err(_))) => true,
                                    (None, None) => true,
                                    _ => false,
                                };
                                if same {
                                    sink.stat("oracle.C14.declaration-reparsed");
                                } else {
                                    fail(sink, "C14", "C14:declaration-changes-reparse", &format!("{:?} reparses differently from its body", short(s)), c, p);
                                }
                            } else {
                                sink.stat("oracle.C14.declaration-not-reparsed");
                            }
                        }
                    }
                    if p.indent.is_none() {
                        match (&back, base_ok) {
                            (Some(Ok(b)), _) if *b == original => sink.stat("oracle.C14.options-reparse-equal"),
                            (Some(r), true) => {
                                let what = match r {
                                    Ok(_) => format!("{:?} reparses to different content (default parameters round-trip)", short(body)),
                                    Err(e) => format!("{:?} does not parse: {}", short(body), short(e)),
                                };
                                fail(sink, "C14", "C14:options-change-content", &what, c, p);
                            }
                            _ => sink.stat("oracle.C14.skipped-base-does-not-round-trip"),
                        }
                    } else if base_ok && matches!(original, CNode::Elem { .. } | CNode::Doc(_)) && !matches!(&original, CNode::Doc(k) if k.iter().filter(|x| matches!(x, CNode::Elem { .. })).count() != 1 || k.iter().any(|x| matches!(x, CNode::Text(_)))) {
                        let suppress = p.indent.clone().unwrap();
                        match back {
                            Some(Ok(b)) => {
                                let mut added = vec![];
                                match ws_diff(&original, &b, Ctx { preserve: false, suppressed: false, mixed: false }, &suppress, &mut added) {
                                    Err(e) => fail(sink, "C14", "C14:indentation-changes-content", &short(&e), c, p),
                                    Ok(()) => {
                                        sink.stat("oracle.C14.indentation-only-adds-whitespace");
                                        sink.stat_n("oracle.C14.whitespace-nodes-added", added.len() as u64);
                                        if added.iter().any(|a| a.ctx.preserve) {
                                            fail(sink, "C14", "C14:indentation-inside-xml-space-preserve", &format!("whitespace added inside xml:space=\"preserve\": {:?}", short(body)), c, p);
                                        }
                                        if added.iter().any(|a| !a.ctx.preserve && (a.has_text || a.ctx.mixed)) {
                                            fail(sink, "C14", "C14:indentation-inside-mixed-content", &format!("whitespace added inside mixed content: {:?}", short(body)), c, p);
                                        }
                                        if added.iter().any(|a| !a.ctx.preserve && !(a.has_text || a.ctx.mixed) && a.ctx.suppressed) {
                                            fail(sink, "C14", "C14:indentation-inside-suppressed-element", &format!("whitespace added inside a suppressed element: {:?}", short(body)), c, p);
                                        }
                                    }
                                }
                            }
                            Some(Err(e)) => fail(sink, "C14", "C14:indented-output-does-not-parse", &format!("{:?}: {}", short(body), short(&e)), c, p),
                            None => {}
                        }
                    }
                }
            }
        }
    }
}
