//! Suite `repair` (C10, second and third sentence): `create_missing_prefixes` on documents,
//! fragments with several top-level elements, parentless elements and inner elements, inside
//! histories that alternate edits (nodes in new namespaces appended, subtrees moved or cloned away
//! from the declarations they relied on, declarations added and removed) with repeated calls.
//! Every call is printed for the model (`repair <path> <tree before>` -> tree after + prefixes
//! registered); the oracle below evaluates the property on the implementation alone.
use crate::common::{enc, guarded, Rng, Sink};
use crate::tree::*;
use xot::{Node, Xot};

const NS_POOL: [usize; 3] = [NS_A, NS_B, NS_C];
const EL_NAMES: [usize; 9] = [2, 3, 4, 6, 7, 9, 10, 12, 13];
const AT_NAMES: [usize; 7] = [2, 3, 8, 11, 14, 15, 16];
// prefix ids of the standard vocabulary: "", xml, p, q, r, n0, n1
const DECL_PREFIXES: [usize; 6] = [0, 2, 3, 4, 5, 6];

fn ns_of(vocab: &Vocab, name: usize) -> usize {
    vocab.names[name].1
}

// ---------------------------------------------------------------------------------------------
// generators

fn gen_decls(rng: &mut Rng, style: usize) -> Vec<GTree> {
    let mut out = vec![];
    let mut seen = vec![];
    let n = match style {
        0 => 0,
        1 => rng.below(2),
        _ => rng.below(4),
    };
    for _ in 0..n {
        let p = *rng.pick(&DECL_PREFIXES);
        if seen.contains(&p) {
            continue;
        }
        seen.push(p);
        let ns = if p == 0 { *rng.pick(&[0usize, NS_A, NS_A, NS_B, NS_C]) } else { *rng.pick(&NS_POOL) };
        out.push(GTree::leaf(GValue::Namespace(p, ns)));
    }
    out
}

fn gen_el(rng: &mut Rng, depth: usize, max_depth: usize, style: usize) -> GTree {
    let name = *rng.pick(&EL_NAMES);
    let mut kids = gen_decls(rng, style);
    let mut seen = vec![];
    for _ in 0..rng.below(3) {
        let a = *rng.pick(&AT_NAMES);
        if seen.contains(&a) {
            continue;
        }
        seen.push(a);
        kids.push(GTree::leaf(GValue::Attribute(a, rng.pick(&["", "v", "a b"]).to_string())));
    }
    if depth < max_depth {
        let mut last_text = false;
        for _ in 0..rng.below(4) {
            match rng.below(8) {
                0 if !last_text => {
                    kids.push(GTree::leaf(GValue::Text(rng.pick(&["t", "x y", "1"]).to_string())));
                    last_text = true;
                }
                1 => {
                    kids.push(GTree::leaf(GValue::Comment("c".to_string())));
                    last_text = false;
                }
                _ => {
                    kids.push(gen_el(rng, depth + 1, max_depth, style));
                    last_text = false;
                }
            }
        }
    }
    GTree::new(GValue::Element(name), kids)
}

/// 0: document with one element, 1: fragment with several top-level nodes, 2: parentless element
fn gen_root(rng: &mut Rng, sink: &mut Sink) -> GTree {
    let style = rng.below(4); // 0: nothing declared, 1: little, 2-3: a lot (shadowing)
    sink.stat(&format!("gen.declarations.{}", ["none", "few", "many", "many"][style]));
    let max_depth = 2 + rng.below(3);
    match rng.below(10) {
        0..=3 => {
            sink.stat("gen.kind.document");
            let mut kids = vec![];
            if rng.chance(1, 4) {
                kids.push(GTree::leaf(GValue::Comment("c".into())));
            }
            kids.push(gen_el(rng, 1, max_depth, style));
            if rng.chance(1, 4) {
                kids.push(GTree::leaf(GValue::PI(17, None)));
            }
            GTree::new(GValue::Document, kids)
        }
        4..=6 => {
            sink.stat("gen.kind.fragment");
            let mut kids = vec![];
            let mut last_text = false;
            for _ in 0..rng.below(5) {
                if rng.chance(1, 5) && !last_text {
                    kids.push(GTree::leaf(GValue::Text("t".into())));
                    last_text = true;
                } else if rng.chance(1, 8) {
                    kids.push(GTree::leaf(GValue::Comment("c".into())));
                    last_text = false;
                } else {
                    kids.push(gen_el(rng, 1, max_depth, style));
                    last_text = false;
                }
            }
            GTree::new(GValue::Document, kids)
        }
        _ => {
            sink.stat("gen.kind.parentless-element");
            gen_el(rng, 1, max_depth, style)
        }
    }
}

// ---------------------------------------------------------------------------------------------
// independent scope bookkeeping on read-back trees

fn own_decls(t: &GTree) -> Vec<(usize, usize)> {
    t.kids.iter().filter_map(|k| if let GValue::Namespace(p, n) = k.v { Some((p, n)) } else { None }).collect()
}

/// Bindings in force at the node `path` of `t` (its own declarations included), nearest wins;
/// the reserved `xml` binding is always there. `xmlns=""` is kept as (0, 0).
fn scope_at(t: &GTree, path: &[usize]) -> Vec<(usize, usize)> {
    let mut chain = vec![t];
    let mut cur = t;
    for &i in path {
        cur = &cur.kids[i];
        chain.push(cur);
    }
    let mut map: Vec<(usize, usize)> = vec![];
    for n in chain.iter().rev() {
        for (p, ns) in own_decls(n) {
            if !map.iter().any(|(q, _)| *q == p) {
                map.push((p, ns));
            }
        }
    }
    if !map.iter().any(|(q, _)| *q == 1) {
        map.push((1, 1));
    }
    map
}

fn declared_below(t: &GTree, out: &mut Vec<usize>) {
    for (p, _) in own_decls(t) {
        out.push(p);
    }
    for k in &t.kids {
        declared_below(k, out);
    }
}

fn strip_ns(t: &GTree) -> GTree {
    GTree::new(t.v.clone(), t.kids.iter().filter(|k| !matches!(k.v, GValue::Namespace(..))).map(strip_ns).collect())
}

fn first_difference(a: &GTree, b: &GTree, path: &mut Vec<usize>) -> Option<String> {
    if a.v != b.v {
        let kind = match (&a.v, &b.v) {
            (GValue::Element(_), GValue::Element(_)) => "element-name",
            (GValue::Text(_), GValue::Text(_)) => "text-content",
            (GValue::Attribute(x, _), GValue::Attribute(y, _)) if x == y => "attribute-value",
            (GValue::Attribute(..), GValue::Attribute(..)) => "attribute-name-or-order",
            (GValue::Namespace(..), GValue::Namespace(..)) => "namespace-declaration",
            _ => "node-kind",
        };
        return Some(format!("{}@{}", kind, path_str(path)));
    }
    if a.kids.len() != b.kids.len() {
        return Some(format!("child-count@{}", path_str(path)));
    }
    for (i, (x, y)) in a.kids.iter().zip(b.kids.iter()).enumerate() {
        path.push(i);
        if let Some(d) = first_difference(x, y, path) {
            return Some(d);
        }
        path.pop();
    }
    None
}

struct DeclCheck<'a> {
    vocab: &'a Vocab,
    /// paths (in the tree before the call) of the elements that may receive new prefixes
    targets: Vec<Vec<usize>>,
    problems: Vec<(String, String)>,
    added_prefixes: Vec<(Vec<usize>, usize, usize)>,
    undeclared: Vec<Vec<usize>>,
}

/// Walk `before` and `after` together (same normal structure, checked earlier): every original
/// declaration is still there with its binding, except a default declaration on an element that is
/// itself in no namespace (expected to have become `xmlns=""`); whatever is new is recorded.
fn compare_decls(c: &mut DeclCheck, before: &GTree, after: &GTree, path: &mut Vec<usize>, inside: bool) {
    let inside = inside || c.targets.iter().any(|t| t == path);
    if let GValue::Element(name) = before.v {
        let db = own_decls(before);
        let da = own_decls(after);
        let el_no_ns = ns_of(c.vocab, name) == 0;
        for (p, ns) in &db {
            match da.iter().find(|(q, _)| q == p) {
                None => c.problems.push(("C10:repair-removes-a-declaration".into(), format!("prefix {} at {}", p, path_str(path)))),
                Some((_, ns2)) if ns2 == ns => {}
                Some((_, ns2)) => {
                    if *p == 0 && *ns2 == 0 && el_no_ns && inside {
                        c.undeclared.push(path.clone());
                    } else {
                        c.problems.push(("C10:repair-rebinds-an-existing-declaration".into(), format!("prefix {} at {}: namespace {} became {}", p, path_str(path), ns, ns2)));
                    }
                }
            }
        }
        if da.iter().map(|d| d.0).collect::<std::collections::BTreeSet<_>>().len() != da.len() {
            c.problems.push(("C10:repair-declares-a-prefix-twice-on-one-element".into(), format!("at {}", path_str(path))));
        }
        for (p, ns) in &da {
            if db.iter().any(|(q, _)| q == p) {
                continue;
            }
            if !inside {
                c.problems.push(("C10:repair-adds-a-declaration-outside-the-repaired-subtree".into(), format!("prefix {} at {}", p, path_str(path))));
            } else if *p == 0 {
                if *ns == 0 && el_no_ns {
                    c.undeclared.push(path.clone());
                } else {
                    c.problems.push(("C10:repair-adds-a-default-namespace".into(), format!("xmlns={} at {}", ns, path_str(path))));
                }
            } else if c.targets.iter().any(|t| t == path) {
                c.added_prefixes.push((path.clone(), *p, *ns));
            } else {
                c.problems.push(("C10:repair-adds-a-prefix-below-the-repaired-element".into(), format!("prefix {} at {}", p, path_str(path))));
            }
        }
    }
    let kb: Vec<(usize, &GTree)> = before.kids.iter().enumerate().filter(|(_, k)| k.is_normal()).collect();
    let ka: Vec<&GTree> = after.kids.iter().filter(|k| k.is_normal()).collect();
    for ((i, x), y) in kb.iter().zip(ka.iter()) {
        path.push(*i);
        compare_decls(c, x, y, path, inside);
        path.pop();
    }
}

// ---------------------------------------------------------------------------------------------
// one call: transcript line + oracle

struct World {
    xot: Xot,
    vocab: Vocab,
    root: Node,
    history: Vec<String>,
    /// successful calls so far in this history, and whether a node in a brand-new namespace was
    /// added since the last one (statistics for the "however often … repeated" clause)
    calls_ok: usize,
    new_ns_since_call: bool,
}

fn node_at(w: &World, tree: &GTree, path: &[usize]) -> Node {
    let nodes = nodes_in_order(&w.xot, w.root);
    let paths = tree.paths();
    let idx = paths.iter().position(|p| p.as_slice() == path).expect("path exists");
    nodes[idx]
}

fn fail(sink: &mut Sink, w: &World, sig: &str, what: &str) {
    // at most a handful of F lines per signature; the statistics count all of them
    let key = format!("oracle.fail.{}", sig);
    let n = sink.stats.get(&key).copied().unwrap_or(0);
    sink.stat(&key);
    if n < 4 {
        sink.fail("C10", sig, what, &w.history);
    }
}

/// Returns false when the history should stop (panic: the forest may be half-changed).
fn call_and_check(w: &mut World, path: &[usize], sink: &mut Sink) -> bool {
    let before = read_tree(&w.xot, &mut w.vocab, w.root);
    let node = node_at(w, &before, path);
    let n_prefixes = w.vocab.prefixes.len();
    let vocab_line = w.vocab.wire();
    sink.emit(vocab_line.clone(), "ok".to_string());
    let request = format!("repair {} {}", path_str(path), before.wire());
    w.history.push(vocab_line);
    w.history.push(request.clone());
    let r = guarded(|| w.xot.create_missing_prefixes(node));
    let target = before.at(path).unwrap();
    let targets: Vec<Vec<usize>> = match &target.v {
        GValue::Document => target
            .kids
            .iter()
            .enumerate()
            .filter(|(_, k)| matches!(k.v, GValue::Element(_)))
            .map(|(i, _)| {
                let mut p = path.to_vec();
                p.push(i);
                p
            })
            .collect(),
        GValue::Element(_) => vec![path.to_vec()],
        _ => vec![],
    };
    match r {
        None => {
            sink.emit(request, "panic".to_string());
            fail(sink, w, "C10:create_missing_prefixes-panics", "create_missing_prefixes panicked");
            return false;
        }
        Some(Err(e)) => {
            let resp = crate::suite_ser::err_str(&e);
            sink.stat(&format!("call.{}", resp));
            sink.emit(request, resp.clone());
            let expected = match &target.v {
                GValue::Document if targets.is_empty() => "err:NoElementAtTopLevel",
                GValue::Document | GValue::Element(_) => "",
                _ => "err:NotElement",
            };
            if resp != expected {
                fail(sink, w, "C10:create_missing_prefixes-refuses-a-document-or-element", &format!("{} where {:?} is expected", resp, expected));
            }
            let after = read_tree(&w.xot, &mut w.vocab, w.root);
            if after != before {
                fail(sink, w, "C10:refused-call-changes-the-tree", &format!("after the refused call: {}", after.wire()));
            }
            return true;
        }
        Some(Ok(())) => {}
    }
    let after = read_tree(&w.xot, &mut w.vocab, w.root);
    let added: Vec<String> = w.vocab.prefixes[n_prefixes..].iter().map(|(s, _)| enc(s)).collect();
    sink.emit(request, format!("ok {} pf {}", after.wire(), if added.is_empty() { "-".to_string() } else { added.join(",") }));
    sink.stat("call.ok");
    sink.stat(&format!("call.on.{}", match &target.v { GValue::Document => if targets.len() > 1 { "fragment-several-elements" } else { "document" }, GValue::Element(_) => if path.is_empty() { "parentless-element" } else if path.len() == 1 { "top-element" } else { "inner-element" }, _ => "other" }));
    if targets.is_empty() {
        fail(sink, w, "C10:create_missing_prefixes-accepts-a-node-without-element", "Ok(()) for a node that is neither an element nor a document with an element child");
        return true;
    }
    // (1) names, attributes, content untouched
    if strip_ns(&after) != strip_ns(&before) {
        let d = first_difference(&strip_ns(&before), &strip_ns(&after), &mut vec![]).unwrap_or("?".into());
        fail(sink, w, &format!("C10:repair-changes-names-or-content:{}", d.split('@').next().unwrap()), &format!("{} ; after {}", d, after.wire()));
        return true;
    }
    // (2) declarations: nothing lost, nothing rebound except the one contradictory case, additions
    // only where the call may put them
    let mut dc = DeclCheck { vocab: &w.vocab, targets: targets.clone(), problems: vec![], added_prefixes: vec![], undeclared: vec![] };
    compare_decls(&mut dc, &before, &after, &mut vec![], false);
    let (problems, added_prefixes, undeclared) = (dc.problems, dc.added_prefixes, dc.undeclared);
    for (sig, what) in &problems {
        fail(sink, w, sig, &format!("{} ; after {}", what, after.wire()));
    }
    // (3) no binding overridden: a new prefix is bound nowhere in scope of the element and
    // declared nowhere in its subtree; xmlns="" only where a default namespace was in force
    if w.calls_ok > 0 {
        sink.stat(&format!("call.repeated.{}", if w.calls_ok >= 3 { "4th+".to_string() } else { format!("{}", w.calls_ok + 1) }));
        if w.new_ns_since_call {
            sink.stat(if added_prefixes.is_empty() { "call.repeated.after-new-namespace.nothing-added" } else { "call.repeated.after-new-namespace.prefix-added" });
        }
    }
    w.calls_ok += 1;
    w.new_ns_since_call = false;
    for (p, pfx, ns) in &added_prefixes {
        sink.stat("oracle.prefix-added");
        let in_scope = scope_at(&before, p);
        let mut below = vec![];
        declared_below(before.at(p).unwrap(), &mut below);
        if in_scope.iter().any(|(q, _)| q == pfx) {
            fail(sink, w, "C10:new-prefix-overrides-a-binding-in-scope", &format!("prefix {} ({:?}) added at {} is bound in scope there", pfx, w.vocab.prefixes[*pfx].0, path_str(p)));
        }
        if below.contains(pfx) {
            fail(sink, w, "C10:new-prefix-is-declared-in-the-subtree", &format!("prefix {} ({:?}) added at {} is declared below it", pfx, w.vocab.prefixes[*pfx].0, path_str(p)));
        }
        if *ns == 0 || *ns == 1 {
            fail(sink, w, "C10:new-prefix-bound-to-reserved-namespace", &format!("prefix {} bound to namespace {}", pfx, ns));
        }
        let text = &w.vocab.prefixes[*pfx].0;
        if !(text.starts_with('n') && text.len() > 1 && text[1..].chars().all(|c| c.is_ascii_digit())) {
            fail(sink, w, "C10:new-prefix-not-of-the-form-n-i", &format!("prefix {:?}", text));
        }
    }
    for p in &undeclared {
        sink.stat("oracle.default-undeclared");
        let mut scope = scope_at(&before, p);
        scope.retain(|(q, _)| *q == 0);
        if scope.first().map_or(true, |(_, ns)| *ns == 0) {
            fail(sink, w, "C10:xmlns-empty-added-without-a-default-namespace-in-scope", &format!("at {}", path_str(p)));
        }
    }
    // (4) serialisation succeeds and reparses to the repaired tree
    let after_sub = after.at(&shift_path(&before, &after, path)).cloned().unwrap_or_else(|| after.clone());
    match guarded(|| w.xot.to_string(node)) {
        None => fail(sink, w, "C10:serialisation-panics-after-repair", "to_string panics"),
        Some(Err(e)) => fail(sink, w, &format!("C10:serialisation-fails-after-repair:{}", crate::suite_ser::err_str(&e).split(' ').next().unwrap()), &format!("{:?} ; after {}", e, after.wire())),
        Some(Ok(s)) => {
            sink.stat("oracle.serialises");
            let is_doc = matches!(target.v, GValue::Document);
            let well_formed_document = is_doc && targets.len() == 1 && !target.kids.iter().any(|k| matches!(k.v, GValue::Text(_)));
            let parsed = if is_doc && !well_formed_document { w.xot.parse_fragment(&s) } else { w.xot.parse(&s) };
            match parsed {
                Err(e) => fail(sink, w, "C10:repaired-output-rejected", &format!("{:?} for {:?}", e, s)),
                Ok(doc) => {
                    let back = read_tree(&w.xot, &mut w.vocab, doc);
                    let back = if is_doc { back } else { back.kids.into_iter().find(|k| matches!(k.v, GValue::Element(_))).unwrap_or(GTree::leaf(GValue::Document)) };
                    let exact = path.is_empty();
                    let same = if exact { back == after_sub } else { strip_ns(&back) == strip_ns(&after_sub) && decls_subset(&after_sub, &back) };
                    if !same {
                        let d = if exact { first_difference(&after_sub, &back, &mut vec![]) } else { first_difference(&strip_ns(&after_sub), &strip_ns(&back), &mut vec![]) }.unwrap_or("declarations".into());
                        fail(sink, w, &format!("C10:repaired-tree-reparses-differently:{}", d.split('@').next().unwrap()), &format!("{} ; output {:?}", d, s));
                    } else {
                        sink.stat("oracle.reparse-equal");
                    }
                }
            }
        }
    }
    // (5) a second call changes nothing
    let n2 = w.vocab.prefixes.len();
    match guarded(|| w.xot.create_missing_prefixes(node)) {
        Some(Ok(())) => {
            let again = read_tree(&w.xot, &mut w.vocab, w.root);
            if again != after {
                fail(sink, w, "C10:second-repair-call-changes-the-tree", &format!("second call gives {}", again.wire()));
            } else if w.vocab.prefixes.len() != n2 {
                fail(sink, w, "C10:second-repair-call-registers-prefixes", "the prefix table grew");
            } else {
                sink.stat("oracle.second-call-identity");
            }
        }
        _ => fail(sink, w, "C10:second-repair-call-fails", "second call does not return Ok"),
    }
    true
}

/// The path of the same node after the call (namespace nodes may have been inserted in front of
/// the normal children of elements on the way).
fn shift_path(before: &GTree, after: &GTree, path: &[usize]) -> Vec<usize> {
    let mut out = vec![];
    let (mut b, mut a) = (before, after);
    for &i in path {
        let nb = b.kids.iter().take(i).filter(|k| matches!(k.v, GValue::Namespace(..))).count();
        let rank = i - nb; // position among the non-namespace children (the node is not a namespace node)
        let mut seen = 0;
        let mut j = 0;
        for (idx, k) in a.kids.iter().enumerate() {
            if !matches!(k.v, GValue::Namespace(..)) {
                if seen == rank {
                    j = idx;
                    break;
                }
                seen += 1;
            }
        }
        out.push(j);
        b = &b.kids[i];
        a = &a.kids[j];
    }
    out
}

/// declarations of `a` appear in `b`, element by element (the output of a subtree serialisation
/// carries the inherited declarations on its top element in addition)
fn decls_subset(a: &GTree, b: &GTree) -> bool {
    let da = own_decls(a);
    let db = own_decls(b);
    if !da.iter().all(|d| db.contains(d)) {
        return false;
    }
    let ka: Vec<&GTree> = a.kids.iter().filter(|k| k.is_normal()).collect();
    let kb: Vec<&GTree> = b.kids.iter().filter(|k| k.is_normal()).collect();
    ka.len() == kb.len() && ka.iter().zip(kb.iter()).all(|(x, y)| decls_subset(x, y))
}

// ---------------------------------------------------------------------------------------------
// edits between calls

fn element_paths(t: &GTree) -> Vec<Vec<usize>> {
    t.paths().into_iter().filter(|p| matches!(t.at(p).unwrap().v, GValue::Element(_))).collect()
}

fn edit(w: &mut World, rng: &mut Rng, sink: &mut Sink, fresh: &mut usize) {
    let tree = read_tree(&w.xot, &mut w.vocab, w.root);
    let els = element_paths(&tree);
    if els.is_empty() {
        return;
    }
    let at = rng.pick(&els).clone();
    let node = node_at(w, &tree, &at);
    match rng.below(9) {
        0 | 1 => {
            // a node in a namespace never seen before
            *fresh += 1;
            let ns = w.vocab.add_ns(&mut w.xot, &format!("urn:new{}", fresh));
            let name = w.vocab.add_name(&mut w.xot, "e", ns);
            let attr = w.vocab.add_name(&mut w.xot, "k", ns);
            let e = w.xot.new_element(w.vocab.name(name));
            if rng.chance(1, 2) {
                w.xot.set_attribute(e, w.vocab.name(attr), "v");
            }
            let _ = w.xot.append(node, e);
            w.history.push(format!("append new element {{urn:new{}}}e under {}", fresh, path_str(&at)));
            sink.stat("edit.append-element-in-new-namespace");
            w.new_ns_since_call = true;
        }
        2 => {
            let name = *rng.pick(&EL_NAMES);
            let e = w.xot.new_element(w.vocab.name(name));
            let _ = w.xot.append(node, e);
            w.history.push(format!("append new element {} under {}", name, path_str(&at)));
            sink.stat("edit.append-element");
        }
        3 => {
            let a = *rng.pick(&[8usize, 11, 14]);
            w.xot.set_attribute(node, w.vocab.name(a), "v");
            w.history.push(format!("set attribute {} on {}", a, path_str(&at)));
            sink.stat("edit.set-attribute-in-namespace");
        }
        4 | 5 => {
            // move a subtree away from the declarations it relied on
            let to = rng.pick(&els).clone();
            if to.starts_with(&at) || at.is_empty() {
                return;
            }
            let dest = node_at(w, &tree, &to);
            if w.xot.append(dest, node).is_ok() {
                w.history.push(format!("move {} under {}", path_str(&at), path_str(&to)));
                sink.stat("edit.move-subtree");
            }
        }
        6 => {
            let to = rng.pick(&els).clone();
            let dest = node_at(w, &tree, &to);
            let c = w.xot.clone_node(node);
            if w.xot.append(dest, c).is_ok() {
                w.history.push(format!("clone {} under {}", path_str(&at), path_str(&to)));
                sink.stat("edit.clone-subtree");
            }
        }
        7 => {
            let p = *rng.pick(&DECL_PREFIXES);
            let ns = if p == 0 { *rng.pick(&[0usize, NS_A, NS_B]) } else { *rng.pick(&NS_POOL) };
            w.xot.set_namespace(node, w.vocab.prefix(p), w.vocab.ns(ns));
            w.history.push(format!("set namespace {}={} on {}", p, ns, path_str(&at)));
            sink.stat("edit.set-declaration");
        }
        _ => {
            let d = own_decls(tree.at(&at).unwrap());
            if let Some((p, _)) = d.first() {
                w.xot.remove_namespace(node, w.vocab.prefix(*p));
                w.history.push(format!("remove namespace {} on {}", p, path_str(&at)));
                sink.stat("edit.remove-declaration");
            }
        }
    }
}

fn pick_call_path(rng: &mut Rng, tree: &GTree) -> Vec<usize> {
    let els = element_paths(tree);
    match rng.below(10) {
        0..=5 => vec![],
        6..=8 if !els.is_empty() => rng.pick(&els).clone(),
        _ => rng.pick(&tree.paths()).clone(),
    }
}

fn run_history(t: &GTree, rng: &mut Rng, sink: &mut Sink, calls: usize, first_call: Option<Vec<usize>>) {
    let mut xot = Xot::new();
    let vocab = Vocab::standard(&mut xot);
    let root = match build(&mut xot, &vocab, t, true) {
        Ok(r) => r,
        Err(_) => {
            sink.stat("gen.build-refused");
            return;
        }
    };
    let mut w = World { xot, vocab, root, history: vec![format!("tree {}", t.wire())], calls_ok: 0, new_ns_since_call: false };
    let mut fresh = 0;
    for i in 0..calls {
        let tree = read_tree(&w.xot, &mut w.vocab, w.root);
        let path = match (&first_call, i) {
            (Some(p), 0) => p.clone(),
            _ => pick_call_path(rng, &tree),
        };
        if !call_and_check(&mut w, &path, sink) {
            return;
        }
        for _ in 0..1 + rng.below(3) {
            edit(&mut w, rng, sink, &mut fresh);
        }
    }
}

// ---------------------------------------------------------------------------------------------

fn el(n: usize, kids: Vec<GTree>) -> GTree {
    GTree::new(GValue::Element(n), kids)
}
fn nsd(p: usize, ns: usize) -> GTree {
    GTree::leaf(GValue::Namespace(p, ns))
}
fn att(n: usize) -> GTree {
    GTree::leaf(GValue::Attribute(n, "v".into()))
}
fn doc(kids: Vec<GTree>) -> GTree {
    GTree::new(GValue::Document, kids)
}

/// The shapes the property names, each called at the root and at every element.
fn corpus(rng: &mut Rng, sink: &mut Sink) {
    let cases: Vec<GTree> = vec![
        // nothing declared
        doc(vec![el(6, vec![att(11), el(9, vec![]), el(12, vec![att(8)])])]),
        // some declared, one shadowed
        doc(vec![el(6, vec![nsd(2, NS_A), el(9, vec![nsd(2, NS_B), el(7, vec![])])])]),
        // only as default namespace while used by an attribute
        doc(vec![el(6, vec![nsd(0, NS_A), att(8)])]),
        // no-namespace elements under a default namespace
        doc(vec![el(6, vec![nsd(0, NS_A), el(2, vec![el(7, vec![]), el(3, vec![])])])]),
        // an element in no namespace that itself declares a default namespace; descendants use it
        doc(vec![el(2, vec![nsd(0, NS_A), el(6, vec![]), el(3, vec![])])]),
        el(2, vec![nsd(0, NS_A), att(8), el(6, vec![att(8)])]),
        // pre-existing n0 / n1: in scope, declared below, bound to the namespace needed
        doc(vec![el(6, vec![nsd(5, NS_B), el(9, vec![]), el(12, vec![nsd(6, NS_B)])])]),
        doc(vec![el(2, vec![el(6, vec![nsd(5, NS_C)]), el(9, vec![nsd(6, NS_C), el(5, vec![nsd(5, NS_A)])])])]),
        doc(vec![el(2, vec![nsd(5, NS_A), el(3, vec![el(9, vec![]), el(12, vec![])])])]),
        // fragment with several top-level elements
        doc(vec![el(6, vec![]), GTree::leaf(GValue::Text("t".into())), el(9, vec![att(8)]), el(6, vec![nsd(0, NS_A), el(2, vec![])])]),
        // no element at all
        doc(vec![GTree::leaf(GValue::Comment("c".into()))]),
        doc(vec![]),
        // xmlns="" already there; default re-declared below it
        doc(vec![el(6, vec![nsd(0, NS_A), el(2, vec![nsd(0, 0), el(7, vec![nsd(0, NS_A), el(3, vec![])])])])]),
    ];
    for t in &cases {
        let mut starts: Vec<Vec<usize>> = vec![vec![]];
        starts.extend(element_paths(t));
        starts.dedup();
        for s in starts {
            run_history(t, rng, sink, 2, Some(s));
        }
    }
}

/// Small-scope enumeration: chains and pairs of up to three elements, every element choosing a
/// name (no namespace / urn:a / urn:b), a declaration (none, default a, default b, p=a, n0=a,
/// n0=b, xmlns="") and an attribute (none, {urn:a}x); called at the document and at each element.
fn exhaustive(rng: &mut Rng, sink: &mut Sink) {
    let names = [2usize, 6, 9];
    let decls: [Option<(usize, usize)>; 7] = [None, Some((0, NS_A)), Some((0, NS_B)), Some((2, NS_A)), Some((5, NS_A)), Some((5, NS_B)), Some((0, 0))];
    let attrs = [None, Some(8usize)];
    let mut opts: Vec<(usize, Vec<GTree>)> = vec![];
    for n in names {
        for d in decls {
            for a in attrs {
                let mut kids = vec![];
                if let Some((p, ns)) = d {
                    kids.push(nsd(p, ns));
                }
                if let Some(a) = a {
                    kids.push(att(a));
                }
                opts.push((n, kids));
            }
        }
    }
    let mk = |i: usize, extra: Vec<GTree>| {
        let mut kids = opts[i].1.clone();
        kids.extend(extra);
        el(opts[i].0, kids)
    };
    let n = opts.len();
    for a in 0..n {
        for b in 0..n {
            let t2 = doc(vec![mk(a, vec![mk(b, vec![])])]);
            for s in [vec![], vec![0]] {
                run_history(&t2, rng, sink, 1, Some(s));
            }
            let inner = element_paths(&t2).last().unwrap().clone();
            run_history(&t2, rng, sink, 1, Some(inner));
            // a third element only for a third of the pairs (volume)
            if (a + b) % 3 == 0 {
                for c in 0..n {
                    run_history(&doc(vec![mk(a, vec![mk(b, vec![mk(c, vec![])])])]), rng, sink, 1, Some(vec![]));
                    run_history(&doc(vec![mk(a, vec![mk(b, vec![]), mk(c, vec![])])]), rng, sink, 1, Some(vec![]));
                    run_history(&doc(vec![mk(a, vec![]), mk(b, vec![mk(c, vec![])])]), rng, sink, 1, Some(vec![]));
                }
            }
        }
    }
}

pub fn run(seed: u64, count: usize, tier: &str, sink: &mut Sink) {
    let mut rng = Rng::new(seed ^ 0x2E9A12);
    corpus(&mut rng, sink);
    if tier == "thorough" {
        exhaustive(&mut rng, sink);
    }
    let search = tier == "search";
    for _ in 0..count {
        let t = gen_root(&mut rng, sink);
        sink.stat(&format!("size.{}", match t.size() { 0..=1 => "1", 2..=5 => "2-5", 6..=15 => "6-15", 16..=40 => "16-40", _ => "41+" }));
        let calls = if search { 2 + rng.below(6) } else { 1 + rng.below(4) };
        run_history(&t, &mut rng, sink, calls, None);
    }
}
