//! C14 oracle helpers of the `ser` suite: check-and-strip of the prolog (XMLDecl / doctypedecl
//! grammar) and the whitespace diff between the original content and the reparsed indented output.
use crate::ser_oracle::{CNode, XML_URI};
use crate::suite_ser::Params;

/// Check and strip the prolog the parameters ask for (XMLDecl / doctypedecl grammar).
pub fn strip_prolog<'a>(s: &'a str, p: &Params) -> Result<(&'a str, Option<String>), String> {
    let mut rest = s;
    if let Some((e, sa)) = &p.decl {
        let mut want = String::from("<?xml version=\"1.0\"");
        if let Some(e) = e {
            want.push_str(&format!(" encoding=\"{}\"", e));
        }
        if let Some(sa) = sa {
            want.push_str(&format!(" standalone=\"{}\"", if *sa { "yes" } else { "no" }));
        }
        want.push_str("?>");
        rest = rest.strip_prefix(want.as_str()).ok_or(format!("expected declaration {:?}", want))?;
        rest = rest.strip_prefix('\n').ok_or("no line break after the declaration".to_string())?;
    }
    let mut name = None;
    if let Some((pubid, sys)) = &p.doctype {
        rest = rest.strip_prefix("<!DOCTYPE ").ok_or("expected <!DOCTYPE".to_string())?;
        let sp = rest.find(' ').ok_or("doctype without external id".to_string())?;
        name = Some(rest[..sp].to_string());
        let want = match pubid {
            Some(pb) => format!(" PUBLIC \"{}\" \"{}\">", pb, sys),
            None => format!(" SYSTEM \"{}\">", sys),
        };
        rest = rest[sp..].strip_prefix(want.as_str()).ok_or(format!("expected external id {:?}", want))?;
        rest = rest.strip_prefix('\n').ok_or("no line break after the doctype".to_string())?;
    }
    Ok((rest, name))
}

#[derive(Clone, Copy)]
pub struct Ctx {
    pub preserve: bool,
    pub suppressed: bool,
    pub mixed: bool,
}

pub struct Added {
    pub has_text: bool,
    pub ctx: Ctx,
}

fn is_added_ws(s: &str) -> bool {
    !s.is_empty() && s.chars().all(|c| c == ' ' || c == '\n')
}

fn merged_ws(orig: &str, new: &str) -> bool {
    if new.len() <= orig.len() {
        return false;
    }
    (0..=new.len() - orig.len()).any(|i| {
        new.is_char_boundary(i) && new[i..].starts_with(orig) && new[..i].chars().all(|c| c == ' ' || c == '\n') && new[i + orig.len()..].chars().all(|c| c == ' ' || c == '\n')
    })
}

fn diff_kids(orig: &[CNode], new: &[CNode], has_text: bool, ctx: Ctx, suppress: &[usize], out: &mut Vec<Added>) -> Result<(), String> {
    let (mut i, mut j) = (0, 0);
    while i < orig.len() || j < new.len() {
        let o = orig.get(i);
        let n = new.get(j);
        match (o, n) {
            (Some(CNode::Elem { name: a, .. }), Some(CNode::Elem { name: b, .. })) if a == b => {
                ws_diff(o.unwrap(), n.unwrap(), ctx, suppress, out)?;
                i += 1;
                j += 1;
            }
            (Some(a), Some(b)) if !matches!(a, CNode::Elem { .. }) && a == b => {
                i += 1;
                j += 1;
            }
            (Some(CNode::Text(a)), Some(CNode::Text(b))) if merged_ws(a, b) => {
                out.push(Added { has_text: true, ctx });
                i += 1;
                j += 1;
            }
            (_, Some(CNode::Text(b))) if is_added_ws(b) => {
                out.push(Added { has_text, ctx });
                j += 1;
            }
            _ => return Err(format!("content differs: original child {:?}, reparsed child {:?}", o, n)),
        }
    }
    Ok(())
}

pub fn ws_diff(orig: &CNode, new: &CNode, ctx: Ctx, suppress: &[usize], out: &mut Vec<Added>) -> Result<(), String> {
    match (orig, new) {
        (CNode::Doc(a), CNode::Doc(b)) => diff_kids(a, b, a.iter().any(|k| matches!(k, CNode::Text(_))), ctx, suppress, out),
        (CNode::Elem { name: n1, id, attrs: a1, kids: k1 }, CNode::Elem { name: n2, attrs: a2, kids: k2, .. }) => {
            if n1 != n2 || a1 != a2 {
                return Err(format!("element {:?} {:?} reparsed as {:?} {:?}", n1, a1, n2, a2));
            }
            let has_text = k1.iter().any(|k| matches!(k, CNode::Text(_)));
            let space = a1.iter().find(|((l, u), _)| l == "space" && u == XML_URI).map(|(_, v)| v.as_str());
            let inner = Ctx {
                preserve: match space {
                    Some("preserve") => true,
                    Some("default") => false,
                    _ => ctx.preserve,
                },
                suppressed: ctx.suppressed || suppress.contains(id),
                mixed: ctx.mixed || has_text,
            };
            diff_kids(k1, k2, has_text, inner, suppress, out)
        }
        _ => Err("node kinds differ".to_string()),
    }
}

