//! Suite `tree`: codec self-check — a generated tree is built in a real Xot, read back through
//! the public API and echoed by the model (`tree echo <tree>` -> `<tree>`), plus `tree size`.
use crate::common::{Rng, Sink};
use crate::tree::*;
use xot::Xot;

pub fn run(seed: u64, count: usize, _tier: &str, sink: &mut Sink) {
    let mut rng = Rng::new(seed ^ 0x7EE);
    let cfg = GenCfg::default_cfg();
    for _ in 0..count {
        let mut xot = Xot::new();
        let mut vocab = Vocab::standard(&mut xot);
        let t = if rng.chance(1, 2) { gen_document(&mut rng, &cfg) } else { gen_fragment(&mut rng, &cfg) };
        let node = build(&mut xot, &vocab, &t, true).expect("generated tree builds");
        let back = read_tree(&xot, &mut vocab, node);
        sink.stat(if back == t { "readback.same" } else { "readback.differs" });
        sink.emit(format!("tree echo {}", t.wire()), back.wire());
        sink.emit(format!("tree size {}", t.wire()), format!("{}", nodes_in_order(&xot, node).len()));
    }
}
