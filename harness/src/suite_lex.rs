//! Suite `lex`: an input string -> the token dump of the real tokenizer (xmlparser 0.13.6), in
//! document mode (`Tokenizer::from`) and fragment mode (`Tokenizer::from_fragment`), for the
//! correspondence check of the Lean model of the tokenizer.
//!
//! Request `lex doc s:<hex>` / `lex frag s:<hex>`; response `lex` followed by the words of
//! `build_obs::dump_tokens` (token words, `X <pos>` at the first tokenizer error), or `panic`.
//!
//! Modes: every case is ONE generated string; which modes it is emitted in is drawn per case
//! (`modes_for`): strings with a native mode (rendered / serialised documents and fragments and
//! their mutations) go 70 % to the native mode only, 10 % to the other mode only, 20 % to both;
//! strings without one go 1/3 doc, 1/3 frag, 1/3 both.  The exhaustive enumerations and the fixed
//! corpus go to both modes.  (mode, string) pairs already emitted are skipped.
//!
//! Input families (statistics `family.*`):
//!   a  renderings of the build suite's renderer (all spelling freedom), plus a generated
//!      document type declaration with internal subset in a third of the documents, plus a BOM
//!   b  xot's own serialiser on generated trees (plain, and with indentation / declaration /
//!      doctype / cdata parameters)
//!   c  mutations of a / b strings (char delete / insert / replace / duplicate, critical snippets,
//!      truncation); tier thorough: truncation at every char position of ~60 short base strings
//!   d  short random strings over a critical alphabet (`d.short`), concatenations of
//!      declaration / DTD flavoured pieces (`d.pieces`); tier thorough: every string of length <= 4
//!      over a 12-letter alphabet
//!   e  explicit layouts (lex_layout.rs, the mirror of `LToken` / `LDecl` / `LDoc` of the Lean side):
//!      every layout freedom of C02 drawn independently — quote per attribute, white space before
//!      attributes, around `=`, before `>` / `/>`, in end tags and PIs, between and after top-level
//!      items, XML declaration layouts, BOM — with the tokens the text must lex to; drawn from an
//!      own generator state AFTER the other families (their cases do not depend on it)
//! Statistics `lay.*` (lex_layout::layout_stats): per layout freedom, measured on the tokens of
//! every input of every family.
//! Oracle (implementation only): every span of every token is a slice of the input at its
//! offset (C17), the error position is inside the input (C17), the tokenizer never panics (C03);
//! family e: the tokenizer returns exactly the tokens the layout stands for (C02).
use crate::build_gen::{render_document, render_fragment};
use crate::build_obs::dump_tokens;
use crate::build_render::RCfg;
use crate::common::{dec, enc, guarded, Rng, Sink};
use crate::lex_layout::{check_layout, gen_layout, layout_stats};
use crate::ser_gen::gen_params;
use crate::tree::*;
use std::collections::HashSet;
use xmlparser::{ElementEnd, EntityDefinition, ExternalId, StrSpan, Token, Tokenizer};
use xot::Xot;

#[derive(Clone, Copy, PartialEq)]
enum Modes {
    Doc,
    Frag,
    Both,
}

fn modes_for(rng: &mut Rng, native_fragment: Option<bool>) -> Modes {
    match native_fragment {
        Some(f) => {
            let (native, other) = if f { (Modes::Frag, Modes::Doc) } else { (Modes::Doc, Modes::Frag) };
            match rng.below(10) {
                0..=6 => native,
                7 => other,
                _ => Modes::Both,
            }
        }
        None => match rng.below(3) {
            0 => Modes::Doc,
            1 => Modes::Frag,
            _ => Modes::Both,
        },
    }
}

// ---------------------------------------------------------------------------------------------
// Oracle: an own walk over the tokenizer that looks at every span.

fn chk(xml: &str, what: &str, sp: &StrSpan, out: &mut Vec<(&'static str, String)>) {
    if xml.get(sp.start()..sp.start() + sp.as_str().len()) != Some(sp.as_str()) || sp.end() != sp.start() + sp.as_str().len() {
        out.push(("C17:token-span-not-a-slice", format!("{}: span at {}..{} with text {:?} is not that slice of the input", what, sp.start(), sp.end(), sp.as_str())));
    }
}

fn chk_ext(xml: &str, what: &str, id: &Option<ExternalId>, out: &mut Vec<(&'static str, String)>) {
    match id {
        None => {}
        Some(ExternalId::System(a)) => chk(xml, what, a, out),
        Some(ExternalId::Public(a, b)) => {
            chk(xml, what, a, out);
            chk(xml, what, b, out);
        }
    }
}

/// (signature, what) of every violated span fact.
fn span_problems(xml: &str, fragment: bool) -> Vec<(&'static str, String)> {
    let mut out = vec![];
    let mut tokenizer = if fragment { Tokenizer::from_fragment(xml, 0..xml.len()) } else { Tokenizer::from(xml) };
    loop {
        let position = tokenizer.stream().pos();
        match tokenizer.next() {
            None => break,
            Some(Err(e)) => {
                if position > xml.len() || tokenizer.stream().pos() > xml.len() {
                    out.push(("C17:lex-error-position-outside", format!("error {:?} reported at stream position {} of {}", e, position, xml.len())));
                }
                break;
            }
            Some(Ok(t)) => {
                chk(xml, "token", &t.span(), &mut out);
                match &t {
                    Token::Declaration { version, encoding, span, .. } => {
                        chk(xml, "declaration.version", version, &mut out);
                        if let Some(e) = encoding {
                            chk(xml, "declaration.encoding", e, &mut out);
                        }
                        chk(xml, "declaration.span", span, &mut out);
                    }
                    Token::ProcessingInstruction { target, content, span } => {
                        chk(xml, "pi.target", target, &mut out);
                        if let Some(c) = content {
                            chk(xml, "pi.content", c, &mut out);
                        }
                        chk(xml, "pi.span", span, &mut out);
                    }
                    Token::Comment { text, span } => {
                        chk(xml, "comment.text", text, &mut out);
                        chk(xml, "comment.span", span, &mut out);
                    }
                    Token::DtdStart { name, external_id, span } | Token::EmptyDtd { name, external_id, span } => {
                        chk(xml, "dtd.name", name, &mut out);
                        chk_ext(xml, "dtd.external_id", external_id, &mut out);
                        chk(xml, "dtd.span", span, &mut out);
                    }
                    Token::EntityDeclaration { name, definition, span } => {
                        chk(xml, "entity.name", name, &mut out);
                        match definition {
                            EntityDefinition::EntityValue(v) => chk(xml, "entity.value", v, &mut out),
                            EntityDefinition::ExternalId(id) => chk_ext(xml, "entity.external_id", &Some(*id), &mut out),
                        }
                        chk(xml, "entity.span", span, &mut out);
                    }
                    Token::DtdEnd { span } => chk(xml, "dtd-end.span", span, &mut out),
                    Token::ElementStart { prefix, local, span } => {
                        chk(xml, "element-start.prefix", prefix, &mut out);
                        chk(xml, "element-start.local", local, &mut out);
                        chk(xml, "element-start.span", span, &mut out);
                    }
                    Token::Attribute { prefix, local, value, span } => {
                        chk(xml, "attribute.prefix", prefix, &mut out);
                        chk(xml, "attribute.local", local, &mut out);
                        chk(xml, "attribute.value", value, &mut out);
                        chk(xml, "attribute.span", span, &mut out);
                    }
                    Token::ElementEnd { end, span } => {
                        if let ElementEnd::Close(p, l) = end {
                            chk(xml, "element-end.prefix", p, &mut out);
                            chk(xml, "element-end.local", l, &mut out);
                        }
                        chk(xml, "element-end.span", span, &mut out);
                    }
                    Token::Text { text } => chk(xml, "text.text", text, &mut out),
                    Token::Cdata { text, span } => {
                        chk(xml, "cdata.text", text, &mut out);
                        chk(xml, "cdata.span", span, &mut out);
                    }
                }
                if tokenizer.stream().pos() > xml.len() {
                    out.push(("C17:lex-error-position-outside", format!("stream position {} of {} after a token", tokenizer.stream().pos(), xml.len())));
                    break;
                }
            }
        }
    }
    out
}

// ---------------------------------------------------------------------------------------------
// One input through one mode: T line, statistics, oracle.

const KINDS: &[&str] = &["ES", "A", "EO", "EE", "EC", "T", "CD", "C", "P", "D", "DS", "ED", "EN", "DE"];

struct Ctx<'a> {
    sink: &'a mut Sink,
    seen: HashSet<(bool, String)>,
}

impl<'a> Ctx<'a> {
    /// Returns false when this (mode, string) pair was emitted before.
    fn one(&mut self, family: &str, xml: &str, fragment: bool) -> bool {
        if !self.seen.insert((fragment, xml.to_string())) {
            self.sink.stat("skipped.duplicate");
            return false;
        }
        let mode = if fragment { "frag" } else { "doc" };
        let request = format!("lex {} {}", mode, enc(xml));
        let sink = &mut *self.sink;
        sink.stat(&format!("family.{}", family));
        sink.stat(&format!("mode.{}", mode));
        sink.stat(&format!("len.{}", match xml.len() { 0 => "0", 1..=8 => "1-8", 9..=32 => "9-32", 33..=128 => "33-128", _ => "129+" }));
        if !xml.is_ascii() {
            sink.stat("nonascii");
        }
        if xml.starts_with('\u{feff}') {
            sink.stat("bom");
        }
        let d = match guarded(|| dump_tokens(xml, fragment)) {
            Some(d) => d,
            None => {
                sink.stat("result.panic");
                sink.fail("C03", "C03:tokenizer-panics", "xmlparser::Tokenizer panicked", &[request.clone()]);
                sink.emit(request, "panic".to_string());
                return true;
            }
        };
        let resp = if d.words.is_empty() { "lex".to_string() } else { format!("lex {}", d.words) };
        let mut ntok = 0usize;
        for w in d.words.split(' ') {
            if KINDS.contains(&w) {
                sink.stat(&format!("tok.{}", w));
                ntok += 1;
            }
        }
        sink.stat(&format!("ntok.{}", match ntok { 0 => "0", 1..=5 => "1-5", 6..=20 => "6-20", _ => "21+" }));
        match d.lexerr {
            None => {
                sink.stat("result.ok");
                sink.stat(&format!("{}.ok", mode));
                sink.stat(&format!("family.{}.ok", family));
            }
            Some(p) => {
                sink.stat("result.error");
                sink.stat(&format!("{}.error", mode));
                sink.stat(&format!("family.{}.error", family));
                sink.stat(if p == 0 {
                    "errpos.0"
                } else if p >= xml.len() {
                    "errpos.end"
                } else {
                    "errpos.mid"
                });
                if p == 0 {
                    sink.stat(&format!("family.{}.error-at-0", family));
                }
                if ntok > 0 {
                    sink.stat("error.after-tokens");
                }
            }
        }
        let _ = guarded(|| layout_stats(xml, fragment, sink));
        match guarded(|| span_problems(xml, fragment)) {
            None => sink.fail("C03", "C03:tokenizer-panics", "xmlparser::Tokenizer panicked (second walk)", &[request.clone()]),
            Some(ps) => {
                let mut sigs: Vec<&str> = vec![];
                for (sig, what) in &ps {
                    if !sigs.contains(sig) {
                        sigs.push(sig);
                        sink.fail("C17", sig, what, &[request.clone()]);
                    }
                }
            }
        }
        sink.emit(request, resp);
        true
    }

    /// Returns true when at least one line was emitted.
    fn case(&mut self, family: &str, xml: &str, modes: Modes) -> bool {
        let mut any = false;
        if modes != Modes::Frag {
            any |= self.one(family, xml, false);
        }
        if modes != Modes::Doc {
            any |= self.one(family, xml, true);
        }
        any
    }
}

// ---------------------------------------------------------------------------------------------
// Family a: rendered documents and fragments (+ document type declarations, BOM)

fn ws1(rng: &mut Rng) -> &'static str {
    match rng.below(10) {
        0..=5 => " ",
        6 => "  ",
        7 => "\n",
        8 => "\t",
        _ => "\r\n",
    }
}

fn ws0(rng: &mut Rng) -> &'static str {
    if rng.chance(1, 4) {
        ws1(rng)
    } else {
        ""
    }
}

fn literal(rng: &mut Rng, bodies: &[&str]) -> String {
    let b = *rng.pick(bodies);
    let q = if b.contains('"') {
        '\''
    } else if b.contains('\'') || rng.chance(1, 2) {
        '"'
    } else {
        '\''
    };
    format!("{}{}{}", q, b, q)
}

const DTD_NAMES: &[&str] = &["a", "doc", "p:a", "html", "_x", "é", "a-b.c"];
const SYS_LITERALS: &[&str] = &["a.dtd", "", "http://e/x y.dtd", "u'v", "u\"v", "a>b", "é"];
const PUB_LITERALS: &[&str] = &["-//W3C//DTD XHTML 1.0 Strict//EN", "", "p", "-//X//'q'"];

fn external_id(rng: &mut Rng) -> String {
    if rng.chance(1, 2) {
        format!("SYSTEM{}{}", ws1(rng), literal(rng, SYS_LITERALS))
    } else {
        format!("PUBLIC{}{}{}{}", ws1(rng), literal(rng, PUB_LITERALS), ws1(rng), literal(rng, SYS_LITERALS))
    }
}

fn entity_decl(rng: &mut Rng) -> String {
    let mut s = String::from("<!ENTITY");
    s.push_str(ws1(rng));
    let general = !rng.chance(1, 3);
    if !general {
        s.push('%');
        s.push_str(ws1(rng));
    }
    s.push_str(*rng.pick(&["e", "p", "nbsp", "p:e", "é", "_1"]));
    s.push_str(ws1(rng));
    if rng.chance(3, 5) {
        s.push_str(&literal(rng, &["v", "", "&lt;", "&#38;", "x>y", "<b/>", "%p;", "é€", "it's", "say \"x\"", "a\nb"]));
    } else {
        s.push_str(&external_id(rng));
        if general && rng.chance(1, 2) {
            s.push_str(ws1(rng));
            s.push_str("NDATA");
            s.push_str(ws1(rng));
            s.push_str(*rng.pick(&["n", "gif", "p:n"]));
        }
    }
    s.push_str(ws0(rng));
    s.push('>');
    s
}

fn doctype(rng: &mut Rng) -> String {
    let mut s = String::from("<!DOCTYPE");
    s.push_str(ws1(rng));
    s.push_str(*rng.pick(DTD_NAMES));
    if rng.chance(1, 2) {
        s.push_str(ws1(rng));
        s.push_str(&external_id(rng));
    }
    s.push_str(ws0(rng));
    if rng.chance(2, 3) {
        s.push('[');
        for _ in 0..rng.below(6) {
            match rng.below(24) {
                0..=7 => s.push_str(&entity_decl(rng)),
                8..=10 => s.push_str(*rng.pick(&["<!ELEMENT a ANY>", "<!ELEMENT a (b|c)*>", "<!ELEMENT b (#PCDATA)>", "<!ELEMENT c EMPTY>", "<!ELEMENT\na\nANY\n>"])),
                11..=13 => s.push_str(*rng.pick(&["<!ATTLIST a b CDATA #IMPLIED>", "<!ATTLIST a x (y|z) \"y\">", "<!ATTLIST a id ID #REQUIRED b CDATA 'v'>", "<!ATTLIST a>"])),
                14 | 15 => s.push_str(*rng.pick(&["<!NOTATION n SYSTEM \"s\">", "<!NOTATION n PUBLIC \"p\">", "<!NOTATION gif PUBLIC 'p' 's'>"])),
                16 | 17 => s.push_str(*rng.pick(&["<!--c-->", "<!---->", "<!-- <!ENTITY e 'v'> ]> -->", "<!--é-->"])),
                18 | 19 => s.push_str(*rng.pick(&["<?pi d?>", "<?pi?>", "<?t1 ]>?>"])),
                20..=22 => s.push_str(ws1(rng)),
                // well-formed XML the tokenizer does not take: a parameter entity reference, a
                // '>' inside a quoted default value
                _ => s.push_str(*rng.pick(&["%p;", "<!ATTLIST a q CDATA \"v>w\">"])),
            }
        }
        s.push(']');
        s.push_str(ws0(rng));
    }
    s.push('>');
    s
}

/// A rendered text and its native mode (true = fragment).
fn gen_rendered(rng: &mut Rng, sink: &mut Sink) -> (String, bool) {
    let cfg = if rng.chance(1, 4) { RCfg::plain() } else { RCfg::draw(rng) };
    let fragment = rng.chance(2, 5);
    let r = if fragment { render_fragment(rng, cfg) } else { render_document(rng, cfg, None) };
    let mut text = r.text.clone();
    if !fragment && rng.chance(1, 3) {
        // a document type declaration at one of the top-level points in front of the root element
        let root = r.spans.iter().find(|s| s.kind == "ES" && s.path.len() == 1).map(|s| s.start - 1).unwrap_or(0);
        let points: Vec<usize> = r.top_points.iter().copied().filter(|p| *p <= root).collect();
        if !points.is_empty() {
            let at = *rng.pick(&points);
            let mut d = doctype(rng);
            if rng.chance(1, 3) {
                d.push_str(ws1(rng));
            }
            text.insert_str(at, &d);
            sink.stat("gen.a.doctype");
        }
    }
    if !text.starts_with('\u{feff}') && rng.chance(1, 25) {
        // the renderer writes a BOM only in front of documents
        text.insert(0, '\u{feff}');
        sink.stat("gen.a.bom-added");
    }
    (text, fragment)
}

// ---------------------------------------------------------------------------------------------
// Family b: xot's serialiser on generated trees

fn try_serialised(rng: &mut Rng, sink: &mut Sink) -> Option<(String, bool)> {
    let mut xot = Xot::new();
    let vocab = Vocab::standard(&mut xot);
    let mut cfg = GenCfg::default_cfg();
    cfg.max_depth = 2 + rng.below(3);
    cfg.max_kids = 2 + rng.below(3);
    if rng.chance(1, 8) {
        // text outside the XML Char production, adjacent text nodes
        cfg.xml_chars_only = false;
        cfg.adjacent_text = true;
    }
    let fragment = rng.chance(1, 3);
    let t = if fragment { gen_fragment(rng, &cfg) } else { gen_document(rng, &cfg) };
    let root = build(&mut xot, &vocab, &t, true).ok()?;
    if rng.chance(4, 5) {
        let _ = guarded(|| xot.create_missing_prefixes(root));
    }
    let r = if rng.chance(2, 5) {
        sink.stat("gen.b.to_string");
        guarded(|| xot.to_string(root))
    } else {
        let p = gen_params(rng, &cfg.elem_names);
        sink.stat("gen.b.serialize_xml_string");
        if p.indent.is_some() {
            sink.stat("gen.b.indent");
        }
        if p.decl.is_some() {
            sink.stat("gen.b.declaration");
        }
        if p.doctype.is_some() {
            sink.stat("gen.b.doctype");
        }
        let params = p.xml_params(&vocab);
        guarded(|| xot.serialize_xml_string(params, root))
    };
    match r {
        Some(Ok(s)) => Some((s, fragment)),
        _ => {
            sink.stat("gen.b.not-serialisable");
            None
        }
    }
}

fn gen_serialised(rng: &mut Rng, sink: &mut Sink) -> (String, bool) {
    for _ in 0..50 {
        if let Some(r) = try_serialised(rng, sink) {
            return r;
        }
    }
    ("<a/>".to_string(), false)
}

fn gen_base(rng: &mut Rng, sink: &mut Sink) -> (String, bool) {
    if rng.chance(1, 2) {
        gen_rendered(rng, sink)
    } else {
        gen_serialised(rng, sink)
    }
}

// ---------------------------------------------------------------------------------------------
// Family c: mutations

const CRIT: &[char] = &['<', '>', '&', ';', '"', '\'', '=', '/', '?', '!', '-', '[', ']', ':', ' ', '\t', '\r', '\n'];
const PLAIN: &[char] = &['a', 'x', 'm', 'l', '1', '.', '_'];
const WIDE: &[char] = &['é', '\u{b7}', '\u{300}', '\u{fffe}', '\u{ffff}', '\u{1}', '\u{2028}', '€', '\u{1f600}', '\u{10000}'];

fn mut_char(rng: &mut Rng) -> char {
    match rng.below(10) {
        0..=5 => *rng.pick(CRIT),
        6 | 7 => *rng.pick(PLAIN),
        _ => *rng.pick(WIDE),
    }
}

const MUT_SNIPPETS: &[&str] = &[
    "<!--", "-->", "--", "<![CDATA[", "]]>", "<?", "?>", "<?xml ", "<?xml version=\"1.0\"?>", "<!DOCTYPE", "<!DOCTYPE a [", "]>", "<!ENTITY",
    "<!ENTITY a \"b\">", "<!ENTITY % p SYSTEM \"u\">", "<!ELEMENT a ANY>", "<!ATTLIST", "<!NOTATION", "SYSTEM \"x\"", "PUBLIC \"p\" \"s\"", " NDATA n",
    "</", "/>", "xmlns:p=\"u\"", "&#x", "&lt;", "\u{feff}",
];

fn mutate(rng: &mut Rng, s: &str, sink: &mut Sink) -> String {
    let mut cs: Vec<char> = s.chars().collect();
    for _ in 0..1 + rng.below(3) {
        let n = cs.len();
        match rng.below(13) {
            0 | 1 if n > 0 => {
                cs.remove(rng.below(n));
                sink.stat("gen.c.delete");
            }
            2 | 3 => {
                cs.insert(rng.below(n + 1), mut_char(rng));
                sink.stat("gen.c.insert");
            }
            4 | 5 if n > 0 => {
                cs[rng.below(n)] = mut_char(rng);
                sink.stat("gen.c.replace");
            }
            6 | 7 if n > 0 => {
                let i = rng.below(n);
                cs.insert(i, cs[i]);
                sink.stat("gen.c.duplicate");
            }
            8 | 9 | 10 => {
                let at = rng.below(n + 1);
                let snip: Vec<char> = rng.pick(MUT_SNIPPETS).chars().collect();
                cs.splice(at..at, snip);
                sink.stat("gen.c.snippet");
            }
            _ => {
                cs.truncate(rng.below(n + 1));
                sink.stat("gen.c.truncate");
            }
        }
    }
    cs.into_iter().collect()
}

// ---------------------------------------------------------------------------------------------
// Family d: short strings

const SHORT: &[char] = &['<', '>', '/', 'a', ':', ' ', '=', '"', '\'', '!', '-', '?', '[', ']', '&', ';', 'x', 'm', 'l', 'é', '\n'];

fn short_string(rng: &mut Rng) -> String {
    let n = rng.below(13);
    let mut s: String = (0..n).map(|_| *rng.pick(SHORT)).collect();
    if n > 0 && rng.chance(1, 2) {
        // in document mode anything but '<' or white space in front is rejected on the spot
        s.replace_range(0..s.chars().next().unwrap().len_utf8(), "<");
    }
    s
}

const PIECES: &[&str] = &[
    "<?xml", " ", "version", "=", "\"1.0\"", "'1.1'", "\"1.\"", "\"2.0\"", "encoding", "\"UTF-8\"", "\"\"", "standalone", "\"yes\"", "'no'", "\"maybe\"", "?>",
    "<!DOCTYPE", "a", "p:a", "[", "]", ">", "SYSTEM", "PUBLIC", "\"x\"", "'y'", "<!ENTITY", "%", "NDATA", "<!ELEMENT a ANY>", "<!ATTLIST a b CDATA #IMPLIED>",
    "<!NOTATION n SYSTEM \"s\">", "<!--c-->", "<?pi d?>", "<a>", "<a/>", "</a>", "\n", "t",
];

/// Likely continuations, so that declarations and doctypes get past their first words often.
const PHRASES: &[&str] = &[
    "<?xml version=\"1.0\"", "<?xml version='1.0' encoding=\"UTF-8\"", " standalone='no'", " standalone=\"yes\"", " encoding='x'", "?>", "<!DOCTYPE a", "<!DOCTYPE a [",
    " SYSTEM \"x\"", " PUBLIC \"x\" 'y'", "<!ENTITY e \"x\">", "<!ENTITY % e 'y'>", "<!ENTITY e SYSTEM \"x\" NDATA a>", "<!ENTITY e PUBLIC \"x\" 'y'>", "]>", "] >", ">", "<a/>",
];

fn piece_string(rng: &mut Rng) -> String {
    let n = 1 + rng.below(8);
    let phrases = rng.chance(1, 2);
    let mut s = String::new();
    for i in 0..n {
        if i == 0 && rng.chance(2, 3) {
            // a piece that can start a document
            s.push_str(*rng.pick(&["<?xml", "<?xml ", "<?xml version=\"1.0\"", "<?xml version='1.0'?>", "<!DOCTYPE", "<!DOCTYPE a", "<!DOCTYPE a [", "<!--c-->", "<?pi d?>", "\n", " ", "<a>"]));
        } else if phrases && rng.chance(1, 2) {
            s.push_str(*rng.pick(PHRASES));
        } else {
            s.push_str(*rng.pick(PIECES));
        }
    }
    s
}

/// Every string of length <= `max_len` over `alpha`, in both modes.
fn exhaustive(ctx: &mut Ctx, alpha: &[char], max_len: usize) {
    let mut idx: Vec<usize> = vec![];
    loop {
        // next string in length-then-lexicographic order
        let mut i = idx.len();
        loop {
            if i == 0 {
                idx = vec![0; idx.len() + 1];
                break;
            }
            i -= 1;
            if idx[i] + 1 < alpha.len() {
                idx[i] += 1;
                for j in i + 1..idx.len() {
                    idx[j] = 0;
                }
                break;
            }
        }
        if idx.len() > max_len {
            break;
        }
        let s: String = idx.iter().map(|k| alpha[*k]).collect();
        ctx.case("d.exhaustive", &s, Modes::Both);
    }
}

// ---------------------------------------------------------------------------------------------

/// Fixed inputs: the corpus of the build suite plus declaration / DTD / comment / PI corner cases
/// (every token kind occurs here whatever the seed).
const CORPUS: &[&str] = &[
    "<?xml version=\"1.0\" encoding=\"UTF-8\" standalone=\"yes\"?>\n<!DOCTYPE a SYSTEM \"a.dtd\" [<!ENTITY e \"v\"><!ENTITY % p SYSTEM \"u\"><!ENTITY g PUBLIC \"p\" \"s\" NDATA n><!ELEMENT a ANY><!ATTLIST a b CDATA #IMPLIED><!NOTATION n SYSTEM \"s\"><!--c--><?pi d?> ]>\n<p:a b=\"1\" xmlns:p='u'>t<![CDATA[c]]><!--c--><?pi d?><b/></p:a>\n",
    "<!DOCTYPE a>",
    "<!DOCTYPE a PUBLIC \"p\" \"s\"><a/>",
    "<!DOCTYPE a [ ] ><a/>",
    "<!DOCTYPE a [%p;]><a/>",
    "<!DOCTYPE a [<!ATTLIST a q CDATA \"v>w\">]><a/>",
    "<!DOCTYPE a []><!DOCTYPE a><a/>",
    "<!DOCTYPE a [<!ENTITY e SYSTEM \"x\"NDATA n>]><a/>",
    "<!DOCTYPE a [<!ENTITY % e SYSTEM \"x\" NDATA n>]><a/>",
    "<!DOCTYPE a [<?xml version=\"1.0\"?>]><a/>",
    "<!DOCTYPE a [<!ENTITY e 'v'>",
    "<!DOCTYPE a [ ]",
    "<!DOCTYPEa><a/>",
    "<?xml version=\"1.0\"?>",
    "<?xml version=\"1.0\"",
    " <?xml version=\"1.0\"?><a/>",
    "<?xml?>",
    "<?xml ?>",
    "<?xmlx?>",
    "<?xml version='1.'?>",
    "<?xml version='1.0'encoding='a'?><a/>",
    "<?xml version='1.0' encoding='a'standalone='no'?><a/>",
    "<?xml version='1.0' standalone='no' encoding='a'?><a/>",
    "<?xml version = '1.0' ?><a/>",
    "<?xml\tversion='1.0'?><a/>",
    "<a/><?xml version=\"1.0\"?>",
    "<a/> x",
    "<a/>\n<!--c-->\n",
    "<a>]]></a>",
    "<a>]]&gt;></a>",
    "<a b=\"<\"/>",
    "<a b=c/>",
    "<a b/>",
    "<a b = 'c'c='d'/>",
    "<a:b:c/>",
    "<:a/>",
    "<a:/>",
    "< a/>",
    "<a></a >",
    "<a></ a>",
    "<a/ >",
    "<!---->",
    "<!--->",
    "<!-- -- -->",
    "<!-- --->",
    "<!--",
    "<?pi?>",
    "<?pi ?>",
    "<?pi  d ?>",
    "<? pi?>",
    "<?pi",
    "<?p:i?>",
    "<![CDATA[]]>",
    "<a><![CDATA[]]]]></a>",
    "<a><![CDATA[</a>",
    "<a><![cdata[]]></a>",
    "<a>\u{1}</a>",
    "<a>\u{fffe}</a>",
    "<a b='\u{ffff}'/>",
    "<\u{e9}\u{300}\u{b7}/>",
    "<\u{b7}a/>",
    "<\u{10000}/>",
    "<a\u{2028}b='c'/>",
    "\u{feff}",
    "\u{feff}\u{feff}<a/>",
    "\u{feff}<?xml version='1.0'?><a/>",
    "<",
    "<a",
    "<a ",
    "</",
    "</a",
    "<a><",
    "&",
];

pub fn run(seed: u64, count: usize, tier: &str, sink: &mut Sink) {
    let mut rng = Rng::new(seed ^ 0x1E8);
    let mut ctx = Ctx { sink, seen: HashSet::new() };
    if let Ok(inp) = std::env::var("LEX_INPUT") {
        // replay of inputs: `LEX_INPUT=s:3c.61.2f.3e,s:3c xotharness lex 1 0 quick`
        for one in inp.split(',') {
            if let Some(s) = dec(one) {
                ctx.case("replay", &s, Modes::Both);
            }
        }
        return;
    }
    for s in crate::suite_build::CORPUS.iter().chain(CORPUS.iter()) {
        ctx.case("corpus", s, Modes::Both);
    }
    if tier == "thorough" {
        exhaustive(&mut ctx, &['<', '>', '/', 'a', ':', ' ', '=', '"', '!', '-', '?', ']'], 4);
        // truncation at every char position of short base strings
        let mut bases = 0;
        let mut tries = 0;
        while bases < 60 && tries < 20000 {
            tries += 1;
            let (s, fragment) = gen_base(&mut rng, ctx.sink);
            let cs: Vec<char> = s.chars().collect();
            if cs.len() < 8 || cs.len() > 120 {
                continue;
            }
            bases += 1;
            let modes = match modes_for(&mut rng, Some(fragment)) {
                Modes::Both => {
                    if fragment {
                        Modes::Frag
                    } else {
                        Modes::Doc
                    }
                }
                m => m,
            };
            for k in 0..=cs.len() {
                let p: String = cs[..k].iter().collect();
                ctx.case("c.every-truncation", &p, modes);
            }
        }
    }
    let mut produced = 0;
    let mut attempts = 0;
    while produced < count && attempts < count * 5 + 100 {
        attempts += 1;
        let done = match rng.below(16) {
            0..=3 => {
                let (s, fragment) = gen_rendered(&mut rng, ctx.sink);
                let m = modes_for(&mut rng, Some(fragment));
                ctx.case("a", &s, m)
            }
            4..=7 => {
                let (s, fragment) = gen_serialised(&mut rng, ctx.sink);
                let m = modes_for(&mut rng, Some(fragment));
                ctx.case("b", &s, m)
            }
            8..=11 => {
                let (s, fragment) = gen_base(&mut rng, ctx.sink);
                let t = mutate(&mut rng, &s, ctx.sink);
                let m = modes_for(&mut rng, Some(fragment));
                ctx.case("c", &t, m)
            }
            12 | 13 => {
                let s = short_string(&mut rng);
                let m = modes_for(&mut rng, None);
                ctx.case("d.short", &s, m)
            }
            _ => {
                let s = piece_string(&mut rng);
                let m = match rng.below(20) {
                    0..=9 => Modes::Doc,
                    10..=16 => Modes::Both,
                    _ => Modes::Frag,
                };
                ctx.case("d.pieces", &s, m)
            }
        };
        if done {
            produced += 1;
        }
    }
    // Family e: explicit layouts, from an own generator state
    let mut lrng = Rng::new(seed ^ 0xE1A7_0C02);
    let wanted = count / 8 + if count > 0 { 40 } else { 0 };
    let (mut produced, mut attempts) = (0, 0);
    while produced < wanted && attempts < wanted * 5 + 100 {
        attempts += 1;
        let l = gen_layout(&mut lrng);
        if !ctx.one("e", &l.text, l.fragment) {
            continue;
        }
        produced += 1;
        ctx.sink.stat(if l.fragment { "gen.e.fragment" } else { "gen.e.document" });
        for k in &l.stats {
            ctx.sink.stat(k);
        }
        match guarded(|| check_layout(&l)) {
            Some(None) => ctx.sink.stat("oracle.e.tokens-as-laid-out"),
            Some(Some(what)) => {
                let mode = if l.fragment { "frag" } else { "doc" };
                ctx.sink.fail("C02", "C02:layout-changes-tokens", &what, &[format!("lex {} {}", mode, enc(&l.text))]);
            }
            None => {}
        }
    }
}
