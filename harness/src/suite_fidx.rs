//! Suite `fidx` (C04, "no accessor ever hands out a removed node"): the xml:id index.
//! Histories that PARSE documents carrying xml:id attributes into a store that also holds
//! API-built trees, then remove / detach / move the ID elements and their ancestors, create
//! nodes so that the arena recycles the freed slots, clone, and ask `xml_id_node` for every
//! (document, ID value) pair ever seen.
//!
//! Requests (extra requests of the `forest` session, see `lean/XotModel/Driver/Fidx.lean`):
//!   parse <tree wire> | parse_fragment <tree wire>   -> ok <doc label> | err:DuplicateId
//!   xml_id <doc label> <value>                       -> <label> | none
//! Oracle (implementation only): whatever `xml_id_node` returns is not removed, is an element and
//! is the element that carried the ID when the document was parsed.
use crate::common::{dec, enc, guarded, Rng, Sink};
use crate::suite_forest::{build_ops, Session};
use crate::tree::*;
use xot::ParseError;

/// (document label, ID value, label of the element that carried it at parse time)
#[derive(Default)]
pub struct Ids {
    pub pairs: Vec<(usize, String, usize)>,
    pub docs: Vec<usize>,
}

// ---------------------------------------------------------------------------------------------
// wire -> GTree -> XML text

fn parse_wire(w: &[&str], pos: &mut usize) -> GTree {
    let arity = match w[*pos] {
        "D" => 0,
        "E" | "T" | "C" => 1,
        "P" | "A" | "N" => 2,
        x => panic!("bad tree wire at {}", x),
    };
    let v = crate::suite_forest::parse_value(&w[*pos..*pos + 1 + arity]);
    *pos += 1 + arity;
    let mut kids = vec![];
    if *pos < w.len() && w[*pos] == "[" {
        *pos += 1;
        while w[*pos] != "]" {
            kids.push(parse_wire(w, pos));
        }
        *pos += 1;
    }
    GTree::new(v, kids)
}

fn esc_text(s: &str) -> String {
    s.replace('&', "&amp;").replace('<', "&lt;").replace('>', "&gt;")
}

fn esc_attr(s: &str) -> String {
    esc_text(s).replace('"', "&quot;").replace('\n', "&#10;").replace('\t', "&#9;")
}

/// The XML text of a generated tree. Element names in a namespace are written with the innermost
/// prefix declared for it (the generator declares it on the element itself); attributes are in no
/// namespace or in the xml namespace. xml:id values of even length are written with surrounding
/// blanks: the parser normalises them away (the wire has the value as stored).
fn render(v: &Vocab, t: &GTree, scope: &mut Vec<(usize, usize)>, out: &mut String) {
    match &t.v {
        GValue::Document => {
            for k in &t.kids {
                render(v, k, scope, out);
            }
        }
        GValue::Text(s) => out.push_str(&esc_text(s)),
        GValue::Comment(s) => {
            out.push_str("<!--");
            out.push_str(s);
            out.push_str("-->");
        }
        GValue::PI(target, d) => {
            out.push_str("<?");
            out.push_str(&v.names[*target].0);
            if let Some(d) = d {
                out.push(' ');
                out.push_str(d);
            }
            out.push_str("?>");
        }
        GValue::Element(n) => {
            let mark = scope.len();
            for k in &t.kids {
                if let GValue::Namespace(p, ns) = k.v {
                    scope.push((p, ns));
                }
            }
            let (local, ns) = (&v.names[*n].0, v.names[*n].1);
            let qname = if ns == 0 {
                local.clone()
            } else {
                let p = scope.iter().rev().find(|(_, x)| *x == ns).expect("prefix in scope").0;
                format!("{}:{}", v.prefixes[p].0, local)
            };
            out.push('<');
            out.push_str(&qname);
            for k in &t.kids {
                match &k.v {
                    GValue::Namespace(p, ns) => {
                        out.push_str(&format!(" xmlns:{}=\"{}\"", v.prefixes[*p].0, v.namespaces[*ns].0));
                    }
                    GValue::Attribute(a, val) => {
                        let (al, ans) = (&v.names[*a].0, v.names[*a].1);
                        let aq = if ans == 1 { format!("xml:{}", al) } else { al.clone() };
                        let shown = if *a == 1 && val.len() % 2 == 0 { format!("  {} ", val) } else { esc_attr(val) };
                        out.push_str(&format!(" {}=\"{}\"", aq, shown));
                    }
                    _ => {}
                }
            }
            let normal: Vec<&GTree> = t.kids.iter().filter(|k| k.is_normal()).collect();
            if normal.is_empty() {
                out.push_str("/>");
            } else {
                out.push('>');
                for k in normal {
                    render(v, k, scope, out);
                }
                out.push_str(&format!("</{}>", qname));
            }
            scope.truncate(mark);
        }
        GValue::Attribute(..) | GValue::Namespace(..) => panic!("entry node outside an element"),
    }
}

// ---------------------------------------------------------------------------------------------
// execution of one request (the two new ones; everything else is `Session::exec`)

pub fn exec_ext(s: &mut Session, sink: &mut Sink, ids: &mut Ids, req: &str) -> String {
    let w: Vec<&str> = req.split(' ').collect();
    match w[0] {
        "parse" | "parse_fragment" => {
            let mut pos = 1;
            let t = parse_wire(&w, &mut pos);
            let mut text = String::new();
            render(&s.vocab, &t, &mut vec![], &mut text);
            let r = if w[0] == "parse" { guarded(|| s.xot.parse(&text)) } else { guarded(|| s.xot.parse_fragment(&text)) };
            let resp = match r {
                None => "panic".to_string(),
                Some(Err(ParseError::DuplicateId(..))) => "err:DuplicateId".to_string(),
                Some(Err(e)) => format!("err:Parse:{:?}:{}", e, enc(&text)),
                Some(Ok(doc)) => {
                    s.relabel(Some(doc));
                    let dl = s.label[&doc];
                    ids.docs.push(dl);
                    let id_name = s.vocab.name(1);
                    for n in nodes_in_order(&s.xot, doc) {
                        if s.xot.is_element(n) {
                            if let Some(v) = s.xot.attributes(n).get(id_name) {
                                ids.pairs.push((dl, v.clone(), s.label[&n]));
                            }
                        }
                    }
                    format!("ok {}", dl)
                }
            };
            s.emit(sink, req.to_string(), resp.clone());
            resp
        }
        "xml_id" => {
            let dl: usize = w[1].parse().unwrap();
            let doc = s.nodes[dl];
            let value = dec(w[2]).unwrap();
            let resp = match guarded(|| s.xot.xml_id_node(doc, &value)) {
                None => "panic".to_string(),
                Some(None) => {
                    sink.stat("xml_id.none");
                    if let Some(&(_, _, el)) = ids.pairs.iter().find(|p| p.0 == dl && p.1 == value) {
                        sink.stat(if s.xot.is_removed(s.nodes[el]) { "xml_id.none.element-removed" } else { "xml_id.none.ELEMENT-LIVE" });
                    } else {
                        sink.stat("xml_id.none.never-indexed");
                    }
                    "none".to_string()
                }
                Some(Some(node)) => {
                    sink.stat("xml_id.some");
                    oracle(s, sink, ids, req, dl, &value, node);
                    match s.label.get(&node) {
                        Some(l) => l.to_string(),
                        None => "?".to_string(),
                    }
                }
            };
            s.emit(sink, req.to_string(), resp.clone());
            resp
        }
        _ => s.exec(sink, req),
    }
}

/// C04 on the implementation: the node handed out is not removed, is an element, and is the very
/// element recorded when the document was parsed. Whether it still carries the value, or still
/// lies in that document, is statistics only (the index is documented as filled at parse time).
fn oracle(s: &Session, sink: &mut Sink, ids: &Ids, req: &str, dl: usize, value: &str, node: xot::Node) {
    let mut hist = s.history.clone();
    hist.push(format!("{} -> (oracle)", req));
    if s.xot.is_removed(node) {
        sink.fail("C04", "C04:xml_id_node-hands-out-removed-node",
            &format!("{}: xml_id_node returned {:?} for which is_removed is true", req, node), &hist);
        return;
    }
    if !s.xot.is_element(node) {
        sink.fail("C04", "C04:xml_id_node-hands-out-non-element",
            &format!("{}: xml_id_node returned {:?}, which is not an element", req, node), &hist);
        return;
    }
    match ids.pairs.iter().find(|p| p.0 == dl && p.1 == value) {
        Some(&(_, _, el)) if s.nodes[el] == node => {}
        _ => {
            sink.fail("C04", "C04:xml_id_node-hands-out-other-node",
                &format!("{}: xml_id_node returned {:?}, not the element that carried the ID when the document was parsed", req, node), &hist);
            return;
        }
    }
    let id_name = s.vocab.name(1);
    let carries = s.xot.attributes(node).get(id_name).map(|v| v.as_str() == value).unwrap_or(false);
    sink.stat(if carries { "xml_id.some.still-carries-value" } else { "xml_id.some.value-gone-or-changed" });
    if s.cyclic {
        return;
    }
    let in_doc = s.xot.root(node) == s.nodes[dl];
    sink.stat(if in_doc { "xml_id.some.still-in-document" } else { "xml_id.some.moved-out-of-document" });
    if s.xot.is_removed(s.nodes[dl]) {
        sink.stat("xml_id.some.document-node-removed");
    }
}

// ---------------------------------------------------------------------------------------------
// generators

const ID_POOL: &[&str] = &["i1", "i2", "id3", "i4", "k", "id-6"];

fn small_text(rng: &mut Rng) -> String {
    rng.pick(&["x", "y z", " ", "\n ", "ab", "t&<"]).to_string()
}

/// An element for a parsed document: names a,b,c,d (no namespace) or p:a / p:b with xmlns:p on the
/// element itself; xml:id with probability `p_id`/8 from a small pool (`used`: values already in
/// this document; a duplicate is generated only when `dup` is set).
fn gen_id_element(rng: &mut Rng, depth: usize, used: &mut Vec<String>, dup: bool) -> GTree {
    let mut kids = vec![];
    let name = if rng.chance(1, 5) {
        kids.push(GTree::leaf(GValue::Namespace(2, NS_A)));
        *rng.pick(&[6usize, 7])
    } else {
        *rng.pick(&[2usize, 3, 4, 5])
    };
    if rng.chance(1, 8) {
        kids.push(GTree::leaf(GValue::Namespace(3, NS_B)));
    }
    if rng.chance(1, 4) {
        kids.push(GTree::leaf(GValue::Attribute(16, small_text(rng))));
    }
    if rng.chance(5, 8) {
        let free: Vec<&&str> = ID_POOL.iter().filter(|v| !used.contains(&v.to_string())).collect();
        let v = if dup && !used.is_empty() && rng.chance(1, 2) {
            Some(rng.pick(&used[..]).clone())
        } else if !free.is_empty() {
            Some(rng.pick(&free).to_string())
        } else {
            None
        };
        if let Some(v) = v {
            used.push(v.clone());
            kids.push(GTree::leaf(GValue::Attribute(1, v)));
        }
    }
    if rng.chance(1, 6) {
        kids.push(GTree::leaf(GValue::Attribute(3, "v".into())));
    }
    if depth < 3 {
        let mut last_text = false;
        for _ in 0..rng.below(4) {
            let k = match rng.below(8) {
                0..=4 => gen_id_element(rng, depth + 1, used, dup),
                5 | 6 => GTree::leaf(GValue::Text(small_text(rng))),
                _ => {
                    if rng.chance(1, 2) {
                        GTree::leaf(GValue::Comment(rng.pick(&["c", ""]).to_string()))
                    } else {
                        GTree::leaf(GValue::PI(18, if rng.chance(1, 2) { None } else { Some("d".into()) }))
                    }
                }
            };
            let is_text = matches!(k.v, GValue::Text(_));
            if is_text && last_text {
                continue;
            }
            last_text = is_text;
            kids.push(k);
        }
    }
    GTree::new(GValue::Element(name), kids)
}

/// (request word, tree): a well-formed document or (1 in 5) a fragment with several top-level
/// nodes; `dup`: some ID value may occur twice (=> DuplicateId).
fn gen_id_document(rng: &mut Rng, dup: bool) -> (&'static str, GTree) {
    let mut used = vec![];
    let mut kids = vec![];
    if rng.chance(1, 5) {
        for _ in 0..(1 + rng.below(3)) {
            if rng.chance(1, 4) && !matches!(kids.last(), Some(GTree { v: GValue::Text(_), .. })) {
                kids.push(GTree::leaf(GValue::Text("top".into())));
            } else {
                kids.push(gen_id_element(rng, 1, &mut used, dup));
            }
        }
        return ("parse_fragment", GTree::new(GValue::Document, kids));
    }
    if rng.chance(1, 4) {
        kids.push(GTree::leaf(GValue::Comment("c".into())));
    }
    kids.push(gen_id_element(rng, 0, &mut used, dup));
    if rng.chance(1, 4) {
        kids.push(GTree::leaf(GValue::PI(18, Some("d".into()))));
    }
    ("parse", GTree::new(GValue::Document, kids))
}

fn count_removed(s: &Session) -> usize {
    s.nodes.iter().filter(|n| s.xot.is_removed(**n)).count()
}

fn gen_new(rng: &mut Rng) -> String {
    let v = match rng.below(8) {
        0..=3 => GValue::Element(*rng.pick(&[2usize, 3, 6])),
        4 | 5 => GValue::Text(small_text(rng)),
        6 => GValue::Comment("n".into()),
        _ => GValue::Attribute(*rng.pick(&[1usize, 3, 16]), rng.pick(ID_POOL).to_string()),
    };
    format!("new {}", GTree::leaf(v).wire())
}

fn queries(s: &mut Session, sink: &mut Sink, ids: &mut Ids, rng: &mut Rng, all: bool) {
    if s.cyclic {
        return;
    }
    let mut qs: Vec<(usize, String)> = ids.pairs.iter().map(|p| (p.0, p.1.clone())).collect();
    // every document × every value seen anywhere (a value of another document must not be found)
    for &d in &ids.docs {
        for p in &ids.pairs {
            if !qs.contains(&(d, p.1.clone())) {
                qs.push((d, p.1.clone()));
            }
        }
        qs.push((d, "nowhere".into()));
    }
    // a node that is not a parsed document node at all
    if !s.nodes.is_empty() {
        qs.push((rng.below(s.nodes.len()), "i1".into()));
    }
    for (d, v) in qs {
        if all || rng.chance(1, 3) {
            exec_ext(s, sink, ids, &format!("xml_id {} {}", d, enc(&v)));
        }
    }
}

pub fn one_history(rng: &mut Rng, sink: &mut Sink, n_ops: usize, thorough: bool) {
    let mut s = Session::new();
    let mut ids = Ids::default();
    exec_ext(&mut s, sink, &mut ids, "reset");
    let mut cfg = GenCfg::default_cfg();
    cfg.max_depth = 2;
    cfg.max_kids = 2;
    cfg.text_max = 2;
    let mut docs_left = 1 + rng.below(3);
    let api_trees = rng.below(3);
    for i in 0..api_trees {
        // interleave: API-built trees before / between the parsed documents
        if i == 1 && rng.chance(1, 2) {
            let (w, t) = gen_id_document(rng, false);
            exec_ext(&mut s, sink, &mut ids, &format!("{} {}", w, t.wire()));
            docs_left -= 1;
        }
        let t = if rng.chance(1, 2) { gen_document(rng, &cfg) } else { gen_element(rng, &cfg, 1) };
        build_ops(&mut s, sink, &t);
    }
    if docs_left > 0 {
        let (w, t) = gen_id_document(rng, false);
        exec_ext(&mut s, sink, &mut ids, &format!("{} {}", w, t.wire()));
        docs_left -= 1;
    }
    queries(&mut s, sink, &mut ids, rng, true);
    let mut owed = 0usize;
    for _ in 0..n_ops {
        let live = s.live();
        if live.is_empty() {
            break;
        }
        let removed_before = count_removed(&s);
        if s.cyclic {
            break;
        }
        let id_els: Vec<usize> = ids.pairs.iter().map(|p| p.2).filter(|&l| !s.xot.is_removed(s.nodes[l])).collect();
        let elems: Vec<usize> = live.iter().copied().filter(|&l| s.xot.is_element(s.nodes[l])).collect();
        let a = *rng.pick(&live);
        let e = if elems.is_empty() { a } else { *rng.pick(&elems) };
        let (kind, req): (&str, String) = if owed > 0 && rng.chance(3, 4) {
            owed -= 1;
            match rng.below(6) {
                0 => ("refill.clone", format!("clone {}", a)),
                1 => ("refill.map_insert", format!("map_insert attr {} {} {}", e, rng.pick(&[3usize, 16, 1]), enc(*rng.pick(ID_POOL)))),
                _ => ("refill.new", gen_new(rng)),
            }
        } else if docs_left > 0 && rng.chance(1, 5) {
            docs_left -= 1;
            let dup = rng.chance(1, 4);
            let (w, t) = gen_id_document(rng, dup);
            ("parse", format!("{} {}", w, t.wire()))
        } else if rng.chance(1, 25) {
            let (w, t) = gen_id_document(rng, true);
            ("parse.extra", format!("{} {}", w, t.wire()))
        } else if !id_els.is_empty() && rng.chance(3, 5) {
            let x = *rng.pick(&id_els);
            let anc: Vec<usize> = s.xot.ancestors(s.nodes[x]).skip(1).map(|n| s.label[&n]).collect();
            match rng.below(16) {
                0..=2 => ("id.remove", format!("remove {}", x)),
                3 | 4 if !anc.is_empty() => ("id.remove-ancestor", format!("remove {}", rng.pick(&anc))),
                5 if !anc.is_empty() => ("id.remove-root", format!("remove {}", anc[anc.len() - 1])),
                6 => ("id.detach", format!("detach {}", x)),
                7 | 8 => ("id.move-append", format!("append {} {}", e, x)),
                9 => ("id.move-insert", format!("{} {} {}", rng.pick(&["insert_after", "insert_before"]), a, x)),
                10 => ("id.replace", format!("replace {} {}", x, a)),
                11 => ("id.unwrap", format!("unwrap {}", x)),
                12 => ("id.clone", format!("clone {}", if anc.is_empty() || rng.chance(1, 2) { x } else { *rng.pick(&anc) })),
                13 => ("id.attr-remove", format!("map_remove attr {} 1", x)),
                14 => ("id.attr-change", format!("map_insert attr {} 1 {}", x, enc(*rng.pick(ID_POOL)))),
                _ => ("id.detach-ancestor", format!("detach {}", if anc.is_empty() { x } else { *rng.pick(&anc) })),
            }
        } else {
            let b = *rng.pick(&live);
            match rng.below(14) {
                0 => ("append", format!("append {} {}", e, b)),
                1 => ("prepend", format!("prepend {} {}", e, b)),
                2 => ("insert_after", format!("insert_after {} {}", a, b)),
                3 => ("insert_before", format!("insert_before {} {}", a, b)),
                4 => ("detach", format!("detach {}", b)),
                5 | 6 => ("remove", format!("remove {}", b)),
                7 => ("replace", format!("replace {} {}", a, b)),
                8 => ("unwrap", format!("unwrap {}", e)),
                9 => ("wrap", format!("wrap {} {}", b, rng.pick(&[2usize, 6]))),
                10 => ("clone", format!("clone {}", a)),
                11 => ("text_content_set", format!("text_content_set {} {}", e, enc("s"))),
                12 => ("strip_ws", format!("strip_ws {}", a)),
                _ => ("new", gen_new(rng)),
            }
        };
        sink.stat(&format!("op.{}", kind));
        let resp = exec_ext(&mut s, sink, &mut ids, &req);
        sink.stat(&format!("resp.{}", resp.split(' ').next().unwrap().split(':').take(2).collect::<Vec<_>>().join(":")));
        if resp == "panic" {
            return;
        }
        s.exec(sink, "dump");
        s.exec(sink, "inv");
        if let Some(why) = s.validate() {
            sink.fail("C04", &format!("C04:{}:{}", kind, why), &format!("after {}: {}", req, why), &s.history);
            return;
        }
        let gone = count_removed(&s) - removed_before;
        if gone > 0 {
            sink.stat("steps.removing-nodes");
            sink.stat_n("nodes.removed", gone as u64);
            if rng.chance(4, 5) {
                owed += gone + rng.below(2);
            }
        }
        if rng.chance(1, 6) {
            s.exec(sink, "removed");
        }
        if thorough || rng.chance(1, 2) {
            let all = thorough || rng.chance(1, 2);
            queries(&mut s, sink, &mut ids, rng, all);
        }
    }
    queries(&mut s, sink, &mut ids, rng, true);
    sink.stat("histories");
    sink.stat_n("pairs", ids.pairs.len() as u64);
    sink.stat_n("documents-parsed", ids.docs.len() as u64);
}

pub fn run(seed: u64, count: usize, tier: &str, sink: &mut Sink) {
    let mut rng = Rng::new(seed ^ 0x1D1D);
    let thorough = tier != "quick";
    let n_ops = if tier == "quick" { 30 } else { 70 };
    for _ in 0..count {
        one_history(&mut rng, sink, n_ops, thorough);
    }
}
