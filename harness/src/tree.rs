//! Generated trees (`GTree`), the vocabulary of names / prefixes / namespaces registered in a
//! fixed order (so that the numeric ids are the same on the model side), building a `GTree`
//! in a real `Xot`, and dumping a real subtree back to the wire format through public API.
use crate::common::{enc, Rng};
use crate::strings;
use xot::{NameId, NamespaceId, Node, NodeEdge, PrefixId, Value, Xot};

#[derive(Clone, Debug, PartialEq, Eq)]
pub enum GValue {
    Document,
    Element(usize),
    Text(String),
    Comment(String),
    PI(usize, Option<String>),
    Attribute(usize, String),
    Namespace(usize, usize),
}

#[derive(Clone, Debug, PartialEq, Eq)]
pub struct GTree {
    pub v: GValue,
    pub kids: Vec<GTree>,
}

impl GTree {
    pub fn new(v: GValue, kids: Vec<GTree>) -> Self {
        GTree { v, kids }
    }
    pub fn leaf(v: GValue) -> Self {
        GTree { v, kids: vec![] }
    }
    pub fn size(&self) -> usize {
        1 + self.kids.iter().map(|k| k.size()).sum::<usize>()
    }
    pub fn is_normal(&self) -> bool {
        !matches!(self.v, GValue::Attribute(..) | GValue::Namespace(..))
    }
    pub fn wire(&self) -> String {
        let mut s = match &self.v {
            GValue::Document => "D".to_string(),
            GValue::Element(n) => format!("E {}", n),
            GValue::Text(t) => format!("T {}", enc(t)),
            GValue::Comment(t) => format!("C {}", enc(t)),
            GValue::PI(t, None) => format!("P {} -", t),
            GValue::PI(t, Some(d)) => format!("P {} {}", t, enc(d)),
            GValue::Attribute(n, v) => format!("A {} {}", n, enc(v)),
            GValue::Namespace(p, n) => format!("N {} {}", p, n),
        };
        if !self.kids.is_empty() {
            s.push_str(" [");
            for k in &self.kids {
                s.push(' ');
                s.push_str(&k.wire());
            }
            s.push_str(" ]");
        }
        s
    }
    /// All paths (raw child indices) in document order.
    pub fn paths(&self) -> Vec<Vec<usize>> {
        let mut out = vec![];
        fn go(t: &GTree, cur: &mut Vec<usize>, out: &mut Vec<Vec<usize>>) {
            out.push(cur.clone());
            for (i, k) in t.kids.iter().enumerate() {
                cur.push(i);
                go(k, cur, out);
                cur.pop();
            }
        }
        go(self, &mut vec![], &mut out);
        out
    }
    pub fn at(&self, path: &[usize]) -> Option<&GTree> {
        let mut t = self;
        for &i in path {
            t = t.kids.get(i)?;
        }
        Some(t)
    }
}

pub fn path_str(p: &[usize]) -> String {
    if p.is_empty() {
        ".".to_string()
    } else {
        p.iter().map(|i| i.to_string()).collect::<Vec<_>>().join(".")
    }
}

fn dbg_num(s: String) -> usize {
    let digits: String = s.chars().filter(|c| c.is_ascii_digit()).collect();
    digits.parse().expect("id debug format")
}
pub fn name_num(n: NameId) -> usize {
    dbg_num(format!("{:?}", n))
}
pub fn ns_num(n: NamespaceId) -> usize {
    dbg_num(format!("{:?}", n))
}
pub fn prefix_num(n: PrefixId) -> usize {
    dbg_num(format!("{:?}", n))
}

pub const NS_A: usize = 2;
pub const NS_B: usize = 3;
pub const NS_C: usize = 4;
pub const XHTML: usize = 5;
pub const MATHML: usize = 6;
pub const SVG: usize = 7;

/// The vocabulary: index = numeric id inside the Xot (checked at registration).
pub struct Vocab {
    pub namespaces: Vec<(String, NamespaceId)>,
    pub prefixes: Vec<(String, PrefixId)>,
    pub names: Vec<(String, usize, NameId)>,
}

impl Vocab {
    /// Registers the standard vocabulary in a fresh Xot.
    pub fn standard(xot: &mut Xot) -> Vocab {
        let mut v = Vocab { namespaces: vec![], prefixes: vec![], names: vec![] };
        for uri in [
            "",
            "http://www.w3.org/XML/1998/namespace",
            "urn:a",
            "urn:b",
            "urn:c?a=1&b=<2>\"'\t3",
            "http://www.w3.org/1999/xhtml",
            "http://www.w3.org/1998/Math/MathML",
            "http://www.w3.org/2000/svg",
        ] {
            v.add_ns(xot, uri);
        }
        for p in ["", "xml", "p", "q", "r", "n0", "n1"] {
            v.add_prefix(xot, p);
        }
        v.add_name(xot, "space", 1);
        v.add_name(xot, "id", 1);
        for l in ["a", "b", "c", "d"] {
            v.add_name(xot, l, 0);
        }
        for ns in [NS_A, NS_B, NS_C] {
            for l in ["a", "b", "x"] {
                v.add_name(xot, l, ns);
            }
        }
        v.add_name(xot, "lang", 1);
        v.add_name(xot, "x", 0);
        v.add_name(xot, "y", 0);
        v.add_name(xot, "pi", 0);
        v.add_name(xot, "xml-stylesheet", 0);
        v
    }
    pub fn add_ns(&mut self, xot: &mut Xot, uri: &str) -> usize {
        let id = xot.add_namespace(uri);
        let n = ns_num(id);
        if n == self.namespaces.len() {
            self.namespaces.push((uri.to_string(), id));
        }
        assert_eq!(self.namespaces[n].0, uri);
        n
    }
    pub fn add_prefix(&mut self, xot: &mut Xot, p: &str) -> usize {
        let id = xot.add_prefix(p);
        let n = prefix_num(id);
        if n == self.prefixes.len() {
            self.prefixes.push((p.to_string(), id));
        }
        assert_eq!(self.prefixes[n].0, p);
        n
    }
    pub fn add_name(&mut self, xot: &mut Xot, local: &str, ns: usize) -> usize {
        let id = xot.add_name_ns(local, self.namespaces[ns].1);
        let n = name_num(id);
        if n == self.names.len() {
            self.names.push((local.to_string(), ns, id));
        }
        assert_eq!(self.names[n].0, local);
        n
    }
    /// Make sure every id the Xot may hand out (e.g. after parsing) is known; returns true when
    /// the vocabulary grew.
    pub fn sync_name(&mut self, xot: &Xot, id: NameId) -> usize {
        let n = name_num(id);
        while self.names.len() <= n {
            // ids are dense: recover the missing entries through the public string accessors
            let k = self.names.len();
            let nid = self.names[0].2; // placeholder, replaced below
            let _ = nid;
            // we cannot construct a NameId from a number; walk known names by lookup instead
            // (callers pass every id they meet in order of first sight, which is registration order
            // for ids created by the parser)
            assert_eq!(k, n, "name ids must be synced in registration order");
            let (local, uri) = xot.name_ns_str(id);
            let ns_id = xot.namespace(uri).expect("namespace of a name is registered");
            let ns = self.sync_ns(xot, ns_id);
            self.names.push((local.to_string(), ns, id));
        }
        n
    }
    pub fn sync_ns(&mut self, xot: &Xot, id: NamespaceId) -> usize {
        let n = ns_num(id);
        if self.namespaces.len() <= n {
            assert_eq!(self.namespaces.len(), n, "namespace ids must be synced in registration order");
            self.namespaces.push((xot.namespace_str(id).to_string(), id));
        }
        n
    }
    pub fn sync_prefix(&mut self, xot: &Xot, id: PrefixId) -> usize {
        let n = prefix_num(id);
        if self.prefixes.len() <= n {
            assert_eq!(self.prefixes.len(), n, "prefix ids must be synced in registration order");
            self.prefixes.push((xot.prefix_str(id).to_string(), id));
        }
        n
    }
    /// `vocab` request line setting the model's environment.
    pub fn wire(&self) -> String {
        let ns: Vec<String> = self.namespaces.iter().map(|(u, _)| enc(u)).collect();
        let pf: Vec<String> = self.prefixes.iter().map(|(p, _)| enc(p)).collect();
        let nm: Vec<String> = self.names.iter().map(|(l, n, _)| format!("{}@{}", enc(l), n)).collect();
        format!("vocab ns {} pf {} nm {}", ns.join(","), pf.join(","), nm.join(","))
    }
    pub fn name(&self, i: usize) -> NameId {
        self.names[i].2
    }
    pub fn ns(&self, i: usize) -> NamespaceId {
        self.namespaces[i].1
    }
    pub fn prefix(&self, i: usize) -> PrefixId {
        self.prefixes[i].1
    }
}

/// Create the node for one value (no children).
pub fn new_node(xot: &mut Xot, vocab: &Vocab, v: &GValue) -> Node {
    match v {
        GValue::Document => xot.new_document(),
        GValue::Element(n) => xot.new_element(vocab.name(*n)),
        GValue::Text(t) => xot.new_text(t),
        GValue::Comment(t) => xot.new_comment(t),
        GValue::PI(t, d) => xot.new_processing_instruction(vocab.name(*t), d.as_deref()),
        GValue::Attribute(n, val) => xot.new_attribute_node(vocab.name(*n), val.clone()),
        GValue::Namespace(p, n) => xot.new_namespace_node(vocab.prefix(*p), vocab.ns(*n)),
    }
}

/// Build a tree through the creation API and `any_append` (children are appended in order,
/// so the tree must be well-ordered: namespaces, attributes, normal). Text consolidation is
/// switched off while building so that adjacent text nodes stay as generated, then restored.
pub fn build(xot: &mut Xot, vocab: &Vocab, t: &GTree, consolidation_after: bool) -> Result<Node, xot::Error> {
    xot.set_text_consolidation(false);
    let r = build_rec(xot, vocab, t);
    xot.set_text_consolidation(consolidation_after);
    r
}

fn build_rec(xot: &mut Xot, vocab: &Vocab, t: &GTree) -> Result<Node, xot::Error> {
    let node = new_node(xot, vocab, &t.v);
    for k in &t.kids {
        let kn = build_rec(xot, vocab, k)?;
        xot.any_append(node, kn)?;
    }
    Ok(node)
}

/// Nodes of a built tree in document order of `GTree::paths` (raw order through all_traverse).
pub fn nodes_in_order(xot: &Xot, root: Node) -> Vec<Node> {
    xot.all_traverse(root)
        .filter_map(|e| match e {
            NodeEdge::Start(n) => Some(n),
            NodeEdge::End(_) => None,
        })
        .collect()
}

pub fn read_value(xot: &Xot, vocab: &mut Vocab, node: Node) -> GValue {
    match xot.value(node) {
        Value::Document => GValue::Document,
        Value::Element(e) => GValue::Element(vocab.sync_name(xot, e.name())),
        Value::Text(t) => GValue::Text(t.get().to_string()),
        Value::Comment(c) => GValue::Comment(c.get().to_string()),
        Value::ProcessingInstruction(pi) => {
            GValue::PI(vocab.sync_name(xot, pi.target()), pi.data().map(|s| s.to_string()))
        }
        Value::Attribute(a) => GValue::Attribute(vocab.sync_name(xot, a.name()), a.value().to_string()),
        Value::Namespace(n) => {
            GValue::Namespace(vocab.sync_prefix(xot, n.prefix()), vocab.sync_ns(xot, n.namespace()))
        }
    }
}

/// Read a real subtree back (raw arena order, through `all_traverse`).
pub fn read_tree(xot: &Xot, vocab: &mut Vocab, root: Node) -> GTree {
    let mut stack: Vec<GTree> = vec![];
    let mut result = None;
    let edges: Vec<NodeEdge> = xot.all_traverse(root).collect();
    for e in edges {
        match e {
            NodeEdge::Start(n) => {
                let v = read_value(xot, vocab, n);
                stack.push(GTree::leaf(v));
            }
            NodeEdge::End(_) => {
                let t = stack.pop().unwrap();
                if let Some(parent) = stack.last_mut() {
                    parent.kids.push(t);
                } else {
                    result = Some(t);
                }
            }
        }
    }
    result.expect("traverse yields a root")
}

// ---------------------------------------------------------------------------------------------
// Generators

pub struct GenCfg {
    pub max_depth: usize,
    pub max_kids: usize,
    pub with_ns_nodes: bool,
    pub with_attrs: bool,
    pub adjacent_text: bool,
    pub text_max: usize,
    /// text / attribute content restricted to XML Chars
    pub xml_chars_only: bool,
    pub elem_names: Vec<usize>,
    pub attr_names: Vec<usize>,
}

impl GenCfg {
    pub fn default_cfg() -> Self {
        GenCfg {
            max_depth: 4,
            max_kids: 4,
            with_ns_nodes: true,
            with_attrs: true,
            adjacent_text: false,
            text_max: 6,
            xml_chars_only: true,
            elem_names: vec![2, 3, 4, 5, 6, 7, 9, 10, 12],
            attr_names: vec![2, 3, 4, 6, 7, 9, 0, 1, 15],
        }
    }
}

pub fn gen_text(rng: &mut Rng, cfg: &GenCfg, nonempty: bool) -> String {
    loop {
        // with adjacent text nodes allowed, bracket runs are frequent so that "]]" | ">" straddles
        // two nodes
        let s = match if cfg.adjacent_text && rng.chance(1, 2) { 1 } else { rng.below(6) } {
            0 => rng.pick(&[" ", "  ", "\n", "\n  ", "\t", " \n "]).to_string(),
            1 => strings::bracket_string(rng, cfg.text_max),
            _ => {
                if cfg.xml_chars_only {
                    strings::xml_string(rng, cfg.text_max)
                } else {
                    strings::any_string(rng, cfg.text_max)
                }
            }
        };
        if !nonempty || !s.is_empty() {
            return s;
        }
    }
}

pub fn gen_comment(rng: &mut Rng) -> String {
    let n = rng.below(5);
    let mut s = String::new();
    for _ in 0..n {
        let c = strings::xml_char(rng);
        // keep comments representable: no "--", no trailing '-', no CR (a CR is written as it
        // is and read back as LF: line ends are normalised in comments)
        if c == '-' || c == '\r' {
            continue;
        }
        s.push(c);
    }
    s
}

pub fn gen_pi_data(rng: &mut Rng) -> Option<String> {
    if rng.chance(1, 3) {
        return None;
    }
    let n = 1 + rng.below(5);
    let mut s = String::new();
    for _ in 0..n {
        let c = strings::xml_char(rng);
        if c == '?' || c == '>' {
            s.push('d');
        } else if c.is_whitespace() {
            // white space inside and at the END of PI data is data (only the separator after the
            // target is not): the creation API must keep it as the parser does (seed C20g)
            if s.is_empty() { s.push('d') } else { s.push(if c == '\t' { '\t' } else { ' ' }) }
        } else {
            s.push(c);
        }
    }
    if rng.chance(1, 6) {
        s.push(' ');
    }
    Some(s)
}

/// An element subtree.
pub fn gen_element(rng: &mut Rng, cfg: &GenCfg, depth: usize) -> GTree {
    let name = *rng.pick(&cfg.elem_names);
    let mut kids = vec![];
    if cfg.with_ns_nodes {
        let mut seen = vec![];
        for _ in 0..rng.below(3) {
            let p = *rng.pick(&[0usize, 2, 3, 4]);
            if seen.contains(&p) {
                continue;
            }
            seen.push(p);
            let ns = if p == 0 { *rng.pick(&[0usize, NS_A, NS_B, NS_C]) } else { *rng.pick(&[NS_A, NS_B, NS_C]) };
            kids.push(GTree::leaf(GValue::Namespace(p, ns)));
        }
    }
    if cfg.with_attrs {
        let mut seen = vec![];
        for _ in 0..rng.below(3) {
            let n = *rng.pick(&cfg.attr_names);
            if seen.contains(&n) {
                continue;
            }
            seen.push(n);
            // xml:id values are kept normalised and unique (the parser normalises them and
            // rejects duplicates, so other values are outside the round-trip domain)
            // (white space other than U+0020 at the ends or inside is NOT touched by xml:id
            // normalisation and must survive the round trip: seed C01h)
            let value = if n == 1 {
                let id = format!("i{:x}", rng.next() >> 24);
                if rng.chance(1, 5) {
                    let odd = *rng.pick(&["\t", "\n", "\u{a0}", "\u{2003}", "\u{85}", "\u{3000}"]);
                    match rng.below(3) {
                        0 => format!("{}{}", odd, id),
                        1 => format!("{}{}", id, odd),
                        _ => format!("{}{}x", id, odd),
                    }
                } else {
                    id
                }
            } else {
                gen_text(rng, cfg, false)
            };
            kids.push(GTree::leaf(GValue::Attribute(n, value)));
        }
    }
    if depth < cfg.max_depth {
        let n = rng.below(cfg.max_kids + 1);
        let mut last_text = false;
        for _ in 0..n {
            let k = gen_normal(rng, cfg, depth + 1);
            let is_text = matches!(k.v, GValue::Text(_));
            if is_text && last_text && !cfg.adjacent_text {
                continue;
            }
            last_text = is_text;
            kids.push(k);
        }
    }
    GTree::new(GValue::Element(name), kids)
}

pub fn gen_normal(rng: &mut Rng, cfg: &GenCfg, depth: usize) -> GTree {
    match rng.below(10) {
        0..=4 => gen_element(rng, cfg, depth),
        5..=7 => GTree::leaf(GValue::Text(gen_text(rng, cfg, true))),
        8 => GTree::leaf(GValue::Comment(gen_comment(rng))),
        _ => GTree::leaf(GValue::PI(*rng.pick(&[17usize, 18, 19, 19]), gen_pi_data(rng))),
    }
}

/// A well-formed document: comments / PIs around exactly one element.
pub fn gen_document(rng: &mut Rng, cfg: &GenCfg) -> GTree {
    let mut kids = vec![];
    let misc = |rng: &mut Rng| {
        if rng.chance(1, 2) {
            GTree::leaf(GValue::Comment(gen_comment(rng)))
        } else {
            GTree::leaf(GValue::PI(*rng.pick(&[17usize, 18, 19]), gen_pi_data(rng)))
        }
    };
    for _ in 0..rng.below(2) {
        kids.push(misc(rng));
    }
    kids.push(gen_element(rng, cfg, 1));
    for _ in 0..rng.below(2) {
        kids.push(misc(rng));
    }
    GTree::new(GValue::Document, kids)
}

/// A fragment: document node with any normal children.
pub fn gen_fragment(rng: &mut Rng, cfg: &GenCfg) -> GTree {
    let n = rng.below(cfg.max_kids + 1);
    let mut kids = vec![];
    let mut last_text = false;
    for _ in 0..n {
        let k = gen_normal(rng, cfg, 1);
        let is_text = matches!(k.v, GValue::Text(_));
        if is_text && last_text && !cfg.adjacent_text {
            continue;
        }
        last_text = is_text;
        kids.push(k);
    }
    GTree::new(GValue::Document, kids)
}


/// A caller-supplied normalizer (the `*_with_normalizer` entry points) that turns the fullwidth
/// forms of the markup characters into the ASCII ones, as NFKC / NFKD do: U+FF1C '<', U+FF06 '&',
/// U+FF02 '"', U+FF1E '>', U+FF07 '\''.
pub struct FullwidthNormalizer;

pub fn fullwidth_map(c: char) -> char {
    match c {
        '\u{ff1c}' => '<',
        '\u{ff06}' => '&',
        '\u{ff02}' => '"',
        '\u{ff1e}' => '>',
        '\u{ff07}' => '\'',
        c => c,
    }
}

impl xot::output::Normalizer for FullwidthNormalizer {
    fn normalize<'a>(&self, content: std::borrow::Cow<'a, str>) -> std::borrow::Cow<'a, str> {
        if content.chars().any(|c| fullwidth_map(c) != c) {
            std::borrow::Cow::Owned(content.chars().map(fullwidth_map).collect())
        } else {
            content
        }
    }
}

/// The tree with the normalizer applied to what the serialisers normalize: character data and
/// attribute values.  Serialising `t` WITH the normalizer must give the serialisation of this tree
/// without one (normalise first, then escape: seed C19f).
pub fn map_tree_fullwidth(t: &GTree) -> GTree {
    let m = |s: &String| s.chars().map(fullwidth_map).collect::<String>();
    let v = match &t.v {
        GValue::Text(s) => GValue::Text(m(s)),
        GValue::Attribute(n, s) => GValue::Attribute(*n, m(s)),
        v => v.clone(),
    };
    GTree::new(v, t.kids.iter().map(map_tree_fullwidth).collect())
}

pub fn has_fullwidth(t: &GTree) -> bool {
    (match &t.v {
        GValue::Text(s) | GValue::Attribute(_, s) => s.chars().any(|c| fullwidth_map(c) != c),
        _ => false,
    }) || t.kids.iter().any(has_fullwidth)
}

/// Replace a few ASCII markup characters of the character data / attribute values by their
/// fullwidth forms, so that a normalizer has something to do.
pub fn sprinkle_fullwidth(t: &GTree, rng: &mut crate::common::Rng) -> GTree {
    let mut m = |s: &String| {
        s.chars()
            .map(|c| {
                if !rng.chance(1, 2) {
                    return c;
                }
                match c {
                    '<' => '\u{ff1c}',
                    '&' => '\u{ff06}',
                    '"' => '\u{ff02}',
                    '>' => '\u{ff1e}',
                    '\'' => '\u{ff07}',
                    c => c,
                }
            })
            .collect::<String>()
    };
    let v = match &t.v {
        GValue::Text(s) => GValue::Text(m(s)),
        GValue::Attribute(n, s) => GValue::Attribute(*n, m(s)),
        v => v.clone(),
    };
    let kids = t.kids.iter().map(|k| sprinkle_fullwidth(k, rng)).collect();
    GTree::new(v, kids)
}
