//! Oracle of property C13, evaluated on the implementation only (independent of the Lean model):
//! a canonical form read back through the public API (kind, expanded names as strings,
//! attributes as a sorted map, content, children; declarations and prefixes left out) and the
//! relations the property states in terms of it.
use super::{kind_of, Forest, Op, Ref};
use crate::common::Sink;
use crate::tree::Vocab;
use std::collections::BTreeMap;
use xot::{Node, Value, Xot};

type Name = (String, String); // (namespace URI, local name)

#[derive(Clone, Debug, PartialEq, Eq)]
pub enum CV {
    Document,
    Element(Name, BTreeMap<Name, String>),
    Text(String),
    Comment(String),
    PI(Name, Option<String>),
    Attribute(Name, String),
    Namespace(String, String),
}

#[derive(Clone, Debug, PartialEq, Eq)]
pub struct Canon {
    pub v: CV,
    pub kids: Vec<Canon>,
}

fn name_of(xot: &Xot, n: xot::NameId) -> Name {
    let (local, uri) = xot.name_ns_str(n);
    (uri.to_string(), local.to_string())
}

pub fn value_of(xot: &Xot, n: Node) -> CV {
    match xot.value(n) {
        Value::Document => CV::Document,
        Value::Element(e) => {
            let mut m = BTreeMap::new();
            for (k, v) in xot.attributes(n).iter() {
                m.insert(name_of(xot, k), v.clone());
            }
            CV::Element(name_of(xot, e.name()), m)
        }
        Value::Text(t) => CV::Text(t.get().to_string()),
        Value::Comment(c) => CV::Comment(c.get().to_string()),
        Value::ProcessingInstruction(p) => CV::PI(name_of(xot, p.target()), p.data().map(|s| s.to_string())),
        Value::Attribute(a) => CV::Attribute(name_of(xot, a.name()), a.value().to_string()),
        Value::Namespace(ns) => {
            CV::Namespace(xot.prefix_str(ns.prefix()).to_string(), xot.namespace_str(ns.namespace()).to_string())
        }
    }
}

pub fn canon_of(xot: &Xot, n: Node) -> Canon {
    Canon { v: value_of(xot, n), kids: xot.children(n).map(|c| canon_of(xot, c)).collect() }
}

type Cmp = fn(&str, &str) -> bool;

/// Value relation with a text comparison on text, attribute values and PI data.
fn value_rel(cmp: Cmp, a: &CV, b: &CV) -> bool {
    match (a, b) {
        (CV::Document, CV::Document) => true,
        (CV::Element(na, ma), CV::Element(nb, mb)) => {
            na == nb && ma.keys().eq(mb.keys()) && ma.iter().all(|(k, va)| cmp(va, &mb[k]))
        }
        (CV::Text(x), CV::Text(y)) => cmp(x, y),
        (CV::Comment(x), CV::Comment(y)) => x == y,
        (CV::PI(ta, da), CV::PI(tb, db)) => {
            ta == tb
                && match (da, db) {
                    (Some(x), Some(y)) => cmp(x, y),
                    (None, None) => true,
                    _ => false,
                }
        }
        (CV::Attribute(na, va), CV::Attribute(nb, vb)) => na == nb && cmp(va, vb),
        (CV::Namespace(pa, ua), CV::Namespace(pb, ub)) => pa == pb && ua == ub,
        _ => false,
    }
}

fn forest_rel(cmp: Cmp, a: &[Canon], b: &[Canon]) -> bool {
    a.len() == b.len() && a.iter().zip(b).all(|(x, y)| value_rel(cmp, &x.v, &y.v) && forest_rel(cmp, &x.kids, &y.kids))
}

/// The forest of nodes passing `keep`, children of dropped nodes hoisted in place.
fn filtered(c: &Canon, keep: &dyn Fn(&CV) -> bool) -> Vec<Canon> {
    let kids: Vec<Canon> = c.kids.iter().flat_map(|k| filtered(k, keep)).collect();
    if keep(&c.v) {
        vec![Canon { v: c.v.clone(), kids }]
    } else {
        kids
    }
}

fn keep_of(name: &'static str) -> Box<dyn Fn(&CV) -> bool> {
    match name {
        "all" => Box::new(|_| true),
        "nocp" => Box::new(|v| !matches!(v, CV::Comment(_) | CV::PI(..))),
        "elem" => Box::new(|v| matches!(v, CV::Element(..))),
        "xpath" => Box::new(|v| matches!(v, CV::Element(..) | CV::Text(_))),
        "notext" => Box::new(|v| !matches!(v, CV::Text(_))),
        "nob" => Box::new(|v| !matches!(v, CV::Element((ns, local), _) if ns.is_empty() && local == "b")),
        "none" => Box::new(|_| false),
        _ => unreachable!(),
    }
}

fn is_tree_node(v: &CV) -> bool {
    !matches!(v, CV::Attribute(..) | CV::Namespace(..))
}

fn has_repeat(l: &[usize]) -> bool {
    (0..l.len()).any(|i| l[..i].contains(&l[i]))
}

fn json_str(s: &str) -> String {
    let mut out = String::from("\"");
    for c in s.chars() {
        match c {
            '"' => out.push_str("\\\""),
            '\\' => out.push_str("\\\\"),
            c if (c as u32) < 0x20 || (c as u32) > 0x7e => out.push_str(&format!("\\u{:04x}", (c as u32) & 0xffff)),
            c => out.push(c),
        }
    }
    out.push('"');
    out
}

/// An oracle failure: one `F` line (at most three per signature; all are counted).
fn fail(sink: &mut Sink, signature: String, what: String, req: &str) {
    let key = format!("oracle.fail.{}", signature);
    sink.stat(&key);
    if sink.stats[&key] <= 3 {
        println!(
            "F\tC13\t{{\"signature\": {}, \"what\": {}, \"replay\": {{\"request\": {}}}}}",
            json_str(&signature),
            json_str(&what),
            json_str(req)
        );
    }
}

/// The `custom` family (two trees that differ at ONE place, strings `l` / `r` there): the supplied comparison
/// decides an attribute value, a text node, PI data, the value of an attribute node; `==` decides comment data.
pub fn check_custom(sink: &mut Sink, place: &str, cmp: &str, l: &str, r: &str, got: Option<bool>, want: bool, req: &str) {
    let got = match got {
        None => return, // reported by check_binary
        Some(g) => g,
    };
    if got == want {
        return;
    }
    let (signature, rule) = if place == "comment" {
        ("C13:comment-data-not-compared-with-eq".to_string(), "==")
    } else {
        (format!("C13:custom-comparison-not-applied:{}", place), "the supplied comparison")
    };
    let what = format!(
        "advanced_deep_equal with the {} comparison on two trees differing only at {} ({:?} of {} bytes / {:?} of {} bytes) returned {}; {} says {}",
        cmp, place, l, l.len(), r, r.len(), got, rule, want
    );
    fail(sink, signature, what, req);
}

/// What the property says the operation must return; `None` = the property is silent.
pub fn expected(xot: &Xot, vocab: &Vocab, op: &Op, a: Node, b: Node) -> Option<bool> {
    let (ca, cb) = (canon_of(xot, a), canon_of(xot, b));
    let eq: Cmp = |x, y| x == y;
    Some(match op {
        Op::Deep | Op::CanonEq => ca == cb,
        Op::Children => ca.kids == cb.kids,
        Op::Xpath(c) => {
            let cmp = super::text_cmp(c);
            match (&ca.v, &cb.v) {
                (CV::Element(..), CV::Element(..)) | (CV::Document, CV::Document) => {
                    // comments and PIs below the compared nodes are discarded
                    let strip = |c: &Canon| Canon {
                        v: c.v.clone(),
                        kids: c.kids.iter().flat_map(|k| filtered(k, &*keep_of("nocp"))).collect(),
                    };
                    let (sa, sb) = (strip(&ca), strip(&cb));
                    value_rel(cmp, &sa.v, &sb.v) && forest_rel(cmp, &sa.kids, &sb.kids)
                }
                (x, y) => value_rel(cmp, x, y),
            }
        }
        Op::Adv(f, c) => {
            if !is_tree_node(&ca.v) || !is_tree_node(&cb.v) {
                // attribute / namespace nodes are compared by value, whatever the filter
                return Some(value_rel(super::text_cmp(c), &ca.v, &cb.v));
            }
            let keep = keep_of(f);
            forest_rel(super::text_cmp(c), &filtered(&ca, &*keep), &filtered(&cb, &*keep))
        }
        Op::Shallow => value_rel(eq, &ca.v, &cb.v),
        Op::ShallowIgn(l) => match (&ca.v, &cb.v) {
            (CV::Element(na, ma), CV::Element(nb, mb)) => {
                let ign: Vec<Name> = l.iter().map(|&i| name_of(xot, vocab.name(i))).collect();
                let cut = |m: &BTreeMap<Name, String>| -> BTreeMap<Name, String> {
                    m.iter().filter(|(k, _)| !ign.contains(k)).map(|(k, v)| (k.clone(), v.clone())).collect()
                };
                na == nb && cut(ma) == cut(mb)
            }
            (x, y) => value_rel(eq, x, y),
        },
    })
}

pub fn check_binary(sink: &mut Sink, xot: &Xot, vocab: &Vocab, op: &Op, a: Node, b: Node, got: Option<bool>, req: &str) {
    let (ka, kb) = (kind_of(xot, a), kind_of(xot, b));
    let got = match got {
        None => {
            fail(sink, format!("C13:{}-panics", op.tag()), format!("{} panics on ({}, {})", op.tag(), ka, kb), req);
            return;
        }
        Some(g) => g,
    };
    let want = match expected(xot, vocab, op, a, b) {
        None => return,
        Some(w) => w,
    };
    if got == want {
        return;
    }
    let abnormal = |k: &str| k == "attribute" || k == "namespace";
    let signature = match op {
        Op::Deep if abnormal(ka) && abnormal(kb) => "C13:deep_equal-attribute-or-namespace-nodes-always-equal".to_string(),
        Op::Deep => format!("C13:deep_equal-{}-on-canonically-{}-{}-{}", got, if want { "equal" } else { "different" }, ka, kb),
        Op::ShallowIgn(l) if has_repeat(l) => "C13:shallow_equal_ignore_attributes-repeated-name-miscounted".to_string(),
        Op::ShallowIgn(_) => format!("C13:shallow_equal_ignore_attributes-{}-expected-{}", got, want),
        _ => format!("C13:{}-{}-expected-{}-{}-{}", op.tag(), got, want, ka, kb),
    };
    let what = format!("{} on ({}, {}) returned {}, the canonical forms say {}", op.words(), ka, kb, got, want);
    fail(sink, signature, what, req);
}

fn pair_req(f: &Forest, a: Ref, b: Ref) -> String {
    format!("cmp deep {} {} {}", f.refstr(a), f.refstr(b), f.wire())
}

pub fn check_reflexive(sink: &mut Sink, xot: &Xot, f: &Forest, a: Ref, aa: Option<bool>) {
    if aa == Some(false) {
        let k = kind_of(xot, f.node(a));
        fail(sink, format!("C13:deep_equal-not-reflexive-{}", k), format!("deep_equal(x, x) is false for a {} node", k), &pair_req(f, a, a));
    }
}

pub fn check_symmetric(sink: &mut Sink, xot: &Xot, f: &Forest, a: Ref, b: Ref, ab: Option<bool>, ba: Option<bool>) {
    if ab.is_some() && ba.is_some() && ab != ba {
        let (ka, kb) = (kind_of(xot, f.node(a)), kind_of(xot, f.node(b)));
        fail(
            sink,
            format!("C13:deep_equal-not-symmetric-{}-{}", ka, kb),
            format!("deep_equal(a, b) = {:?} but deep_equal(b, a) = {:?}", ab, ba),
            &pair_req(f, a, b),
        );
    }
}

pub fn check_transitive(sink: &mut Sink, xot: &Xot, f: &Forest, r: (Ref, Ref, Ref), got: (Option<bool>, Option<bool>, Option<bool>)) {
    sink.stat(&format!("triple.{:?}-{:?}-{:?}", got.0.unwrap_or(false), got.1.unwrap_or(false), got.2.unwrap_or(false)));
    if got.0 == Some(true) && got.1 == Some(true) && got.2 == Some(false) {
        let k = kind_of(xot, f.node(r.0));
        fail(
            sink,
            format!("C13:deep_equal-not-transitive-{}", k),
            format!("deep_equal(a, b) and deep_equal(b, c) but not deep_equal(a, c); b = {}", f.refstr(r.1)),
            &pair_req(f, r.0, r.2),
        );
    }
}

/// string_value: document / element = concatenation of descendant text in document order,
/// any other node its own content.
pub fn check_string_value(sink: &mut Sink, xot: &Xot, n: Node, resp: &str, req: &str) {
    fn text_below(xot: &Xot, n: Node, out: &mut String) {
        for c in xot.children(n) {
            match xot.value(c) {
                Value::Text(t) => out.push_str(t.get()),
                Value::Element(_) | Value::Document => text_below(xot, c, out),
                _ => {}
            }
        }
    }
    let want = match value_of(xot, n) {
        CV::Document | CV::Element(..) => {
            let mut s = String::new();
            text_below(xot, n, &mut s);
            s
        }
        CV::Text(s) | CV::Comment(s) | CV::Attribute(_, s) => s,
        CV::PI(_, d) => d.unwrap_or_default(),
        CV::Namespace(_, uri) => uri,
    };
    let want_resp = format!("ok {}", crate::common::enc(&want));
    if resp != want_resp {
        let k = kind_of(xot, n);
        fail(sink, format!("C13:string_value-{}", k), format!("string_value of a {} node: got {}, expected {}", k, resp, want_resp), req);
    }
}
