//! Classification of C15 failures by mechanism, computed from the failing case itself
//! (tree before, tree after `deduplicate_namespaces`, tree after a second call), so that one
//! finding never hides a different defect behind a broad signature.  Since /repo d434a2d (passes
//! until nothing is redundant; C15_serialises, C15_idem) NO class is known: every class the oracle
//! files is a new finding.  The class names describe the mechanisms of the code before d434a2d.
//!
//! A name is *lost* when it could be written before the call and cannot after it.  For each lost
//! name: which removed declaration it would have used, under which prefix(es) the namespace was
//! "known" above that declaration (why dedup thought it redundant), and why that knowledge does
//! not help the name:
//!
//!   <element|attribute>-name-lost-prefix : known-above-via-<empty|nonempty|both>-prefix :
//!       shadowed-on-same-element | shadowed-on-descendant
//!       (a binding above that was itself removed is followed up to the declaration that made it
//!        look redundant: the class is that of the root cause)
//!     | default-redeclared-below-as-same-namespace | default-redeclared-below-as-other-namespace
//!     | no-default-redeclared-below                       (attribute, known above only as default)
//!
//! A second call that removes more: `unshadowed-prefix-makes-namespace-known` (the first call
//! removed a declaration that shadowed a binding to the namespace) or
//! `default-declaration-carrying-the-attribute-flag-was-removed` (the namespace was known both
//! times; the first call removed the xmlns="N" whose tracker entry protected the declaration).
use crate::tree::*;
use std::collections::{BTreeMap, BTreeSet};

type Decls = Vec<(usize, usize)>;

fn decls_of(t: &GTree) -> Decls {
    let mut out = vec![];
    for k in &t.kids {
        match k.v {
            GValue::Namespace(p, n) => out.push((p, n)),
            _ => break,
        }
    }
    out
}

fn fold(levels: &[Decls], with_xml: bool) -> BTreeMap<usize, usize> {
    let mut s = BTreeMap::new();
    if with_xml {
        s.insert(1usize, 1usize);
    }
    for d in levels {
        for (p, n) in d {
            s.insert(*p, *n);
        }
    }
    s
}

fn writable(scope: &BTreeMap<usize, usize>, ns: usize, is_attr: bool) -> bool {
    if ns == 1 {
        return true;
    }
    if ns == 0 {
        // an unprefixed element name must not fall into a default namespace
        return is_attr || scope.get(&0).copied().unwrap_or(0) == 0;
    }
    scope.iter().any(|(p, n)| *n == ns && (!is_attr || *p != 0))
}

fn non_ns_kids(t: &GTree) -> Vec<&GTree> {
    t.kids.iter().filter(|k| !matches!(k.v, GValue::Namespace(..))).collect()
}

struct Walk<'a> {
    vocab: &'a Vocab,
    /// declarations per element on the current path, before / after (/ after the second call)
    before: Vec<Decls>,
    after: Vec<Decls>,
    again: Vec<Decls>,
    /// chain index where the deduplicated subtree starts
    start: usize,
    lost: BTreeSet<String>,
    second: BTreeSet<String>,
}

impl<'a> Walk<'a> {
    fn classify_lost(&self, ns: usize, is_attr: bool) -> String {
        let kind = if is_attr { "attribute" } else { "element" };
        if ns == 0 {
            return format!("{}-name-lost-prefix:no-namespace-name-fell-into-a-default-namespace", kind);
        }
        let k = self.before.len() - 1;
        // the nearest removed declaration the name could have used
        let mut r = None;
        for i in (0..=k).rev() {
            let removed = self.before[i].iter().any(|d| d.1 == ns && (!is_attr || d.0 != 0) && !self.after[i].contains(d));
            if removed {
                r = Some(i);
                break;
            }
        }
        let r = match r {
            Some(r) => r,
            None => return format!("{}-name-lost-prefix:no-removed-declaration-explains-it", kind),
        };
        let k = self.before.len() - 1;
        // follow the chain: if the binding that made the declaration look redundant was itself
        // removed, the mechanism is the one that removed that binding
        let mut r = r;
        loop {
            // what dedup's own name stack (empty at the start of the subtree) knew above it
            let lo = self.start.min(r);
            let above = fold(&self.before[lo..r], false);
            let q: Vec<usize> = above.iter().filter(|(_, n)| **n == ns).map(|(p, _)| *p).collect();
            let via = match (q.contains(&0), q.iter().any(|p| *p != 0)) {
                (true, false) => "empty",
                (false, true) => "nonempty",
                (true, true) => "both",
                (false, false) => return format!("{}-name-lost-prefix:namespace-not-known-above-the-removed-declaration", kind),
            };
            let usable: Vec<usize> = q.iter().copied().filter(|p| !is_attr || *p != 0).collect();
            if usable.is_empty() {
                // attribute, namespace known above only as the default namespace: the tracker should
                // have refused. Which entry caught the attribute's flag?  The nearest xmlns="N" at or
                // below the removed declaration's level (popped before the check), if there is one.
                let m = (lo..r).rev().find(|i| self.before[*i].contains(&(0, ns)));
                let from = m.map(|m| m + 1).unwrap_or(lo);
                let same = (from..=k).any(|i| self.before[i].contains(&(0, ns)));
                let any = (from..=k).any(|i| self.before[i].iter().any(|d| d.0 == 0));
                let why = if same {
                    "default-redeclared-below-as-same-namespace"
                } else if any {
                    "default-redeclared-below-as-other-namespace"
                } else {
                    "no-default-redeclared-below"
                };
                return format!("{}-name-lost-prefix:known-above-via-{}-prefix:{}", kind, via, why);
            }
            let mut same = false;
            let mut desc = false;
            let mut also: Option<usize> = None;
            for p in &usable {
                if self.before[r].iter().any(|d| d.0 == *p) {
                    same = true;
                } else if (r + 1..=k).any(|i| self.before[i].iter().any(|d| d.0 == *p)) {
                    desc = true;
                } else if let Some(i) = (lo..r).rev().find(|i| self.before[*i].iter().any(|d| d.0 == *p)) {
                    if !self.after[i].contains(&(*p, ns)) {
                        also = Some(also.map_or(i, |a: usize| a.max(i)));
                    }
                }
            }
            let why = if same {
                "shadowed-on-same-element"
            } else if desc {
                "shadowed-on-descendant"
            } else if let Some(i) = also {
                r = i;
                continue;
            } else {
                "usable-binding-above-not-shadowed"
            };
            return format!("{}-name-lost-prefix:known-above-via-{}-prefix:{}", kind, via, why);
        }
    }

    fn classify_second(&self, ns: usize) -> String {
        let r = self.before.len() - 1;
        let lo = self.start.min(r);
        let known_before = fold(&self.before[lo..r], false).values().any(|n| *n == ns);
        let known_after = fold(&self.after[lo..r], false).values().any(|n| *n == ns);
        if !known_before && known_after {
            "unshadowed-prefix-makes-namespace-known".to_string()
        } else if known_before && (lo..r).any(|i| self.before[i].contains(&(0, ns)) && !self.after[i].contains(&(0, ns))) {
            "default-declaration-carrying-the-attribute-flag-was-removed".to_string()
        } else if known_before {
            "namespace-known-both-times".to_string()
        } else {
            "namespace-not-known-above".to_string()
        }
    }

    fn go(&mut self, tb: &GTree, ta: &GTree, tc: Option<&GTree>, path: &mut Vec<usize>, target: &[usize], inside: bool) {
        let inside = inside || path.as_slice() == target;
        let is_elem = matches!(tb.v, GValue::Element(_));
        if is_elem {
            if inside && self.start == usize::MAX {
                self.start = self.before.len();
            }
            self.before.push(decls_of(tb));
            self.after.push(decls_of(ta));
            self.again.push(tc.map(decls_of).unwrap_or_default());
            let sb = fold(&self.before, true);
            let sa = fold(&self.after, true);
            let mut names = vec![];
            if let GValue::Element(n) = tb.v {
                names.push((n, false));
            }
            for k in &tb.kids {
                if let GValue::Attribute(n, _) = k.v {
                    names.push((n, true));
                }
            }
            for (n, is_attr) in names {
                let ns = self.vocab.names[n].1;
                if writable(&sb, ns, is_attr) && !writable(&sa, ns, is_attr) {
                    let c = self.classify_lost(ns, is_attr);
                    self.lost.insert(c);
                }
            }
            if tc.is_some() {
                let k = self.after.len() - 1;
                let gone: Vec<usize> = self.after[k].iter().filter(|d| !self.again[k].contains(d)).map(|d| d.1).collect();
                for ns in gone {
                    let c = self.classify_second(ns);
                    self.second.insert(c);
                }
            }
        }
        let kb: Vec<(usize, &GTree)> = tb.kids.iter().enumerate().filter(|(_, k)| !matches!(k.v, GValue::Namespace(..))).collect();
        let ka = non_ns_kids(ta);
        let kc = tc.map(non_ns_kids);
        for (j, (i, k)) in kb.iter().enumerate() {
            if j >= ka.len() {
                break;
            }
            path.push(*i);
            let c = kc.as_ref().and_then(|kc| kc.get(j).copied());
            self.go(k, ka[j], c, path, target, inside);
            path.pop();
        }
        if is_elem {
            self.before.pop();
            self.after.pop();
            self.again.pop();
            if self.before.len() == self.start {
                // the element the deduplicated subtree started with is closed
                self.start = usize::MAX;
            }
        }
    }
}

/// Classes of names that lost their prefix through the call (`after`), and of further removals
/// by a second call (`again`, if given).  `path` is the node the call was made on.
pub fn classify(vocab: &Vocab, before: &GTree, after: &GTree, again: Option<&GTree>, path: &[usize]) -> (Vec<String>, Vec<String>) {
    let mut w = Walk { vocab, before: vec![], after: vec![], again: vec![], start: usize::MAX, lost: BTreeSet::new(), second: BTreeSet::new() };
    w.go(before, after, again, &mut vec![], path, false);
    (w.lost.into_iter().collect(), w.second.into_iter().collect())
}
