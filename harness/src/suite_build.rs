//! Suite `build`: an input string -> the real tokenizer's token dump (request) and xot's parse
//! result (response) for document and fragment mode; oracles for C02 / C03 / C17 on the
//! implementation. Inputs: rendered abstract documents, the fault catalogue applied to them,
//! arbitrary Unicode strings and byte strings.
use crate::build_obs::*;
use crate::build_oracle::*;
use crate::build_render::*;
use crate::common::{guarded, Rng, Sink};
use crate::strings;
use crate::tree::*;
use std::collections::{BTreeMap, BTreeSet};
use xot::Xot;

pub struct Ctx<'a> {
    pub sink: &'a mut Sink,
    pub fails: BTreeMap<String, Vec<(usize, String)>>,
}

impl<'a> Ctx<'a> {
    pub fn fail(&mut self, prop: &str, sig: &str, what: &str, entry: &str, input: &str) {
        self.sink.stat(&format!("F.{}:{}", prop, sig));
        let v = self.fails.entry(format!("{}:{}", prop, sig)).or_default();
        v.push((input.len(), f_line(prop, sig, what, entry, input)));
        v.sort();
        v.truncate(3);
    }
    pub fn flush(&mut self) {
        for v in self.fails.values() {
            for (_, line) in v {
                println!("{}", line);
            }
        }
    }
}

fn mode_word(fragment: bool) -> &'static str {
    if fragment {
        "frag"
    } else {
        "doc"
    }
}

fn entry_name(fragment: bool) -> &'static str {
    if fragment {
        "parse_fragment"
    } else {
        "parse"
    }
}

/// What the caller knows about the input.
pub struct Expect<'r> {
    /// rendered well-formed input of this mode: the document it denotes
    pub rendered: Option<&'r Rendered>,
    /// a catalogue fault was applied: must be rejected in mode `fault_fragment`
    pub fault: Option<&'r str>,
}

/// One input through one mode: T line, statistics, all oracles.
pub fn case_mode(ctx: &mut Ctx, xml: &str, fragment: bool, ex: &Expect) {
    let dump = dump_tokens(xml, fragment);
    let (mut xot, vocab, obs, resp) = observe(xml, fragment, true, &dump);
    ctx.sink.emit(format!("build {} {} {}", mode_word(fragment), xml.len(), dump.words), resp.clone());
    let head = resp.split(' ').next().unwrap().to_string();
    ctx.sink.stat(&format!("resp.{}.{}", mode_word(fragment), head));
    ctx.sink.stat(&format!("tokens.{}", match dump.toks.len() { 0 => "0", 1..=5 => "1-5", 6..=20 => "6-20", _ => "21+" }));
    let entry = entry_name(fragment);
    let expects_here = |r: &Rendered| r.fragment == fragment;
    // the entry point without span info must agree
    {
        let (_x2, _v2, obs2, resp2) = observe(xml, fragment, false, &dump);
        let same = match (&obs, &obs2) {
            (Observed::Panic, Observed::Panic) => true,
            (Observed::Err(_), Observed::Err(_)) => resp == resp2,
            (Observed::Ok(a), Observed::Ok(b)) => a.tree == b.tree,
            _ => false,
        };
        if !same {
            ctx.fail("C02", "result-depends-on-span-info-entry-point", "parse and parse_with_span_info disagree", entry, xml);
        }
    }
    match &obs {
        Observed::Panic => {
            let sig = if fragment && stray_end_tag(&dump) {
                "parse_fragment-panics-on-stray-end-tag".to_string()
            } else {
                format!("{}-panics", entry)
            };
            ctx.fail("C03", &sig, "the parse entry point panicked", entry, xml);
        }
        Observed::Err(e) => {
            let s = e.span();
            if s.start > s.end || s.end > xml.len() {
                ctx.fail("C17", &format!("error-span-outside-source-{}", err_variant(e)), "ParseError span outside [0, len]", entry, xml);
            }
            ctx.sink.stat(&format!("err.{}", err_variant(e)));
            if let Some(r) = ex.rendered {
                if expects_here(r) && ex.fault.is_none() {
                    ctx.fail("C02", &format!("well-formed-spelling-rejected-{}", err_variant(e)), "a well-formed spelling was rejected", entry, xml);
                }
            }
        }
        Observed::Ok(seen) => {
            if let (Some(f), Some(r)) = (ex.fault, ex.rendered) {
                if expects_here(r) {
                    ctx.fail("C03", &fault_signature(f), "an ill-formed text was accepted", entry, xml);
                }
            }
            let mut problems = BTreeSet::new();
            let act = to_abstract(&vocab, &seen.tree, &mut problems);
            if top_level_adjacent_text(&seen.tree) {
                problems.insert("adjacent-text-nodes".to_string());
            }
            if !all_values_xml_chars(&seen.tree) {
                problems.insert("reference-to-non-char-accepted".to_string());
            }
            if signed_reference(&dump) {
                problems.insert("signed-character-reference-accepted".to_string());
            }
            if has_empty_text(&seen.tree) {
                problems.insert("empty-cdata-makes-empty-text-node".to_string());
            }
            let truncated = dump.lexerr.is_none() && matches!(dump.toks.last(), Some(Tok::ElemStart { .. }) | Some(Tok::Attr { .. }));
            if truncated {
                problems.insert("truncated-start-tag-accepted".to_string());
            }
            if !fragment {
                if let Err(e) = xot.validate_well_formed_document(seen.doc) {
                    let v = format!("{:?}", e);
                    let v = v.split('(').next().unwrap().to_string();
                    problems.insert(format!("accepted-document-not-well-formed-{}", v));
                }
            }
            for p in &problems {
                ctx.fail("C03", p, "an accepted tree is not sound", entry, xml);
            }
            // accepted => serialisation is accepted again and reparses deep-equal
            if problems.is_empty() && !xml_id_edge_space(&seen.tree) {
                let doc = seen.doc;
                match guarded(|| xot.to_string(doc)) {
                    None => ctx.fail("C03", "serialising-accepted-tree-panics", "to_string panicked on a parsed tree", entry, xml),
                    Some(Err(e)) => {
                        let v = format!("{:?}", e);
                        let v = v.split('(').next().unwrap().to_string();
                        ctx.fail("C03", &format!("accepted-tree-not-serialisable-{}", v), "to_string failed on a parsed tree", entry, xml)
                    }
                    Some(Ok(s)) => {
                        let again = guarded(|| if fragment { xot.parse_fragment(&s) } else { xot.parse(&s) });
                        match again {
                            None => ctx.fail("C03", "reparse-panics", "reparsing the serialisation panicked", entry, xml),
                            Some(Err(e)) => {
                                let raw_uri = vocab.namespaces.iter().any(|n| n.0.contains('"') || n.0.contains('<') || n.0.contains('&'));
                                if raw_uri {
                                    ctx.fail("C03", "serialisation-rejected-namespace-uri-written-raw", "the serialisation of an accepted tree is rejected", entry, xml)
                                } else {
                                    ctx.fail("C03", &format!("serialisation-rejected-{}", err_variant(&e)), "the serialisation of an accepted tree is rejected", entry, xml)
                                }
                            }
                            Some(Ok(d2)) => {
                                if !xot.deep_equal(doc, d2) {
                                    // an undecoded URI is escaped once more by the serializer
                                    let undecoded = vocab.namespaces.iter().any(|n| n.0.contains('&'));
                                    let sig = if undecoded { "reparse-differs-namespace-uri-not-decoded" } else { "reparse-differs" };
                                    ctx.fail("C03", sig, "the serialisation reparses to a different tree", entry, xml);
                                } else {
                                    ctx.sink.stat("reparse.equal");
                                }
                            }
                        }
                    }
                }
            }
            let mut c17 = BTreeSet::new();
            generic_spans(&vocab, seen, xml, &dump, &mut c17);
            if let Some(r) = ex.rendered {
                if expects_here(r) && ex.fault.is_none() {
                    let mut c02 = BTreeSet::new();
                    diff(&r.top, &act, &mut c02);
                    let shape_ok = !c02.iter().any(|c| c.ends_with("differ") || c.contains("xmlns") || c.contains("kind") || c.contains("empty-cdata"));
                    for (v, p) in expected_ids(&r.top) {
                        match xot.xml_id_node(seen.doc, &v) {
                            Some(n) if shape_ok && seen.path_of(n) == Some(&p) => {}
                            Some(_) if !shape_ok => {}
                            Some(_) => {
                                c02.insert("xml-id-node-finds-another-element".into());
                            }
                            None => {
                                if c02.contains("xml-id-not-fully-normalised") {
                                    c02.insert("xml-id-node-misses-partially-normalised-id".into());
                                } else {
                                    c02.insert("xml-id-node-misses-id".into());
                                }
                            }
                        }
                    }
                    if r.feats.contains("attr-local-xmlns") {
                        // everything below such an attribute inherits the bogus default namespace
                        let collateral = ["element-namespace-differs", "declarations-differ", "attributes-differ", "children-differ"];
                        if c02.iter().any(|c| collateral.contains(&c.as_str())) {
                            c02.retain(|c| !collateral.contains(&c.as_str()));
                            c02.insert("attribute-named-xmlns-taken-as-default-declaration".into());
                        }
                    }
                    if c02.is_empty() {
                        ctx.sink.stat("c02.rendered-equal");
                    }
                    for c in &c02 {
                        ctx.fail("C02", c, "the parsed tree is not the document that was spelled", entry, xml);
                    }
                    if shape_ok {
                        expected_spans(&vocab, seen, r, &mut c17);
                    }
                }
            }
            for c in &c17 {
                ctx.fail("C17", c, "a recorded span does not point at the right text", entry, xml);
            }
            // parse_fragment == children of parse of the wrapped text
            if fragment && !truncated {
                let wrapped = format!("<w>{}</w>", xml);
                let d2 = dump_tokens(&wrapped, false);
                let (_x2, v2, o2, _r2) = observe(&wrapped, false, false, &d2);
                match o2 {
                    Observed::Ok(s2) => {
                        let mut pb = BTreeSet::new();
                        let a2 = to_abstract(&v2, &s2.tree, &mut pb);
                        let inner: Vec<ANode> = match a2.first() {
                            Some(ANode::Elem(e)) => e.kids.clone(),
                            _ => vec![],
                        };
                        if inner != act {
                            ctx.fail("C02", "fragment-differs-from-wrapped-parse", "parse_fragment(t) is not the content of parse(<w>t</w>)", entry, xml);
                        } else {
                            ctx.sink.stat("c02.fragment-equals-wrapped");
                        }
                    }
                    _ => ctx.fail("C02", "fragment-accepted-but-wrapped-text-rejected", "parse_fragment(t) ok, parse(<w>t</w>) not", entry, xml),
                }
            }
        }
    }
    if fragment && !matches!(obs, Observed::Ok(_)) {
        // the converse direction of the fragment law
        let wrapped = format!("<w>{}</w>", xml);
        let d2 = dump_tokens(&wrapped, false);
        let (_x2, _v2, o2, _r2) = observe(&wrapped, false, false, &d2);
        if matches!(o2, Observed::Ok(_)) && !matches!(obs, Observed::Panic) {
            ctx.fail("C02", "wrapped-text-accepted-but-fragment-rejected", "parse(<w>t</w>) ok, parse_fragment(t) not", "parse_fragment", xml);
        }
    }
}

/// One signature per root cause: an accepted fault is filed under the defect that lets it pass.
fn fault_signature(fault: &str) -> String {
    if fault == "duplicate-attribute-by-expanded-name" {
        "duplicate-attribute-by-expanded-name-accepted".into()
    } else if fault == "prefix-declared-twice" {
        "prefix-declared-twice-accepted".into()
    } else if fault.starts_with("non-char-reference") {
        "reference-to-non-char-accepted".into()
    } else if fault.starts_with("signed-reference") {
        "signed-character-reference-accepted".into()
    } else if fault == "duplicate-xml-id-after-normalisation" {
        "duplicate-xml-id-after-normalisation-accepted".into()
    } else if fault == "ill-formed-reference-in-namespace-declaration" {
        "ill-formed-namespace-declaration-value-accepted".into()
    } else {
        format!("fault-accepted-{}", fault)
    }
}

pub fn case(ctx: &mut Ctx, xml: &str, ex: &Expect) {
    case_mode(ctx, xml, false, ex);
    case_mode(ctx, xml, true, ex);
}

// ---------------------------------------------------------------------------------------------
// Fault catalogue

fn insert_at(text: &str, at: usize, what: &str) -> String {
    let mut s = String::with_capacity(text.len() + what.len());
    s.push_str(&text[..at]);
    s.push_str(what);
    s.push_str(&text[at..]);
    s
}

const REF_FAULTS: &[(&str, &[&str])] = &[
    ("unknown-entity", &["&nbsp;", "&AMP;", "&bogus;"]),
    ("malformed-reference", &["&#;", "&#x;", "&#xG;", "&#1a;", "&;", "&#X41;", "&# 65;", "&#-65;"]),
    ("non-char-reference", &["&#0;", "&#x1;", "&#xFFFE;", "&#xFFFF;", "&#8;", "&#xB;", "&#x1F;"]),
    ("surrogate-reference", &["&#xD800;", "&#57343;"]),
    ("out-of-range-reference", &["&#x110000;", "&#4294967296;"]),
    ("signed-reference", &["&#+65;", "&#x+41;"]),
];

/// Every (fault name, damaged text) for a rendered input; `all` = every applicable position,
/// otherwise positions are sampled by the caller.
pub fn faults(r: &Rendered, rng: &mut Rng, all: bool) -> Vec<(String, String)> {
    let t = &r.text;
    let mut out: Vec<(String, String)> = vec![];
    let cap = |v: Vec<usize>, rng: &mut Rng| -> Vec<usize> {
        if all || v.len() <= 2 {
            v.into_iter().take(10).collect()
        } else {
            let a = v[rng.below(v.len())];
            vec![a]
        }
    };
    for i in cap((0..r.close_tags.len()).collect(), rng) {
        let (s, e) = r.close_tags[i];
        out.push(("dropped-end-tag".into(), format!("{}{}", &t[..s], &t[e..])));
        out.push(("duplicated-end-tag".into(), insert_at(t, e, &t[s..e])));
        out.push(("mismatched-end-tag".into(), format!("{}</zzq>{}", &t[..s], &t[e..])));
    }
    let tags: Vec<usize> = r.tag_points.iter().map(|p| p.at).collect();
    for at in cap(tags.clone(), rng) {
        out.push(("duplicate-attribute-by-expanded-name".into(), insert_at(t, at, " xmlns:zp='urn:z' xmlns:zq='urn:z' zp:k='1' zq:k='2'")));
        out.push(("duplicate-attribute-as-written".into(), insert_at(t, at, " zk='1' zk=\"2\"")));
        out.push(("prefix-declared-twice".into(), insert_at(t, at, " xmlns:zp='urn:z1' xmlns:zp='urn:z2'")));
        out.push(("undeclared-attribute-prefix".into(), insert_at(t, at, " zu:k='1'")));
    }
    for at in cap(r.text_points.clone(), rng) {
        out.push(("raw-lt-in-text".into(), insert_at(t, at, "< ")));
        out.push(("raw-amp-in-text".into(), insert_at(t, at, "& ")));
        out.push(("undeclared-element-prefix".into(), insert_at(t, at, "<zu:e/>")));
        out.push(("unclosed-element".into(), insert_at(t, at, "<zu>")));
        out.push(("cdata-end-in-text".into(), insert_at(t, at, "]]>")));
        out.push(("double-hyphen-in-comment".into(), insert_at(t, at, "<!-- a -- b -->")));
        if !t[at..].starts_with(';') {
            out.push(("unterminated-reference".into(), insert_at(t, at, "&lt")));
        }
        for (name, alts) in REF_FAULTS {
            let a = alts[rng.below(alts.len())];
            out.push((format!("{}-in-text", name), insert_at(t, at, a)));
        }
    }
    for at in cap(r.decl_points.clone(), rng) {
        let mut alts: Vec<&str> = vec!["& ", "&lt"];
        for (_, a) in REF_FAULTS {
            alts.extend_from_slice(a);
        }
        let a = alts[rng.below(alts.len())];
        if !(a == "&lt" && t[at..].starts_with(';')) {
            out.push(("ill-formed-reference-in-namespace-declaration".into(), insert_at(t, at, a)));
        }
        out.push(("raw-lt-in-namespace-declaration".into(), insert_at(t, at, "<")));
    }
    for at in cap(r.attr_points.clone(), rng) {
        out.push(("raw-lt-in-attribute".into(), insert_at(t, at, "<")));
        out.push(("raw-amp-in-attribute".into(), insert_at(t, at, "& ")));
        for (name, alts) in REF_FAULTS {
            let a = alts[rng.below(alts.len())];
            out.push((format!("{}-in-attribute", name), insert_at(t, at, a)));
        }
    }
    // duplicate xml:id on two elements that have none
    let free: Vec<usize> = r.tag_points.iter().filter(|p| !p.has_xmlid).map(|p| p.at).collect();
    if free.len() >= 2 {
        let i = rng.below(free.len() - 1);
        let j = i + 1 + rng.below(free.len() - i - 1);
        let (a, b) = (free[i].min(free[j]), free[i].max(free[j]));
        let s1 = insert_at(&insert_at(t, b, " xml:id='dupv'"), a, " xml:id=\"dupv\"");
        out.push(("duplicate-xml-id".into(), s1));
        let s2 = insert_at(&insert_at(t, b, " xml:id='  dupv '"), a, " xml:id='dupv'");
        out.push(("duplicate-xml-id-after-normalisation".into(), s2));
    }
    if r.fragment {
        for at in cap(r.top_points.clone(), rng) {
            out.push(("stray-end-tag".into(), insert_at(t, at, "</a>")));
        }
    } else {
        for at in cap(r.top_points.clone(), rng) {
            out.push(("second-root-element".into(), insert_at(t, at, "<r2/>")));
            out.push(("top-level-text".into(), insert_at(t, at, "x")));
            out.push(("top-level-reference".into(), insert_at(t, at, "&#65;")));
        }
        if let Some(&at) = r.top_points.first() {
            out.push(("doctype".into(), insert_at(t, at, "<!DOCTYPE a>")));
            out.push(("doctype-with-subset".into(), insert_at(t, at, "<!DOCTYPE a [<!ENTITY e \"v\">]>")));
        }
        if r.has_decl {
            out.push(("version-1.1".into(), t.replacen("1.0", "1.1", 1)));
        } else {
            let at = if t.starts_with('\u{feff}') { 3 } else { 0 };
            out.push(("version-1.1".into(), insert_at(t, at, "<?xml version=\"1.1\"?>")));
        }
        // no root at all
        if let Some(p) = r.tag_points.iter().find(|p| p.depth == 1) {
            let start = t[..p.at].rfind('<').unwrap();
            let end = r.top_points.iter().copied().filter(|&e| e > p.at).min().unwrap_or(t.len());
            out.push(("no-root-element".into(), format!("{}{}", &t[..start], &t[end..])));
        }
    }
    out
}

// ---------------------------------------------------------------------------------------------
// Inputs

/// The witnesses of DESIGN.md section 8 rows 3-5 and of the closed witnesses in Props/.
pub const CORPUS: &[&str] = &[
    "<a/>",
    "<a></a>",
    "",
    "x",
    "<a>",
    "</a>",
    "<a/></a>",
    "<a></b>",
    "<a><![CDATA[x\r\ny]]></a>",
    "<a xmlns:p='x&amp;y'><p:b/></a>",
    "<a xml:id='   x   y   '/>",
    "<a xmlns:p='u' xmlns:q='u' p:x='1' q:x='2'/>",
    "<a xmlns:p='u' xmlns:p='v'/>",
    "<a>&#0;</a>",
    "<a>&#x1;</a>",
    "<a>&#xFFFE;</a>",
    "<a>&#+65;</a>",
    "<a b='&#+65;'/>",
    "<a><![CDATA[]]></a>",
    "<a xmlns:p='u' p:xmlns='v'/>",
    "<a/><b/>",
    "<!-- c -->",
    "<?xml version='1.1'?><a/>",
    "<!DOCTYPE a><a/>",
    "<a xml:id='i'><b xml:id='i'/></a>",
    "<a xml:id='i'><b xml:id=' i '/></a>",
    "<a xml:id='i'><b xml:id='  i'/></a>",
    "<p:a/>",
    "<a p:b='1'/>",
    "<a b='1' b='2'/>",
    "<a>&amp</a>",
    "<a>&bogus;</a>",
    "<a b='&#xD800;'/>",
    "<a>t<![CDATA[c]]>u</a>",
    "<a>é&#;</a>",
    "\u{feff}<a/>",
    "t<a/>u",
    "<a xmlns='u'><b xmlns=''/></a>",
    "<?pi d?><a/><!--c-->",
];

const SNIPPETS: &[&str] = &[
    "<a>", "</a>", "<a/>", "<b>", "</b>", "<p:a>", "</p:a>", "<a ", " b='1'", " b=\"", "'", "\"", ">", "/>", " xmlns:p='u'", " xmlns='v'",
    " xml:id=' i '", " p:b='2'", "&amp;", "&#65;", "&#x", ";", "&", "<![CDATA[", "]]>", "<!--", "-->", "--", "<?pi ", "?>", "<?xml version='1.0'?>",
    "<!DOCTYPE a>", "t", " ", "\r\n", "\r", "é", "\u{1f600}", "<", "=", "]]", "\u{feff}", "\u{0}", "\u{fffe}",
];

pub fn snippet_string(rng: &mut Rng) -> String {
    let n = 1 + rng.below(8);
    let mut s = String::new();
    for _ in 0..n {
        if rng.chance(1, 10) {
            s.push(strings::any_char(rng));
        } else {
            s.push_str(*rng.pick(SNIPPETS));
        }
    }
    s
}

fn utf16(text: &str, be: bool) -> Vec<u8> {
    let mut out: Vec<u8> = if be { vec![0xfe, 0xff] } else { vec![0xff, 0xfe] };
    for u in text.encode_utf16() {
        if be {
            out.extend_from_slice(&u.to_be_bytes());
        } else {
            out.extend_from_slice(&u.to_le_bytes());
        }
    }
    out
}

fn cp1252_byte(c: char) -> Option<u8> {
    const HIGH: &[(char, u8)] = &[('€', 0x80), ('‚', 0x82), ('ƒ', 0x83), ('„', 0x84), ('…', 0x85), ('†', 0x86), ('‡', 0x87), ('ˆ', 0x88), ('‰', 0x89), ('Š', 0x8a), ('‹', 0x8b), ('Œ', 0x8c), ('Ž', 0x8e), ('‘', 0x91), ('’', 0x92), ('“', 0x93), ('”', 0x94), ('•', 0x95), ('–', 0x96), ('—', 0x97), ('˜', 0x98), ('™', 0x99), ('š', 0x9a), ('›', 0x9b), ('œ', 0x9c), ('ž', 0x9e), ('Ÿ', 0x9f)];
    let v = c as u32;
    if v < 0x80 || (0xa0..=0xff).contains(&v) {
        Some(v as u8)
    } else {
        HIGH.iter().find(|e| e.0 == c).map(|e| e.1)
    }
}

fn hex_bytes(b: &[u8]) -> String {
    let mut s = String::from("b:");
    for x in b {
        s.push_str(&format!("{:02x}", x));
    }
    s
}

fn fail_bytes(ctx: &mut Ctx, prop: &str, sig: &str, what: &str, bytes: &[u8]) {
    ctx.sink.stat(&format!("F.{}:{}", prop, sig));
    let shown: String = String::from_utf8_lossy(bytes).chars().take(200).collect();
    let line = format!(
        "F\t{}\t{{\"signature\": \"{}:{}\", \"what\": \"{}\", \"replay\": {{\"suite\": \"build\", \"entry\": \"parse_bytes\", \"input\": \"{}\", \"text\": \"{}\"}}}}",
        prop,
        prop,
        json_escape(sig),
        json_escape(what),
        hex_bytes(bytes),
        json_escape(&shown)
    );
    let v = ctx.fails.entry(format!("{}:{}", prop, sig)).or_default();
    v.push((bytes.len(), line));
    v.sort();
    v.truncate(3);
}

fn bytes_panic_signature(bytes: &[u8]) -> &'static str {
    if bytes.len() < 4 {
        "parse_bytes-panics-on-input-shorter-than-4-bytes"
    } else {
        "parse_bytes-panics-when-no-encoding-is-found"
    }
}

/// parse_bytes on an encoded rendering: must equal parse of the text.
fn bytes_case(ctx: &mut Ctx, rng: &mut Rng) {
    let kind = rng.below(8);
    let (label, latin): (Option<&str>, bool) = match kind {
        0 => (None, false),
        1 => (Some("UTF-8"), false),
        2 | 3 => (Some("UTF-16"), false),
        4 => (Some(*rng.pick(&["ISO-8859-1", "iso-8859-1", "latin1"])), true),
        5 => (Some(*rng.pick(&["windows-1252", "cp1252"])), true),
        6 => (Some(*rng.pick(&["x-unknown-zz", "UTF-7", "EBCDIC-9", "utf8x"])), false),
        _ => (Some("US-ASCII"), true),
    };
    let mut cfg = RCfg::plain();
    cfg.latin1 = latin;
    cfg.decl_eq_space = rng.chance(1, 5);
    let eq_space = cfg.decl_eq_space;
    let r = render_document(rng, cfg, label);
    let mut text = r.text.clone();
    if kind == 5 {
        // some characters only windows-1252 has
        text = text.replacen("é", "€", 1).replacen("ß", "œ", 1);
    }
    if kind == 7 {
        text = text.chars().map(|c| if (c as u32) < 0x80 { c } else { 'e' }).collect();
    }
    let bytes: Vec<u8> = match kind {
        0 | 1 | 6 => {
            if kind == 1 && rng.chance(1, 2) {
                let mut b = vec![0xef, 0xbb, 0xbf];
                b.extend_from_slice(text.as_bytes());
                b
            } else {
                text.as_bytes().to_vec()
            }
        }
        2 => utf16(&text, false),
        3 => utf16(&text, true),
        _ => text.chars().map(|c| cp1252_byte(c).unwrap_or(b'?')).collect(),
    };
    let name = match kind {
        0 => "utf8-undeclared",
        1 => "utf8",
        2 => "utf16le-bom",
        3 => "utf16be-bom",
        4 => "iso-8859-1",
        5 => "windows-1252",
        6 => "unknown-label",
        _ => "us-ascii",
    };
    ctx.sink.stat(&format!("bytes.{}", name));
    let dump = dump_tokens(&text, false);
    let mut xot = Xot::new();
    let mut vocab = Vocab::standard(&mut xot);
    let got = guarded(|| xot.parse_bytes(&bytes));
    // reference: parse of the text itself
    let (_x2, v2, o2, _r2) = observe(&text, false, false, &dump);
    match (&got, &o2) {
        (None, _) => {
            // `decode` is external: the model's parseBytes panics exactly when it yields nothing
            ctx.sink.emit("build bytes-undecodable".to_string(), "panic".to_string());
            if kind == 6 {
                fail_bytes(ctx, "C03", "parse_bytes-panics-on-unknown-encoding-label", "parse_bytes panicked", &bytes);
            } else {
                fail_bytes(ctx, "C03", bytes_panic_signature(&bytes), "parse_bytes panicked", &bytes);
            }
        }
        (Some(Ok(doc)), Observed::Ok(s2)) => {
            let delta = env_delta(&xot, &mut vocab, &dump);
            let t1 = read_tree(&xot, &mut vocab, *doc);
            let mut pb = BTreeSet::new();
            let a1 = to_abstract(&vocab, &t1, &mut pb);
            let a2 = to_abstract(&v2, &s2.tree, &mut pb);
            if a1 != a2 {
                if kind != 6 {
                    let sig = if eq_space {
                        "parse_bytes-ignores-declared-encoding-with-space-around-eq".to_string()
                    } else {
                        format!("parse_bytes-{}-differs-from-parse-of-the-text", name)
                    };
                    fail_bytes(ctx, "C02", &sig, "decoded bytes parse differently from the text they encode", &bytes);
                }
            } else {
                if let Ok(d) = delta {
                    let nodes = nodes_in_order(&xot, *doc);
                    let paths = t1.paths();
                    let seen = Seen { doc: *doc, tree: t1, nodes, paths, span_info: empty_span_info() };
                    let resp = format!("ok {} ; ids {} ; {}", seen.tree.wire(), ids_words(&xot, &seen, &dump), d);
                    ctx.sink.emit(format!("build bytes {} {}", text.len(), dump.words), resp);
                }
                ctx.sink.stat("bytes.equal");
                if kind != 5 && kind != 7 {
                    let mut c02 = BTreeSet::new();
                    diff(&r.top, &a2, &mut c02);
                    for c in c02 {
                        ctx.fail("C02", &c, "the parsed tree is not the document that was spelled", "parse", &text);
                    }
                }
            }
        }
        (Some(Err(_)), Observed::Err(_)) => {}
        (Some(_), _) if kind != 6 => {
            fail_bytes(ctx, "C02", &format!("parse_bytes-{}-differs-from-parse-of-the-text", name), "decoded bytes parse differently from the text they encode", &bytes)
        }
        _ => {}
    }
}

fn arbitrary_bytes(ctx: &mut Ctx, rng: &mut Rng) {
    let n = rng.below(24);
    let mut bytes: Vec<u8> = vec![];
    match rng.below(3) {
        0 => {
            for _ in 0..n {
                bytes.push((rng.next() & 0xff) as u8);
            }
        }
        1 => {
            bytes.extend_from_slice(snippet_string(rng).as_bytes());
            for _ in 0..rng.below(3) {
                if !bytes.is_empty() {
                    let i = rng.below(bytes.len());
                    bytes[i] = (rng.next() & 0xff) as u8;
                }
            }
        }
        _ => {
            let bom: &[u8] = *rng.pick(&[&[0xff, 0xfe][..], &[0xfe, 0xff][..], &[0xef, 0xbb, 0xbf][..], &[0, 0, 0xfe, 0xff][..], &[0x4c, 0x6f, 0xa7, 0x94][..]]);
            bytes.extend_from_slice(bom);
            bytes.extend_from_slice(snippet_string(rng).as_bytes());
        }
    }
    ctx.sink.stat("bytes.arbitrary");
    let mut xot = Xot::new();
    if guarded(|| xot.parse_bytes(&bytes).map(|_| ())).is_none() {
        fail_bytes(ctx, "C03", bytes_panic_signature(&bytes), "parse_bytes panicked", &bytes);
    }
}

fn rendered_case(ctx: &mut Ctx, rng: &mut Rng, all_faults: bool, n_faults: usize) {
    let cfg = if rng.chance(1, 3) { RCfg::plain() } else { RCfg::draw(rng) };
    let fragment = rng.chance(1, 3);
    let r = if fragment { render_fragment(rng, cfg) } else { render_document(rng, cfg, None) };
    for f in &r.feats {
        ctx.sink.stat(&format!("feat.{}", f));
    }
    ctx.sink.stat(if fragment { "input.rendered-fragment" } else { "input.rendered-document" });
    ctx.sink.stat(&format!("rendered.len.{}", match r.text.len() { 0..=20 => "0-20", 21..=80 => "21-80", 81..=300 => "81-300", _ => "301+" }));
    case(ctx, &r.text, &Expect { rendered: Some(&r), fault: None });
    let mut fs = faults(&r, rng, all_faults);
    if !all_faults {
        // sample
        let mut picked = vec![];
        for _ in 0..n_faults.min(fs.len()) {
            let i = rng.below(fs.len());
            picked.push(fs.swap_remove(i));
        }
        fs = picked;
    }
    for (name, text) in &fs {
        ctx.sink.stat(&format!("fault.{}", name));
        case_mode(ctx, text, r.fragment, &Expect { rendered: Some(&r), fault: Some(name) });
    }
}

pub fn run(seed: u64, count: usize, tier: &str, sink: &mut Sink) {
    let mut rng = Rng::new(seed ^ 0xB01D);
    let mut ctx = Ctx { sink, fails: BTreeMap::new() };
    {
        let mut x = Xot::new();
        let v = Vocab::standard(&mut x);
        ctx.sink.emit(v.wire(), "ok".to_string());
    }
    if let Ok(inp) = std::env::var("BUILD_INPUT") {
        // replay of one input: `BUILD_INPUT=s:3c.61.2f.3e xotharness build 1 0 quick`
        for one in inp.split(',') {
            if let Some(s) = crate::common::dec(one) {
                case(&mut ctx, &s, &Expect { rendered: None, fault: None });
            }
        }
        ctx.flush();
        return;
    }
    for s in CORPUS {
        ctx.sink.stat("input.corpus");
        case(&mut ctx, s, &Expect { rendered: None, fault: None });
    }
    if tier == "thorough" {
        // every sequence of up to 3 snippets of a reduced alphabet
        let alpha = ["<a>", "</a>", "<a", " b='1'", "/>", ">", "t", "&amp;", "&", "<![CDATA[", "]]>", "<!--c-->", " xmlns:p='u'", "<p:a>"];
        for i in 0..alpha.len() {
            for j in 0..alpha.len() {
                case(&mut ctx, &format!("{}{}", alpha[i], alpha[j]), &Expect { rendered: None, fault: None });
                for k in 0..alpha.len() {
                    case(&mut ctx, &format!("{}{}{}", alpha[i], alpha[j], alpha[k]), &Expect { rendered: None, fault: None });
                }
            }
        }
    }
    let search = tier == "search";
    for _ in 0..count {
        match rng.below(10) {
            0..=5 => rendered_case(&mut ctx, &mut rng, tier == "thorough", if search { 12 } else { 5 }),
            6 | 7 => {
                ctx.sink.stat("input.snippets");
                let s = snippet_string(&mut rng);
                case(&mut ctx, &s, &Expect { rendered: None, fault: None });
            }
            8 => {
                ctx.sink.stat("input.unicode");
                let s = strings::any_string(&mut rng, 12);
                case(&mut ctx, &s, &Expect { rendered: None, fault: None });
            }
            _ => {
                if rng.chance(2, 3) {
                    bytes_case(&mut ctx, &mut rng);
                } else {
                    arbitrary_bytes(&mut ctx, &mut rng);
                }
            }
        }
    }
    ctx.flush();
}
