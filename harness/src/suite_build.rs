//! Suite `build`: an input string -> the real tokenizer's token dump (request) and xot's parse
//! result (response) for document and fragment mode; oracles for C02 / C03 / C17 on the
//! implementation. Inputs: rendered abstract documents, the fault catalogue applied to them,
//! arbitrary Unicode strings and byte strings.
use crate::build_obs::*;
use crate::build_oracle::*;
use crate::build_bytes::*;
use crate::build_faults::*;
use crate::build_gen::*;
use crate::build_render::*;
use crate::build_slices::slice_decode;
use crate::common::{guarded, Rng, Sink};
use crate::strings;
use crate::tree::*;
use std::collections::{BTreeMap, BTreeSet};
use xot::Xot;

pub struct Ctx<'a> {
    pub sink: &'a mut Sink,
    pub fails: BTreeMap<String, Vec<(usize, String)>>,
}

impl<'a> Ctx<'a> {
    pub fn fail(&mut self, prop: &str, sig: &str, what: &str, entry: &str, input: &str) {
        self.sink.stat(&format!("F.{}:{}", prop, sig));
        let v = self.fails.entry(format!("{}:{}", prop, sig)).or_default();
        v.push((input.len(), f_line(prop, sig, what, entry, input)));
        v.sort();
        v.truncate(3);
    }
    pub fn flush(&mut self) {
        for v in self.fails.values() {
            for (_, line) in v {
                println!("{}", line);
            }
        }
    }
}

/// An accepted tree in which the prefix `xml` names another namespace cannot be written back (the
/// serializer spells the XML namespace `xml:`): consequence of accepting the rebinding.
const XML_REBOUND: &str = "not-representable-xml-prefix-rebound";

/// What the oracle reads off an ACCEPTED tree for the last clause of C03 ("whatever is accepted …
/// whose serialisation is accepted again and reparses deep-equal"): the two guards of
/// `Props/C03.lean` (`NoReservedDecls`, `PlainPiTargets` of Model/AcceptedGuard.lean, evaluated by
/// the model too: request `accguard`) and what exactly violates them.
pub struct TreeGuards {
    /// `NoReservedDecls`: no namespace node declares the prefix `xml`
    pub no_reserved: bool,
    /// `PlainPiTargets`: every PI target is an NCName (no colon)
    pub plain_pi: bool,
    /// the only violations of `no_reserved` are the legal `xmlns:xml='http://www.w3.org/XML/1998/namespace'`
    pub only_legal_xml_redeclaration: bool,
}

const XML_NS_NAME: &str = "http://www.w3.org/XML/1998/namespace";

fn is_nc_name(s: &str) -> bool {
    use xmlparser::XmlCharExt;
    let mut cs = s.chars();
    match cs.next() {
        None => false,
        Some(c) => c != ':' && c.is_xml_name_start() && cs.all(|c| c != ':' && c.is_xml_name()),
    }
}

pub fn tree_guards(xot: &Xot, doc: xot::Node) -> TreeGuards {
    let mut g = TreeGuards { no_reserved: true, plain_pi: true, only_legal_xml_redeclaration: true };
    for n in xot.all_descendants(doc) {
        match xot.value(n) {
            xot::Value::Namespace(ns) => {
                if xot.prefix_str(ns.prefix()) == "xml" {
                    g.no_reserved = false;
                    if xot.namespace_str(ns.namespace()) != XML_NS_NAME {
                        g.only_legal_xml_redeclaration = false;
                    }
                }
            }
            xot::Value::ProcessingInstruction(pi) => {
                if !is_nc_name(xot.local_name_str(pi.target())) {
                    g.plain_pi = false;
                }
            }
            _ => {}
        }
    }
    g
}

/// Line ends are normalised in comments and PI data too (XML 1.0 section 2.11), and nothing there
/// can denote a CR: a CR in such a value was copied from the source.
fn comment_or_pi_with_cr(t: &GTree) -> bool {
    let here = match &t.v {
        GValue::Comment(s) | GValue::PI(_, Some(s)) => s.contains('\r'),
        _ => false,
    };
    here || t.kids.iter().any(comment_or_pi_with_cr)
}

fn mode_word(fragment: bool) -> &'static str {
    if fragment {
        "frag"
    } else {
        "doc"
    }
}

fn entry_name(fragment: bool) -> &'static str {
    if fragment {
        "parse_fragment"
    } else {
        "parse"
    }
}

/// What the caller knows about the input.
pub struct Expect<'r> {
    /// rendered well-formed input of this mode: the document it denotes
    pub rendered: Option<&'r Rendered>,
    /// a catalogue fault was applied (or planted by the renderer): must be rejected — in the
    /// rendered input's own mode; in both modes where there is no rendered input
    pub fault: Option<&'r str>,
}

/// One input through one mode: T line, statistics, all oracles.
pub fn case_mode(ctx: &mut Ctx, xml: &str, fragment: bool, ex: &Expect) {
    let dump = dump_tokens(xml, fragment);
    let (mut xot, vocab, obs, resp) = observe(xml, fragment, true, &dump);
    ctx.sink.emit(format!("build {} {} {}", mode_word(fragment), xml.len(), dump.words), resp.clone());
    let head = resp.split(' ').next().unwrap().to_string();
    ctx.sink.stat(&format!("resp.{}.{}", mode_word(fragment), head));
    ctx.sink.stat(&format!("tokens.{}", match dump.toks.len() { 0 => "0", 1..=5 => "1-5", 6..=20 => "6-20", _ => "21+" }));
    let entry = entry_name(fragment);
    let expects_here = |r: &Rendered| r.fragment == fragment;
    // the fault this mode has to reject
    let fault_here: Option<&str> = ex.fault.filter(|_| ex.rendered.map_or(true, expects_here));
    // namespace constraints / reserved PI targets the tokens show (whatever produced the input)
    let nsv = namespace_constraint_violations(&dump);
    // the entry point without span info must agree
    {
        let (_x2, _v2, obs2, resp2) = observe(xml, fragment, false, &dump);
        let same = match (&obs, &obs2) {
            (Observed::Panic, Observed::Panic) => true,
            (Observed::Err(_), Observed::Err(_)) => resp == resp2,
            (Observed::Ok(a), Observed::Ok(b)) => a.tree == b.tree,
            _ => false,
        };
        if !same {
            ctx.fail("C02", "result-depends-on-span-info-entry-point", "parse and parse_with_span_info disagree", entry, xml);
        }
    }
    match &obs {
        Observed::Panic => {
            let sig = if fragment && stray_end_tag(&dump) {
                "parse_fragment-panics-on-stray-end-tag".to_string()
            } else {
                format!("{}-panics", entry)
            };
            ctx.fail("C03", &sig, "the parse entry point panicked", entry, xml);
        }
        Observed::Err(e) => {
            let s = e.span();
            if s.start > s.end || s.end > xml.len() {
                ctx.fail("C17", &format!("error-span-outside-source-{}", err_variant(e)), "ParseError span outside [0, len]", entry, xml);
            }
            ctx.sink.stat(&format!("err.{}", err_variant(e)));
            if let Some(f) = fault_here {
                ctx.sink.stat(&format!("fault-rejected.{}.{}", f, err_variant(e)));
                if let Some(want) = fault_variant(f) {
                    if err_variant(e) != want {
                        let what = "an ill-formed text was rejected with another error than the one that names the fault";
                        if RESERVED_FAULTS.contains(&f) {
                            ctx.fail("C03", &fault_signature(f), what, entry, xml);
                        } else {
                            ctx.fail("C03", &format!("fault-{}-rejected-as-{}", f, err_variant(e)), what, entry, xml);
                        }
                    }
                }
            }
            // the two new variants name a cause the tokens must show
            if err_variant(e) == "InvalidNamespaceDeclaration" && !(nsv.reserved || nsv.undeclared) {
                ctx.fail("C02", "legal-namespace-declaration-rejected", "InvalidNamespaceDeclaration although no declaration is reserved or a prefixed undeclaration", entry, xml);
            }
            if err_variant(e) == "InvalidTarget" && !nsv.xml_pi {
                ctx.fail("C02", "legal-pi-target-rejected", "InvalidTarget although no PI has the target xml", entry, xml);
            }
            if let Some(r) = ex.rendered {
                if expects_here(r) && ex.fault.is_none() {
                    ctx.fail("C02", &format!("well-formed-spelling-rejected-{}", err_variant(e)), "a well-formed spelling was rejected", entry, xml);
                }
            }
        }
        Observed::Ok(seen) => {
            if let Some(f) = fault_here {
                ctx.fail("C03", &fault_signature(f), "an ill-formed text was accepted", entry, xml);
            }
            // recorded defects of xot, kept apart from `problems` so that the other oracles still run
            if nsv.xml_rebound {
                ctx.sink.stat("accepted.xml-prefix-rebound");
            }
            if ex.fault.is_none() {
                if nsv.reserved {
                    ctx.fail("C03", "reserved-prefix-or-namespace-rebound-accepted", "accepted although a reserved prefix / namespace name is (re)bound (Namespaces in XML 1.0 section 3)", entry, xml);
                }
                if nsv.undeclared {
                    ctx.fail("C03", "prefixed-undeclaration-accepted", "accepted although a prefix is declared with an empty namespace name (Namespaces in XML 1.0 section 3, NSC No Prefix Undeclaring)", entry, xml);
                }
                if nsv.xml_rebound {
                    ctx.fail("C03", "xml-prefix-rebound-accepted", "accepted although the prefix xml is bound to another namespace name than http://www.w3.org/XML/1998/namespace (Namespaces in XML 1.0 section 3)", entry, xml);
                }
                if nsv.xml_pi {
                    ctx.fail("C03", "pi-target-xml-accepted-serialisation-rejected", "accepted although a processing instruction has the reserved target xml (XML 1.0 section 2.6)", entry, xml);
                }
            }
            if comment_or_pi_with_cr(&seen.tree) {
                ctx.fail("C02", "comment-pi-line-ends-not-normalised", "a comment / PI data value contains a CR: line ends are not normalised (XML 1.0 section 2.11)", entry, xml);
            }
            let mut problems = BTreeSet::new();
            let act = to_abstract(&vocab, &seen.tree, &mut problems);
            if top_level_adjacent_text(&seen.tree) {
                problems.insert("adjacent-text-nodes".to_string());
            }
            if !all_values_xml_chars(&seen.tree) {
                problems.insert("reference-to-non-char-accepted".to_string());
            }
            if signed_reference(&dump) {
                problems.insert("signed-character-reference-accepted".to_string());
            }
            if has_empty_text(&seen.tree) {
                problems.insert("empty-cdata-makes-empty-text-node".to_string());
            }
            let truncated = dump.lexerr.is_none() && matches!(dump.toks.last(), Some(Tok::ElemStart { .. }) | Some(Tok::Attr { .. }));
            if truncated {
                problems.insert("truncated-start-tag-accepted".to_string());
            }
            if !fragment {
                if let Err(e) = xot.validate_well_formed_document(seen.doc) {
                    let v = format!("{:?}", e);
                    let v = v.split('(').next().unwrap().to_string();
                    problems.insert(format!("accepted-document-not-well-formed-{}", v));
                }
            }
            for p in &problems {
                ctx.fail("C03", p, "an accepted tree is not sound", entry, xml);
                if p == "processing-instruction-target-in-a-namespace" {
                    ctx.fail("C08", "parsed-name-id-denotes-another-expanded-name:processing-instruction-target", "a PI target registered by parsing carries the id of a name in a namespace", entry, xml);
                    ctx.fail("C02", "processing-instruction-target-in-a-namespace", "a PI target was resolved like an element name", entry, xml);
                }
            }
            // accepted => serialisation is accepted again and reparses deep-equal.
            // Proved in the model under the guards (C03_accepted_roundtrip): every accepted input is
            // sorted into "guards hold => must round-trip" / "guard violated => known finding classes".
            let g = tree_guards(&xot, seen.doc);
            if !resp.starts_with("ok harness-gap") {
                ctx.sink.emit(
                    format!("accguard {} {} {}", mode_word(fragment), xml.len(), dump.words),
                    format!("ok {} {}", g.no_reserved as u8, g.plain_pi as u8),
                );
            }
            let class = if g.no_reserved && g.plain_pi {
                "guards-hold"
            } else if !g.only_legal_xml_redeclaration {
                "guard-violated.xml-prefix-rebound"
            } else if !g.no_reserved {
                "guard-violated.legal-redeclaration-of-xml-only"
            } else {
                "guard-violated.pi-target-not-ncname"
            };
            ctx.sink.stat(&format!("accepted.{}", class));
            // outside the known finding (and the repaired ones, should they come back: reported above)
            // the serialisation has to be accepted again and to be deep-equal
            let must_round_trip = g.only_legal_xml_redeclaration && !nsv.reserved && !nsv.undeclared && !nsv.xml_pi;
            if problems.is_empty() {
                let doc = seen.doc;
                // one signature for every failure where the guards promise the round trip
                let mut broken = |ctx: &mut Ctx, specific: &str, what: &str| {
                    if must_round_trip {
                        ctx.fail("C03", "accepted-tree-does-not-round-trip", &format!("{} ({})", what, specific), entry, xml);
                    } else if nsv.xml_pi {
                        ctx.fail("C03", "pi-target-xml-accepted-serialisation-rejected", what, entry, xml);
                    } else if !g.only_legal_xml_redeclaration {
                        ctx.fail("C03", XML_REBOUND, what, entry, xml);
                    } else if nsv.undeclared {
                        ctx.fail("C03", "not-representable-prefixed-undeclaration", what, entry, xml);
                    } else {
                        ctx.fail("C03", specific, what, entry, xml);
                    }
                };
                match guarded(|| xot.to_string(doc)) {
                    None => ctx.fail("C03", "serialising-accepted-tree-panics", "to_string panicked on a parsed tree", entry, xml),
                    Some(Err(e)) => {
                        let v = format!("{:?}", e);
                        let v = v.split('(').next().unwrap().to_string();
                        broken(ctx, &format!("accepted-tree-not-serialisable-{}", v), "to_string failed on a parsed tree")
                    }
                    Some(Ok(s)) => {
                        let again = guarded(|| if fragment { xot.parse_fragment(&s) } else { xot.parse(&s) });
                        match again {
                            None => ctx.fail("C03", "reparse-panics", "reparsing the serialisation panicked", entry, xml),
                            Some(Err(e)) => broken(ctx, &format!("serialisation-rejected-{}", err_variant(&e)), "the serialisation of an accepted tree is rejected"),
                            Some(Ok(d2)) => {
                                if !xot.deep_equal(doc, d2) {
                                    broken(ctx, "reparse-differs", "the serialisation reparses to a different tree");
                                } else {
                                    ctx.sink.stat("reparse.equal");
                                    ctx.sink.stat(&format!("accepted.{}.round-trips", class));
                                }
                            }
                        }
                    }
                }
            }
            let mut c17 = BTreeSet::new();
            generic_spans(&vocab, seen, xml, &dump, &mut c17);
            ctx.sink.stat("oracle.C17.slices-taken-through-Span-range");
            {
                // slices and their decoding, from the source text and the tree alone
                let mut st = vec![];
                slice_decode(&vocab, seen, xml, &mut c17, &mut st);
                for s in st {
                    ctx.sink.stat(&s);
                }
            }
            if let Some(r) = ex.rendered {
                if expects_here(r) && ex.fault.is_none() {
                    let mut c02 = BTreeSet::new();
                    diff(&r.top, &act, &mut c02);
                    let shape_ok = !c02.iter().any(|c| c.ends_with("differ") || c.contains("xmlns") || c.contains("kind") || c.contains("empty-cdata"));
                    for (v, p) in expected_ids(&r.top) {
                        match xot.xml_id_node(seen.doc, &v) {
                            Some(n) if shape_ok && seen.path_of(n) == Some(&p) => {}
                            Some(_) if !shape_ok => {}
                            Some(_) => {
                                c02.insert("xml-id-node-finds-another-element".into());
                            }
                            None => {
                                if c02.contains("xml-id-not-fully-normalised") {
                                    c02.insert("xml-id-node-misses-partially-normalised-id".into());
                                } else {
                                    c02.insert("xml-id-node-misses-id".into());
                                }
                            }
                        }
                    }
                    if r.feats.contains("attr-local-xmlns") {
                        // everything below such an attribute inherits the bogus default namespace
                        let collateral = ["element-namespace-differs", "declarations-differ", "attributes-differ", "children-differ"];
                        if c02.iter().any(|c| collateral.contains(&c.as_str())) {
                            c02.retain(|c| !collateral.contains(&c.as_str()));
                            c02.insert("attribute-named-xmlns-taken-as-default-declaration".into());
                        }
                    }
                    if c02.is_empty() {
                        ctx.sink.stat("c02.rendered-equal");
                    }
                    for c in &c02 {
                        ctx.fail("C02", c, "the parsed tree is not the document that was spelled", entry, xml);
                    }
                    // the id a parsed name received denotes another expanded name than the one the text
                    // spells: "registered implicitly by parsing … names compare equal exactly when their
                    // expanded names are equal" (C08; seed C08g)
                    for c in &c02 {
                        if matches!(c.as_str(), "element-namespace-differs" | "attribute-namespace-differs" | "element-local-name-differs") {
                            ctx.fail("C08", &format!("parsed-name-id-denotes-another-expanded-name:{}", c), "a name registered by parsing carries the id of another expanded name than the one the text spells", entry, xml);
                        }
                    }
                    if shape_ok {
                        expected_spans(&vocab, seen, r, &mut c17);
                    }
                }
            }
            for c in &c17 {
                ctx.fail("C17", c, "a recorded span does not point at the right text", entry, xml);
            }
            // parse_fragment == children of parse of the wrapped text
            if fragment && !truncated {
                let wrapped = format!("<w>{}</w>", xml);
                let d2 = dump_tokens(&wrapped, false);
                let (_x2, v2, o2, _r2) = observe(&wrapped, false, false, &d2);
                match o2 {
                    Observed::Ok(s2) => {
                        let mut pb = BTreeSet::new();
                        let a2 = to_abstract(&v2, &s2.tree, &mut pb);
                        let inner: Vec<ANode> = match a2.first() {
                            Some(ANode::Elem(e)) => e.kids.clone(),
                            _ => vec![],
                        };
                        if inner != act {
                            ctx.fail("C02", "fragment-differs-from-wrapped-parse", "parse_fragment(t) is not the content of parse(<w>t</w>)", entry, xml);
                        } else {
                            ctx.sink.stat("c02.fragment-equals-wrapped");
                        }
                    }
                    _ => ctx.fail("C02", "fragment-accepted-but-wrapped-text-rejected", "parse_fragment(t) ok, parse(<w>t</w>) not", entry, xml),
                }
            }
        }
    }
    if fragment && !matches!(obs, Observed::Ok(_)) {
        // the converse direction of the fragment law
        let wrapped = format!("<w>{}</w>", xml);
        let d2 = dump_tokens(&wrapped, false);
        let (_x2, _v2, o2, _r2) = observe(&wrapped, false, false, &d2);
        if matches!(o2, Observed::Ok(_)) && !matches!(obs, Observed::Panic) {
            ctx.fail("C02", "wrapped-text-accepted-but-fragment-rejected", "parse(<w>t</w>) ok, parse_fragment(t) not", "parse_fragment", xml);
        }
    }
}

/// The faults the parser rejects since /repo 6153ddf, a5dcf8e, 002854f, a5fafb0: accepted, or rejected with
/// another variant, they are filed under the signature of the repaired finding.
const RESERVED_FAULTS: &[&str] = &["reserved-prefix-or-namespace-rebound", "prefixed-undeclaration", "pi-target-xml", "colon-without-prefix"];

/// The error variant a fault has to be rejected with, where the catalogue entry pins it down.
fn fault_variant(fault: &str) -> Option<&'static str> {
    match fault {
        "end-tag-with-other-prefix" => Some("InvalidCloseTag"),
        "duplicate-xml-id" | "duplicate-xml-id-after-normalisation" => Some("DuplicateId"),
        "reserved-prefix-or-namespace-rebound" | "prefixed-undeclaration" => Some("InvalidNamespaceDeclaration"),
        "pi-target-xml" => Some("InvalidTarget"),
        "colon-without-prefix" => Some("UnknownPrefix"),
        _ => None,
    }
}

/// One signature per root cause: an accepted fault is filed under the defect that lets it pass.
fn fault_signature(fault: &str) -> String {
    if fault == "duplicate-attribute-by-expanded-name" {
        "duplicate-attribute-by-expanded-name-accepted".into()
    } else if fault == "prefix-declared-twice" {
        "prefix-declared-twice-accepted".into()
    } else if fault.starts_with("non-char-reference") {
        "reference-to-non-char-accepted".into()
    } else if fault.starts_with("signed-reference") {
        "signed-character-reference-accepted".into()
    } else if fault == "duplicate-xml-id-after-normalisation" {
        "duplicate-xml-id-after-normalisation-accepted".into()
    } else if fault == "end-tag-with-other-prefix" {
        "end-tag-with-other-prefix-accepted".into()
    } else if fault == "reserved-prefix-or-namespace-rebound" {
        "reserved-prefix-or-namespace-rebound-accepted".into()
    } else if fault == "xml-prefix-rebound" {
        "xml-prefix-rebound-accepted".into()
    } else if fault == "prefixed-undeclaration" {
        "prefixed-undeclaration-accepted".into()
    } else if fault == "pi-target-xml" {
        "pi-target-xml-accepted-serialisation-rejected".into()
    } else if fault == "colon-without-prefix" {
        "name-with-colon-without-prefix-accepted".into()
    } else if fault == "ill-formed-reference-in-namespace-declaration" {
        "ill-formed-namespace-declaration-value-accepted".into()
    } else {
        format!("fault-accepted-{}", fault)
    }
}

pub fn case(ctx: &mut Ctx, xml: &str, ex: &Expect) {
    case_mode(ctx, xml, false, ex);
    case_mode(ctx, xml, true, ex);
}

// ---------------------------------------------------------------------------------------------
// Inputs

/// The witnesses of DESIGN.md section 8 rows 3-5 and of the closed witnesses in Props/.
pub const CORPUS: &[&str] = &[
    "<a/>",
    "<a></a>",
    "",
    "x",
    "<a>",
    "</a>",
    "<a/></a>",
    "<a></b>",
    "<a><![CDATA[x\r\ny]]></a>",
    "<a xmlns:p='x&amp;y'><p:b/></a>",
    "<a xml:id='   x   y   '/>",
    "<a xmlns:p='u' xmlns:q='u' p:x='1' q:x='2'/>",
    "<a xmlns:p='u' xmlns:p='v'/>",
    "<a>&#0;</a>",
    "<a>&#x1;</a>",
    "<a>&#xFFFE;</a>",
    "<a>&#+65;</a>",
    "<a b='&#+65;'/>",
    "<a><![CDATA[]]></a>",
    "<a xmlns:p='u' p:xmlns='v'/>",
    "<a/><b/>",
    "<!-- c -->",
    "<?xml version='1.1'?><a/>",
    "<!DOCTYPE a><a/>",
    "<a xml:id='i'><b xml:id='i'/></a>",
    "<a xml:id='i'><b xml:id=' i '/></a>",
    "<a xml:id='i'><b xml:id='  i'/></a>",
    "<p:a/>",
    "<a p:b='1'/>",
    "<a b='1' b='2'/>",
    "<a>&amp</a>",
    "<a>&bogus;</a>",
    "<a b='&#xD800;'/>",
    "<a>t<![CDATA[c]]>u</a>",
    "<a>é&#;</a>",
    "\u{feff}<a/>",
    "t<a/>u",
    "<a xmlns='u'><b xmlns=''/></a>",
    "<?pi d?><a/><!--c-->",
    "<p:a xmlns:p='u' xmlns:q='u'></q:a>",
    "<a xmlns='u' xmlns:q='u'></q:a>",
    "<q:a xmlns='u' xmlns:q='u'></a>",
    "<a xmlns:p='http://www.w3.org/XML/1998/namespace' p:id='  x   y '/>",
    "<a xmlns:p='http://www.w3.org/XML/1998/namespace' p:id=' x '><b xml:id='x'/></a>",
    "<a xml:id='x'><b xmlns:p='http://www.w3.org/XML/1998/namespace' p:id=' x '/></a>",
    "<a xmlns:xml='zzz'/>",
    "<a xmlns:xmlns='zzz'/>",
    "<a xmlns:p=''><p:b/></a>",
    "<a xmlns:xml='http://www.w3.org/XML/1998/namespace' xml:id='i'/>",
    // C17 slices: the witness of Props/C17 (sliceWitness), runs that start / end inside a CDATA
    // section or contain an empty one (names written with a leading colon, `<:a/>`, `<a :b='1'/>`,
    // are rejected since /repo a5fafb0: build_faults::PINNED_REJECTS, fault colon-without-prefix)
    "<p:a xmlns:p=\"u\" b=\"x&#10;y\">t&lt;<![CDATA[c]]><!--k--><?pi d?></p:a>",
    "<a><![CDATA[x]]>y<![CDATA[]]>&amp;<![CDATA[z\r]]></a>",
    "<a>x<![CDATA[]]></a>",
    // C03_accepted_*: the witnesses of Props/C03.lean and what the tokenizer lets through
    "<a xmlns:p='' p:xmlns='v'/>",
    "<a xmlns:xml='' xmlns:p='http://www.w3.org/XML/1998/namespace' p:id='i'/>",
    "<a><?xml\tx?></a>",
    "<a><?xml?></a>",
    "<a><?XML x?></a>",
    "<a><?a:b x?></a>",
    "<r xmlns=\"urn:a\" xmlns:p=\"urn:b\" k=\"&lt;&#x41;&amp;\"><p:c xml:id=\" i \"/><![CDATA[x]]>y&#xD;<!--c--><?t d?><e xmlns=\"\"/></r>",
    "<a xmlns:p='http://www.w3.org/2000/xmlns/'><p:b/></a>",
    // line ends in comments and PI data (normalised since /repo f8655b7)
    "<a><!--x\r\ny--><?p x\ry?></a>",
    "<!--\r--><a/><?p \r\n\r?>",
    "<a><!--\r\r\n\n\r--><?p\r\nx\r?></a>",
    // order of the checks in DocumentBuilder::prefix: value decoding, reserved / undeclaration test
    // (on the decoded URI), duplicate test; the prefix xml is exempt from the undeclaration test
    "<a xmlns:xmlns='&bogus;'/>",
    "<a xmlns:p='&#0;' xmlns:xmlns='u'/>",
    "<a xmlns:p='u' xmlns:p=''/>",
    "<a xmlns:p='' xmlns:p='u'/>",
    "<a xmlns:p='u' xmlns:p='http://www.w3.org/2000/xmlns/'/>",
    "<a xmlns:p='http://www.w3.org/2000/xmlns&#x2F;'/>",
    "<a xmlns:p='http://www.w3.org/2000/xmlns&#x2F'/>",
    "<a xmlns:p='&#x20;'/>",
    "<a xmlns:p=' '/>",
    "<a xmlns:p='\t'/>",
    "<a xmlns:xml=''/>",
    "<a xmlns:xml='' xml:id=' i '/>",
    "<a xmlns:xml='http://www.w3.org/XML/1998/namespace'/>",
    "<a xmlns:xml='zzz'><b xmlns:xml='http://www.w3.org/XML/1998/namespace' xml:id=' i '/></a>",
    "<a xmlns:XML='u' xmlns:Xmlns='v'/>",
    "<a xmlns='http://www.w3.org/XML/1998/namespace' b='1' b='2'/>",
    "<a b='1' b='2' xmlns:xmlns='u'/>",
    "<zz:a xmlns:p=''/>",
    "<a xmlns:p=''",
    "<?xml\tx?><a/>",
    "<?xml x?><a/>",
    "<a><?xml x?></a>",
    "<a/><?XmL?>",
    "<?xml version='1.0'?><?XML version='1.0'?><a/>",
    "<a><?xmlx y?><?xml-stylesheet z?><?x:ml?></a>",
    "<?xMl?>",
];

const SNIPPETS: &[&str] = &[
    "<a>", "</a>", "<a/>", "<b>", "</b>", "<p:a>", "</p:a>", "<a ", " b='1'", " b=\"", "'", "\"", ">", "/>", " xmlns:p='u'", " xmlns='v'",
    " xml:id=' i '", " p:b='2'", " xmlns:p=''", " xmlns:xmlns='u'", " xmlns:xml='zzz'", " xmlns:q='http://www.w3.org/2000/xmlns/'", " xmlns='http://www.w3.org/XML/1998/namespace'", "<?XmL ", "<?xml?>", "<!--\r\n", "<?pi \r", "&amp;", "&#65;", "&#x", ";", "&", "<![CDATA[", "]]>", "<!--", "-->", "--", "<?pi ", "?>", "<?xml version='1.0'?>",
    "<?x:y ", "<?xml\t", "<!DOCTYPE a>", "t", " ", "\r\n", "\r", "é", "\u{1f600}", "<", "=", "]]", "\u{feff}", "\u{0}", "\u{fffe}",
];

pub fn snippet_string(rng: &mut Rng) -> String {
    let n = 1 + rng.below(8);
    let mut s = String::new();
    for _ in 0..n {
        if rng.chance(1, 10) {
            s.push(strings::any_char(rng));
        } else {
            s.push_str(*rng.pick(SNIPPETS));
        }
    }
    s
}

fn rendered_case(ctx: &mut Ctx, rng: &mut Rng, all_faults: bool, n_faults: usize) {
    let cfg = if rng.chance(1, 3) { RCfg::plain() } else { RCfg::draw(rng) };
    let fragment = rng.chance(1, 3);
    let r = if fragment { render_fragment(rng, cfg) } else { render_document(rng, cfg, None) };
    for f in &r.feats {
        ctx.sink.stat(&format!("feat.{}", f));
    }
    ctx.sink.stat(if fragment { "input.rendered-fragment" } else { "input.rendered-document" });
    ctx.sink.stat(&format!("rendered.len.{}", match r.text.len() { 0..=20 => "0-20", 21..=80 => "21-80", 81..=300 => "81-300", _ => "301+" }));
    if let Some(f) = r.planted {
        ctx.sink.stat(&format!("planted.{}", f));
    }
    case(ctx, &r.text, &Expect { rendered: Some(&r), fault: r.planted });
    if r.planted.is_some() {
        // already ill-formed: the catalogue's pinned variants assume a well-formed base text
        return;
    }
    let mut fs = faults(&r, rng, all_faults);
    if !all_faults {
        // sample
        let mut picked = vec![];
        for _ in 0..n_faults.min(fs.len()) {
            let i = rng.below(fs.len());
            picked.push(fs.swap_remove(i));
        }
        fs = picked;
    }
    for (name, text) in &fs {
        ctx.sink.stat(&format!("fault.{}", name));
        case_mode(ctx, text, r.fragment, &Expect { rendered: Some(&r), fault: Some(name) });
    }
}

/// "Ladder" documents: a prefix bound on an outer element, re-bound on an inner element that uses it
/// (own name, end tag, attribute), then used again by the inner element's following sibling, whose
/// parent may carry no declarations at all — a resolution cached by the name builder must not outlive
/// the scope it was made in (seeds C02g, C08g).  Text and denoted document are written side by side.
fn ladder_case(ctx: &mut Ctx, rng: &mut Rng) {
    let uris = ["urn:a", "urn:b", "urn:c"];
    let u1 = *rng.pick(&uris);
    let u2 = *rng.pick(&uris.iter().copied().filter(|u| *u != u1).collect::<Vec<_>>());
    let p = *rng.pick(&["p", "q"]);
    let el = |ns: &str, local: &str, decls: Vec<(String, String)>, attrs: Vec<(String, String, String)>, kids: Vec<ANode>| {
        ANode::Elem(AElem { ns: ns.to_string(), local: local.to_string(), decls, attrs, kids })
    };
    // the inner element: re-binds p, and the LAST prefixed name resolved inside it uses p
    let (inner_txt, inner_node) = match rng.below(4) {
        0 => (format!("<{p}:a xmlns:{p}=\"{u2}\"/>"), el(u2, "a", vec![(p.into(), u2.into())], vec![], vec![])),
        1 => (format!("<{p}:a xmlns:{p}=\"{u2}\"></{p}:a>"), el(u2, "a", vec![(p.into(), u2.into())], vec![], vec![])),
        2 => (format!("<{p}:a xmlns:{p}=\"{u2}\">t</{p}:a>"), el(u2, "a", vec![(p.into(), u2.into())], vec![], vec![ANode::Text("t".into())])),
        _ => (format!("<i xmlns:{p}=\"{u2}\" {p}:x=\"1\"/>"), el("", "i", vec![(p.into(), u2.into())], vec![(u2.into(), "x".into(), "1".into())], vec![])),
    };
    // the following sibling: no declarations, its first prefixed name uses p (outer binding)
    let (sib_txt, sib_node) = match rng.below(3) {
        0 => (format!("<{p}:a/>"), el(u1, "a", vec![], vec![], vec![])),
        1 => (format!("<{p}:b {p}:x=\"2\"/>"), el(u1, "b", vec![], vec![(u1.into(), "x".into(), "2".into())], vec![])),
        _ => (format!("<j {p}:y=\"2\"/>"), el("", "j", vec![], vec![(u1.into(), "y".into(), "2".into())], vec![])),
    };
    let wrapped = rng.chance(3, 4);
    let (body_txt, body_nodes) = if wrapped {
        (format!("<m>{}{}</m>", inner_txt, sib_txt), vec![el("", "m", vec![], vec![], vec![inner_node, sib_node])])
    } else {
        (format!("{}{}", inner_txt, sib_txt), vec![inner_node, sib_node])
    };
    let text = format!("<r xmlns:{p}=\"{u1}\">{}</r>", body_txt);
    let top = vec![el("", "r", vec![(p.into(), u1.into())], vec![], body_nodes)];
    let r = Rendered {
        text,
        fragment: false,
        top,
        spans: vec![],
        tag_points: vec![],
        close_tags: vec![],
        close_alts: vec![],
        text_points: vec![],
        attr_points: vec![],
        decl_points: vec![],
        top_points: vec![],
        has_decl: false,
        planted: None,
        feats: Default::default(),
    };
    ctx.sink.stat("input.ladder-document");
    case(ctx, &r.text, &Expect { rendered: Some(&r), fault: None });
}

pub fn run(seed: u64, count: usize, tier: &str, sink: &mut Sink) {
    let mut rng = Rng::new(seed ^ 0xB01D);
    let mut ctx = Ctx { sink, fails: BTreeMap::new() };
    {
        let mut x = Xot::new();
        let v = Vocab::standard(&mut x);
        ctx.sink.emit(v.wire(), "ok".to_string());
    }
    if let Ok(inp) = std::env::var("BUILD_INPUT") {
        // replay of one input: `BUILD_INPUT=s:3c.61.2f.3e xotharness build 1 0 quick`
        for one in inp.split(',') {
            if let Some(s) = crate::common::dec(one) {
                case(&mut ctx, &s, &Expect { rendered: None, fault: None });
            }
        }
        ctx.flush();
        return;
    }
    for s in CORPUS {
        ctx.sink.stat("input.corpus");
        case(&mut ctx, s, &Expect { rendered: None, fault: None });
    }
    for (s, fault) in PINNED_REJECTS {
        ctx.sink.stat("input.corpus-pinned-reject");
        case(&mut ctx, s, &Expect { rendered: None, fault: Some(fault) });
    }
    if tier == "thorough" {
        // every sequence of up to 3 snippets of a reduced alphabet
        let alpha = ["<a>", "</a>", "<a", " b='1'", "/>", ">", "t", "&amp;", "&", "<![CDATA[", "]]>", "<!--c-->", " xmlns:p='u'", "<p:a>"];
        for i in 0..alpha.len() {
            for j in 0..alpha.len() {
                case(&mut ctx, &format!("{}{}", alpha[i], alpha[j]), &Expect { rendered: None, fault: None });
                for k in 0..alpha.len() {
                    case(&mut ctx, &format!("{}{}{}", alpha[i], alpha[j], alpha[k]), &Expect { rendered: None, fault: None });
                }
            }
        }
    }
    let search = tier == "search";
    for i in 0..count {
        if i % 20 == 7 {
            ladder_case(&mut ctx, &mut rng);
        }
        match rng.below(10) {
            0..=5 => rendered_case(&mut ctx, &mut rng, tier == "thorough", if search { 12 } else { 5 }),
            6 | 7 => {
                ctx.sink.stat("input.snippets");
                let s = snippet_string(&mut rng);
                case(&mut ctx, &s, &Expect { rendered: None, fault: None });
            }
            8 => {
                ctx.sink.stat("input.unicode");
                let s = strings::any_string(&mut rng, 12);
                case(&mut ctx, &s, &Expect { rendered: None, fault: None });
            }
            _ => {
                if rng.chance(2, 3) {
                    bytes_case(&mut ctx, &mut rng);
                } else {
                    arbitrary_bytes(&mut ctx, &mut rng);
                }
            }
        }
    }
    ctx.flush();
}
