//! Suite `idmap`, part 2: one history on a real `Xot` — every operation performs the call, prints
//! the transcript line, updates the ground truth and evaluates the oracle.
use crate::build_obs::{dump_tokens, Tok};
use crate::common::{enc, guarded, Rng, Sink};
use crate::idmap_oracle::*;
use crate::suite_idmap::{gen_doc, POOL};
use crate::tree::{name_num, ns_num, prefix_num};
use xot::{NameId, NamespaceId, PrefixId};

const HTML5_SRC: &str = include_str!("/repo/src/output/html5elements.rs");

pub struct Hist<'a> {
    pub cur: State,
    pub other: Option<State>,
    pub bank: &'a Bank,
    pub fails: &'a mut Fails,
    pub sink: &'a mut Sink,
    pub recent: Vec<String>,
}

pub fn opt_num(o: Option<usize>) -> String {
    match o {
        Some(n) => format!("some {}", n),
        None => "none".to_string(),
    }
}

pub fn ids_str(ids: &[usize]) -> String {
    if ids.is_empty() {
        "-".to_string()
    } else {
        ids.iter().map(|i| i.to_string()).collect::<Vec<_>>().join(",")
    }
}

/// (local name, namespace URI) of every element followed by its attributes (declarations left
/// out), in document order, resolved from the tokens; `None` when a prefix does not resolve or a
/// value does not decode (the parse is then refused anyway).
pub fn expected_expanded_names(toks: &[Tok]) -> Option<Vec<(String, String)>> {
    let mut out = vec![];
    let mut scopes: Vec<Vec<(String, String)>> = vec![vec![("xml".to_string(), XML_NS.to_string())]];
    let lookup = |scopes: &Vec<Vec<(String, String)>>, p: &str| -> Option<String> {
        scopes.iter().rev().find_map(|f| f.iter().rev().find(|(q, _)| q == p).map(|(_, u)| u.clone()))
    };
    let mut i = 0;
    while i < toks.len() {
        match &toks[i] {
            Tok::ElemStart { prefix, local } => {
                let mut frame = vec![];
                let mut attrs = vec![];
                let mut j = i + 1;
                while let Some(Tok::Attr { prefix: ap, local: al, value, .. }) = toks.get(j) {
                    if ap == "xmlns" {
                        frame.push((al.clone(), xot::verif_hooks::parse_attribute(value, 0).ok()?));
                    } else if ap.is_empty() && al == "xmlns" {
                        frame.push((String::new(), xot::verif_hooks::parse_attribute(value, 0).ok()?));
                    } else {
                        attrs.push((ap.clone(), al.clone()));
                    }
                    j += 1;
                }
                scopes.push(frame);
                let ens = if prefix.is_empty() { lookup(&scopes, "").unwrap_or_default() } else { lookup(&scopes, prefix)? };
                out.push((local.clone(), ens));
                let mut resolved = vec![];
                for (ap, al) in attrs {
                    let u = if ap.is_empty() { String::new() } else { lookup(&scopes, &ap)? };
                    resolved.push((al, u));
                }
                // the attribute view is a map in insertion order: document order
                out.extend(resolved);
                if let Some(Tok::EndEmpty) = toks.get(j) {
                    scopes.pop();
                }
                i = j;
            }
            Tok::EndClose { .. } => {
                scopes.pop();
                i += 1;
            }
            _ => i += 1,
        }
    }
    Some(out)
}

impl<'a> Hist<'a> {
    pub fn new(bank: &'a Bank, fails: &'a mut Fails, sink: &'a mut Sink) -> Self {
        let mut h = Hist { cur: State::new(), other: None, bank, fails, sink, recent: vec![] };
        let x = &h.cur.xot;
        let resp = format!(
            "ok {} {} {} {} {} {}",
            ns_num(x.no_namespace()),
            prefix_num(x.empty_prefix()),
            ns_num(x.xml_namespace()),
            prefix_num(x.xml_prefix()),
            name_num(x.xml_space_name()),
            name_num(x.xml_id_name())
        );
        let distinct = {
            let x = &h.cur.xot;
            x.no_namespace() != x.xml_namespace() && x.empty_prefix() != x.xml_prefix() && x.xml_space_name() != x.xml_id_name()
        };
        h.emit("idmap new".to_string(), resp.clone());
        if !distinct {
            h.fail("C08:builtin-ids-not-distinct", format!("a new store (Xot::new() / Xot::default()) answers the built-in ids {}", resp));
        }
        h.builtins();
        h
    }

    pub fn emit(&mut self, req: String, resp: String) -> String {
        self.sink.stat(&format!("op.{}", req.split(' ').nth(1).unwrap_or("?")));
        self.sink.stat(&format!("resp.{}", resp.split(' ').next().unwrap_or("?")));
        self.recent.push(req.clone());
        self.sink.emit(req, resp.clone());
        resp
    }

    pub fn fail(&mut self, sig: &str, what: String) {
        self.fails.report(self.sink, sig, what, &self.recent);
    }

    // ---- built-ins ---------------------------------------------------------------------------
    pub fn builtins(&mut self) {
        let x = &self.cur.xot;
        let s = |r: Option<String>| r.unwrap_or_else(|| "panic".to_string());
        let nm = |id: NameId| {
            s(guarded(|| {
                let (l, u) = x.name_ns_str(id);
                format!("{}@{}", enc(l), enc(u))
            }))
        };
        let resp = format!(
            "ok {}={} {}={} {}={} {}={} {}={} {}={}",
            ns_num(x.no_namespace()),
            s(guarded(|| enc(x.namespace_str(x.no_namespace())))),
            prefix_num(x.empty_prefix()),
            s(guarded(|| enc(x.prefix_str(x.empty_prefix())))),
            ns_num(x.xml_namespace()),
            s(guarded(|| enc(x.namespace_str(x.xml_namespace())))),
            prefix_num(x.xml_prefix()),
            s(guarded(|| enc(x.prefix_str(x.xml_prefix())))),
            name_num(x.xml_space_name()),
            nm(x.xml_space_name()),
            name_num(x.xml_id_name()),
            nm(x.xml_id_name()),
        );
        // oracle
        let mut bad = vec![];
        if x.no_namespace() == x.xml_namespace() {
            bad.push("no_namespace() == xml_namespace()".to_string());
        }
        if x.empty_prefix() == x.xml_prefix() {
            bad.push("empty_prefix() == xml_prefix()".to_string());
        }
        if x.xml_space_name() == x.xml_id_name() {
            bad.push("xml_space_name() == xml_id_name()".to_string());
        }
        let chk = |got: Option<String>, want: &str, what: &str, bad: &mut Vec<String>| {
            if got.as_deref() != Some(want) {
                bad.push(format!("{} resolves to {:?}, expected {:?}", what, got, want));
            }
        };
        chk(guarded(|| x.namespace_str(x.no_namespace()).to_string()), "", "no_namespace()", &mut bad);
        chk(guarded(|| x.prefix_str(x.empty_prefix()).to_string()), "", "empty_prefix()", &mut bad);
        chk(guarded(|| x.namespace_str(x.xml_namespace()).to_string()), XML_NS, "xml_namespace()", &mut bad);
        chk(guarded(|| x.prefix_str(x.xml_prefix()).to_string()), "xml", "xml_prefix()", &mut bad);
        chk(guarded(|| x.local_name_str(x.xml_space_name()).to_string()), "space", "xml_space_name() local name", &mut bad);
        chk(guarded(|| x.uri_str(x.xml_space_name()).to_string()), XML_NS, "xml_space_name() namespace", &mut bad);
        chk(guarded(|| x.local_name_str(x.xml_id_name()).to_string()), "id", "xml_id_name() local name", &mut bad);
        chk(guarded(|| x.uri_str(x.xml_id_name()).to_string()), XML_NS, "xml_id_name() namespace", &mut bad);
        chk(guarded(|| x.name_ns("space", x.xml_namespace()).map(name_num)).map(|o| format!("{:?}", o)), &format!("{:?}", Some(name_num(x.xml_space_name()))), "name_ns(\"space\", xml_namespace())", &mut bad);
        self.emit("idmap builtins".to_string(), resp);
        for b in bad {
            self.fail("C08:builtin-ids-wrong", b);
        }
    }

    // ---- registrations -----------------------------------------------------------------------
    pub fn ns_id(&self, n: usize) -> NamespaceId {
        self.bank.nss[n]
    }

    pub fn add_name_ns(&mut self, local: &str, ns: usize, via_add_name: bool) -> usize {
        let nsid = self.ns_id(ns);
        let x = &mut self.cur.xot;
        let r = guarded(|| if via_add_name { x.add_name(local) } else { x.add_name_ns(local, nsid) });
        let req = if via_add_name { format!("idmap add_name {}", enc(local)) } else { format!("idmap add_name_ns {} {}", enc(local), ns) };
        let id = match r {
            Some(id) => id,
            None => {
                // a registration that panics (e.g. a checked id conversion): recorded, not fatal
                self.emit(req, "panic".to_string());
                return 0;
            }
        };
        let n = name_num(id);
        self.emit(req, format!("ok {}", n));
        let key = (local.to_string(), ns);
        if ns >= self.cur.ns.order.len() {
            self.sink.stat("reg.name.foreign-namespace-id");
        }
        self.cur.nm.observe(&key, n, self.fails, self.sink, &self.recent);
        self.check_name(&key, id);
        n
    }

    pub fn check_name(&mut self, key: &(String, usize), id: NameId) {
        let x = &self.cur.xot;
        let local = guarded(|| x.local_name_str(id).to_string());
        let nsn = guarded(|| ns_num(x.namespace_for_name(id)));
        let ro = x.name_ns(&key.0, self.bank.nss[key.1]).map(name_num);
        if local.as_deref() != Some(key.0.as_str()) || nsn != Some(key.1) {
            let s = self.cur.nm.sig("C08:lookup-returns-other-value");
            self.fail(&s, format!("name table: id {} returned for {:?} resolves to ({:?}, ns {:?})", name_num(id), key, local, nsn));
        }
        if ro != Some(name_num(id)) {
            let s = self.cur.nm.sig("C08:readonly-lookup-disagrees");
            self.fail(&s, format!("name table: name_ns{:?} = {:?} right after its registration returned id {}", key, ro, name_num(id)));
        }
    }

    pub fn add_namespace(&mut self, v: &str) -> usize {
        let x = &mut self.cur.xot;
        let id = match guarded(|| x.add_namespace(v)) {
            Some(id) => id,
            None => {
                self.emit(format!("idmap add_namespace {}", enc(v)), "panic".to_string());
                return 0;
            }
        };
        let n = ns_num(id);
        self.emit(format!("idmap add_namespace {}", enc(v)), format!("ok {}", n));
        self.cur.ns.observe(&v.to_string(), n, self.fails, self.sink, &self.recent);
        self.check_ns(v, id);
        n
    }

    pub fn check_ns(&mut self, v: &str, id: NamespaceId) {
        let x = &self.cur.xot;
        let got = guarded(|| x.namespace_str(id).to_string());
        let ro = x.namespace(v).map(ns_num);
        if got.as_deref() != Some(v) {
            let s = self.cur.ns.sig("C08:lookup-returns-other-value");
            self.fail(&s, format!("namespace table: id {} returned for {:?} resolves to {:?}", ns_num(id), v, got));
        }
        if ro != Some(ns_num(id)) {
            let s = self.cur.ns.sig("C08:readonly-lookup-disagrees");
            self.fail(&s, format!("namespace table: namespace({:?}) = {:?} right after its registration returned id {}", v, ro, ns_num(id)));
        }
    }

    pub fn add_prefix(&mut self, v: &str) -> usize {
        let x = &mut self.cur.xot;
        let id = match guarded(|| x.add_prefix(v)) {
            Some(id) => id,
            None => {
                self.emit(format!("idmap add_prefix {}", enc(v)), "panic".to_string());
                return 0;
            }
        };
        let n = prefix_num(id);
        self.emit(format!("idmap add_prefix {}", enc(v)), format!("ok {}", n));
        self.cur.pf.observe(&v.to_string(), n, self.fails, self.sink, &self.recent);
        self.check_pf(v, id);
        n
    }

    pub fn check_pf(&mut self, v: &str, id: PrefixId) {
        let x = &self.cur.xot;
        let got = guarded(|| x.prefix_str(id).to_string());
        let ro = x.prefix(v).map(prefix_num);
        if got.as_deref() != Some(v) {
            let s = self.cur.pf.sig("C08:lookup-returns-other-value");
            self.fail(&s, format!("prefix table: id {} returned for {:?} resolves to {:?}", prefix_num(id), v, got));
        }
        if ro != Some(prefix_num(id)) {
            let s = self.cur.pf.sig("C08:readonly-lookup-disagrees");
            self.fail(&s, format!("prefix table: prefix({:?}) = {:?} right after its registration returned id {}", v, ro, prefix_num(id)));
        }
    }

    // ---- read-only lookups -------------------------------------------------------------------
    pub fn ro_name(&mut self, local: &str, ns: usize, via_name: bool) -> String {
        let got = if via_name { self.cur.xot.name(local) } else { self.cur.xot.name_ns(local, self.ns_id(ns)) }.map(name_num);
        let want = self.cur.nm.truth.get(&(local.to_string(), ns)).copied();
        if got != want {
            let s = self.cur.nm.sig("C08:readonly-lookup-disagrees");
            self.fail(&s, format!("name table: name_ns({:?}, ns {}) = {:?}, registered id: {:?}", local, ns, got, want));
        }
        let req = if via_name { format!("idmap name {}", enc(local)) } else { format!("idmap name_ns {} {}", enc(local), ns) };
        self.emit(req, opt_num(got))
    }

    pub fn ro_namespace(&mut self, v: &str) -> String {
        let got = self.cur.xot.namespace(v).map(ns_num);
        let want = self.cur.ns.truth.get(v).copied();
        if got != want {
            let s = self.cur.ns.sig("C08:readonly-lookup-disagrees");
            self.fail(&s, format!("namespace table: namespace({:?}) = {:?}, registered id: {:?}", v, got, want));
        }
        self.emit(format!("idmap namespace {}", enc(v)), opt_num(got))
    }

    pub fn ro_prefix(&mut self, v: &str) -> String {
        let got = self.cur.xot.prefix(v).map(prefix_num);
        let want = self.cur.pf.truth.get(v).copied();
        if got != want {
            let s = self.cur.pf.sig("C08:readonly-lookup-disagrees");
            self.fail(&s, format!("prefix table: prefix({:?}) = {:?}, registered id: {:?}", v, got, want));
        }
        self.emit(format!("idmap prefix {}", enc(v)), opt_num(got))
    }

    // ---- id -> string ------------------------------------------------------------------------
    pub fn str_lookup(&mut self, which: usize, n: usize) -> String {
        let x = &self.cur.xot;
        let b = self.bank;
        let okstr = |r: Option<String>| r.map(|s| format!("ok {}", enc(&s))).unwrap_or_else(|| "panic".to_string());
        let (op, resp) = match which {
            0 => (
                "name_ns_str",
                guarded(|| {
                    let (l, u) = x.name_ns_str(b.names[n]);
                    format!("ok {} {}", enc(l), enc(u))
                })
                .unwrap_or_else(|| "panic".to_string()),
            ),
            1 => ("local_name_str", okstr(guarded(|| x.local_name_str(b.names[n]).to_string()))),
            2 => ("uri_str", okstr(guarded(|| x.uri_str(b.names[n]).to_string()))),
            3 => ("namespace_str", okstr(guarded(|| x.namespace_str(b.nss[n]).to_string()))),
            4 => ("prefix_str", okstr(guarded(|| x.prefix_str(b.pfs[n]).to_string()))),
            _ => (
                "namespace_for_name",
                guarded(|| format!("ok {}", ns_num(x.namespace_for_name(b.names[n])))).unwrap_or_else(|| "panic".to_string()),
            ),
        };
        self.emit(format!("idmap {} {}", op, n), resp)
    }

    // ---- implicit registrations ----------------------------------------------------------------
    /// Find what was registered behind our back among the candidate strings (new = present in the
    /// Xot but not in the ground truth), in id order, and tell the model.
    pub fn discover(&mut self, cands: &[String]) {
        self.discover_as(cands, None)
    }

    /// `direct = Some(request)`: the model is not told what was found — the request names the call
    /// (`idmap parse <mode> <len> <token dump>` / `idmap html5`), the model predicts the registrations
    /// from its parser / `html5()` model, and the response lists what the real call added (strings
    /// in id order, then the ids the read-only lookups give).
    pub fn discover_as(&mut self, cands: &[String], direct: Option<String>) {
        if self.cur.ns.order.len() + 2000 > CAPACITY || self.cur.pf.order.len() + 2000 > CAPACITY || self.cur.nm.order.len() + 2000 > CAPACITY {
            return; // id order = registration order only below the wrap
        }
        let mut new_ns: Vec<(usize, String)> = vec![];
        let mut new_pf: Vec<(usize, String)> = vec![];
        let mut new_nm: Vec<(usize, (String, usize))> = vec![];
        for c in cands {
            if !self.cur.ns.truth.contains_key(c) {
                if let Some(id) = self.cur.xot.namespace(c) {
                    new_ns.push((ns_num(id), c.clone()));
                }
            }
            if !self.cur.pf.truth.contains_key(c) {
                if let Some(id) = self.cur.xot.prefix(c) {
                    new_pf.push((prefix_num(id), c.clone()));
                }
            }
        }
        new_ns.sort();
        new_pf.sort();
        for (n, v) in &new_ns {
            self.cur.ns.observe(v, *n, self.fails, self.sink, &self.recent);
        }
        for (n, v) in &new_pf {
            self.cur.pf.observe(v, *n, self.fails, self.sink, &self.recent);
        }
        let ns_nums: Vec<usize> = self.cur.ns.truth.values().copied().collect();
        for c in cands {
            for &k in &ns_nums {
                let key = (c.clone(), k);
                if !self.cur.nm.truth.contains_key(&key) {
                    if let Some(id) = self.cur.xot.name_ns(c, self.bank.nss[k]) {
                        new_nm.push((name_num(id), key));
                    }
                }
            }
        }
        new_nm.sort();
        for (n, v) in &new_nm {
            self.cur.nm.observe(v, *n, self.fails, self.sink, &self.recent);
        }
        self.sink.stat_n("implicit.registrations", (new_ns.len() + new_pf.len() + new_nm.len()) as u64);
        self.sink.stat_n("implicit.new_namespaces", new_ns.len() as u64);
        self.sink.stat_n("implicit.new_prefixes", new_pf.len() as u64);
        self.sink.stat_n("implicit.new_names", new_nm.len() as u64);
        let strs = |l: &Vec<(usize, String)>| if l.is_empty() { "-".to_string() } else { l.iter().map(|(_, s)| enc(s)).collect::<Vec<_>>().join(",") };
        let nms = if new_nm.is_empty() { "-".to_string() } else { new_nm.iter().map(|(_, (l, k))| format!("{}@{}", enc(l), k)).collect::<Vec<_>>().join(",") };
        let id_words = format!(
            "{} {} {}",
            ids_str(&new_ns.iter().map(|x| x.0).collect::<Vec<_>>()),
            ids_str(&new_pf.iter().map(|x| x.0).collect::<Vec<_>>()),
            ids_str(&new_nm.iter().map(|x| x.0).collect::<Vec<_>>())
        );
        match direct {
            None => {
                let req = format!("idmap implicit ns {} pf {} nm {}", strs(&new_ns), strs(&new_pf), nms);
                self.emit(req, format!("ok {}", id_words));
            }
            Some(req) => {
                self.sink.stat("implicit.predicted-by-model");
                let resp = format!("ok ns {} pf {} nm {} ids {}", strs(&new_ns), strs(&new_pf), nms, id_words);
                self.emit(req, resp);
            }
        }
        // every discovered entry must resolve to itself
        for (n, v) in new_ns {
            let id = self.bank.nss[n];
            self.check_ns(&v, id);
        }
        for (n, v) in new_pf {
            let id = self.bank.pfs[n];
            self.check_pf(&v, id);
        }
        for (n, v) in new_nm {
            let id = self.bank.names[n];
            self.check_name(&v, id);
        }
    }

    pub fn parse_doc(&mut self, rng: &mut Rng) {
        let doc = gen_doc(rng, self.sink);
        self.parse_text(&doc, rng.chance(1, 5));
    }

    /// `parse` (or `parse_fragment`) of `doc` on the current `Xot`; the model is sent the tokens of
    /// the real tokenizer and has to predict, from its parser model run on ITS interner state,
    /// which entries the call adds to the three tables and under which ids.
    pub fn parse_text(&mut self, doc: &str, fragment: bool) {
        let dump = dump_tokens(doc, fragment);
        let parsed = guarded(|| if fragment { self.cur.xot.parse_fragment(doc).ok() } else { self.cur.xot.parse(doc).ok() });
        let r = parsed.map(|o| o.is_some());
        if let Some(Some(root)) = parsed {
            // names compare equal exactly when their expanded names are equal: every element and
            // attribute name of the parsed tree denotes the expanded name the document spells
            // (resolved here from the tokens, independently of the interning tables)
            if let Some(expected) = expected_expanded_names(&dump.toks) {
                let x = &self.cur.xot;
                let got = guarded(|| {
                    let mut v: Vec<(String, String)> = vec![];
                    for n in x.descendants(root) {
                        if let Some(e) = x.element(n) {
                            let (l, u) = x.name_ns_str(e.name());
                            v.push((l.to_string(), u.to_string()));
                            for (a, _) in x.attributes(n).iter() {
                                let (l, u) = x.name_ns_str(a);
                                v.push((l.to_string(), u.to_string()));
                            }
                        }
                    }
                    v
                });
                self.sink.stat("parse.expanded-names-checked");
                if got.as_ref() != Some(&expected) {
                    self.fail(
                        "C08:parsed-name-denotes-another-expanded-name",
                        format!("parse({:?}): the names of the tree denote {:?}, the document spells {:?}", doc, got, expected),
                    );
                }
            }
        }
        self.sink.stat(match r {
            Some(true) => "parse.ok",
            Some(false) => "parse.err",
            None => "parse.panic",
        });
        let mut cands: Vec<String> = POOL.iter().map(|s| s.to_string()).collect();
        for t in &dump.toks {
            match t {
                Tok::Attr { prefix, local, value, .. } => {
                    cands.push(value.clone());
                    if let Ok(d) = xot::verif_hooks::parse_attribute(value, 0) {
                        cands.push(d);
                    }
                    cands.push(prefix.clone());
                    cands.push(local.clone());
                }
                Tok::ElemStart { prefix, local } | Tok::EndClose { prefix, local } => {
                    cands.push(prefix.clone());
                    cands.push(local.clone());
                }
                Tok::PI { target } => cands.push(target.clone()),
                _ => {}
            }
        }
        cands.sort();
        cands.dedup();
        if r.is_none() {
            // a panicking parse: no prediction asked of the model, only tell it what happened
            self.discover(&cands);
            return;
        }
        let req = format!("idmap parse {} {} {}", if fragment { "frag" } else { "doc" }, doc.len(), dump.words);
        self.discover_as(&cands, Some(req.trim_end().to_string()));
    }

    pub fn html5(&mut self) {
        let _ = self.cur.xot.html5();
        let mut cands: Vec<String> = POOL.iter().map(|s| s.to_string()).collect();
        let mut rest = HTML5_SRC;
        while let Some(i) = rest.find('"') {
            let after = &rest[i + 1..];
            match after.find('"') {
                Some(j) => {
                    let lit = &after[..j];
                    if !lit.contains('\\') && !lit.contains('\n') {
                        cands.push(lit.to_string());
                        cands.push(lit.to_ascii_uppercase());
                    }
                    rest = &after[j + 1..];
                }
                None => break,
            }
        }
        cands.sort();
        cands.dedup();
        self.sink.stat("html5.calls");
        self.discover_as(&cands, Some("idmap html5".to_string()));
    }

    // ---- clone -------------------------------------------------------------------------------
    pub fn battery(&mut self, rng_seed: u64) -> Vec<String> {
        let mut rng = Rng::new(rng_seed);
        let mut out = vec![];
        for _ in 0..4 {
            if !self.cur.nm.order.is_empty() {
                let (l, k) = self.cur.nm.order[rng.below(self.cur.nm.order.len())].clone();
                out.push(self.ro_name(&l, k, false));
            }
            let v = self.cur.ns.order[rng.below(self.cur.ns.order.len())].clone();
            out.push(self.ro_namespace(&v));
            let v = self.cur.pf.order[rng.below(self.cur.pf.order.len())].clone();
            out.push(self.ro_prefix(&v));
        }
        out.push(self.ro_name("never-registered", 0, true));
        let top = self.cur.nm.order.len().min(CAPACITY - 1);
        for n in [0, 1, top / 2, top.saturating_sub(1), top] {
            out.push(self.str_lookup(0, n));
        }
        for n in [0, 1, self.cur.ns.order.len().min(CAPACITY - 1)] {
            out.push(self.str_lookup(3, n));
        }
        for n in [0, 1, self.cur.pf.order.len().min(CAPACITY - 1)] {
            out.push(self.str_lookup(4, n));
        }
        out
    }

    pub fn clone_block(&mut self, rng: &mut Rng) {
        let copy = State { xot: self.cur.xot.clone(), ns: self.cur.ns.clone(), pf: self.cur.pf.clone(), nm: self.cur.nm.clone() };
        self.other = Some(copy);
        self.emit("idmap clone".to_string(), "ok".to_string());
        let seed = rng.next();
        let a = self.battery(seed);
        self.swap();
        let b = self.battery(seed);
        if a != b {
            let i = (0..a.len()).find(|&i| a[i] != b[i]).unwrap_or(0);
            self.fail("C08:clone-answers-differ", format!("lookup #{} of the battery answered {:?} on the original and {:?} on the clone", i, a[i], b[i]));
        }
        if rng.chance(1, 2) {
            // independence: a registration in the clone is not visible in the original
            let v = format!("only-in-clone-{}", rng.below(1000));
            self.add_name_ns(&v, 0, true);
            self.add_prefix(&v);
            self.swap();
            self.ro_name(&v, 0, true);
            self.ro_prefix(&v);
        } else if rng.chance(1, 2) {
            self.swap();
        }
    }

    pub fn swap(&mut self) {
        if let Some(o) = self.other.take() {
            let c = std::mem::replace(&mut self.cur, o);
            self.other = Some(c);
            self.emit("idmap swap".to_string(), "ok".to_string());
        }
    }

    // ---- end-of-history oracle: everything registered still means what it meant ----------------
    pub fn final_check(&mut self) {
        let step = |len: usize| (len / 300).max(1);
        let nm: Vec<((String, usize), usize)> = self.cur.nm.order.iter().step_by(step(self.cur.nm.order.len())).map(|k| (k.clone(), self.cur.nm.truth[k])).collect();
        for (k, n) in nm {
            if let Some(&id) = self.bank.names.get(n) {
                self.check_name(&k, id);
            }
        }
        let ns: Vec<(String, usize)> = self.cur.ns.order.iter().step_by(step(self.cur.ns.order.len())).map(|k| (k.clone(), self.cur.ns.truth[k])).collect();
        for (k, n) in ns {
            if let Some(&id) = self.bank.nss.get(n) {
                self.check_ns(&k, id);
            }
        }
        let pf: Vec<(String, usize)> = self.cur.pf.order.iter().step_by(step(self.cur.pf.order.len())).map(|k| (k.clone(), self.cur.pf.truth[k])).collect();
        for (k, n) in pf {
            if let Some(&id) = self.bank.pfs.get(n) {
                self.check_pf(&k, id);
            }
        }
        let bucket = |n: usize| match n {
            0..=2 => "2",
            3..=5 => "3-5",
            6..=15 => "6-15",
            16..=100 => "16-100",
            101..=1000 => "101-1000",
            _ => "1001+",
        };
        self.sink.stat(&format!("size.names.{}", bucket(self.cur.nm.order.len())));
        self.sink.stat(&format!("size.namespaces.{}", bucket(self.cur.ns.order.len())));
        self.sink.stat(&format!("size.prefixes.{}", bucket(self.cur.pf.order.len())));
    }

    // ---- the long history ----------------------------------------------------------------------
    pub fn bulk(&mut self, which: usize, count: usize, p: &str, ns: usize) {
        let mut samples = vec![0, 1, 2, 100, count / 2, CAPACITY - 3, CAPACITY - 2, CAPACITY - 1, CAPACITY, count - 1];
        samples.retain(|&i| i < count);
        samples.dedup();
        let req = match which {
            0 => format!("idmap bulk_names {} {} {} {}", count, enc(p), ns, ids_str(&samples)),
            1 => format!("idmap bulk_namespaces {} {} {}", count, enc(p), ids_str(&samples)),
            _ => format!("idmap bulk_prefixes {} {} {}", count, enc(p), ids_str(&samples)),
        };
        self.recent.push(req.clone());
        let mut ids = Vec::with_capacity(count);
        let mut panicked_at = None;
        for i in 0..count {
            let v = format!("{}{}", p, i);
            let nsid = self.bank.nss[ns];
            let x = &mut self.cur.xot;
            let n = match which {
                0 => match guarded(|| x.add_name_ns(&v, nsid)) {
                    Some(id) => {
                        let n = name_num(id);
                        let key = (v, ns);
                        self.cur.nm.observe(&key, n, self.fails, self.sink, &self.recent);
                        self.check_name(&key, id);
                        Some(n)
                    }
                    None => None,
                },
                1 => match guarded(|| x.add_namespace(&v)) {
                    Some(id) => {
                        self.cur.ns.observe(&v, ns_num(id), self.fails, self.sink, &self.recent);
                        self.check_ns(&v, id);
                        Some(ns_num(id))
                    }
                    None => None,
                },
                _ => match guarded(|| x.add_prefix(&v)) {
                    Some(id) => {
                        self.cur.pf.observe(&v, prefix_num(id), self.fails, self.sink, &self.recent);
                        self.check_pf(&v, id);
                        Some(prefix_num(id))
                    }
                    None => None,
                },
            };
            match n {
                Some(n) => ids.push(n),
                None => {
                    panicked_at = Some(i);
                    break;
                }
            }
        }
        self.recent.pop();
        if let Some(i) = panicked_at {
            // e.g. after a fix that refuses the 65 537th entry: the model has to follow suit
            self.emit(req, format!("panic {}", i));
            return;
        }
        let resp = format!("ok {}", ids_str(&samples.iter().map(|&i| ids[i]).collect::<Vec<_>>()));
        self.emit(req, resp);
    }
}
