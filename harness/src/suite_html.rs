//! Suite `html` (C19): `xot.html5().serialize_string / serialize_write` on generated trees ×
//! parameter sets.  The transcript lines are compared with the Lean model (`html string`,
//! `html write`); the oracle of `html_oracle.rs` evaluates the property on the implementation.
//! `html write_fail <k> …`: `serialize_write` into `common::FailingWriter { fail_at_call: k }` — outcome
//! (`err:Io` at the refused call, never `panic`) and the bytes the writer holds, compared with the model
//! (`serializeHtmlWriteW (budget k)`); oracle `common::failing_writer_verdict`.
use crate::common::{enc, guarded, Rng, Sink};
use crate::html_gen::*;
use crate::html_oracle::*;
use crate::tree::*;
use std::cell::RefCell;
use std::collections::HashMap;
use xot::output::html5::Parameters;
use xot::output::Indentation;
use xot::{Error, Xot};

thread_local! {
    static EMITTED: RefCell<HashMap<String, usize>> = RefCell::new(HashMap::new());
    /// rotates the budget class of the failing-writer cases
    static IO_ROT: std::cell::Cell<u64> = std::cell::Cell::new(0);
    /// rotates the budget class of the byte-budget cases
    static BYTE_ROT: std::cell::Cell<u64> = std::cell::Cell::new(0);
    /// when set, the byte-budget cases take EVERY budget `0 ..= len + 1` (family byte-budget-sweep)
    static BYTE_SWEEP: std::cell::Cell<bool> = std::cell::Cell::new(false);
}

/// One `serialize_write` into a `ByteBudgetWriter`: budget, its class, the wire outcome, the bytes the writer holds,
/// the implementation-only verdict (`common::byte_budget_verdict`).
struct ByteCase {
    n: usize,
    class: &'static str,
    shown: String,
    held: Vec<u8>,
    verdict: Option<String>,
}

/// `serialize_write` of `h` into writers with a byte budget; `reference` / `w`: the same call into a `Vec<u8>`.
fn byte_budget_cases(h: &xot::Html5, hv: &HVocab, p: &HParams, start: xot::Node, reference: &[u8], w: &Res) -> Vec<ByteCase> {
    use crate::common::{byte_budget_verdict, pick_byte_budgets, ByteBudgetWriter};
    let wk = shown_res(w).split(' ').next().unwrap().to_string();
    let budgets: Vec<(usize, &'static str)> = if BYTE_SWEEP.with(|c| c.get()) {
        (0..=reference.len() + 1).map(|n| (n, "sweep")).collect()
    } else {
        let rot = BYTE_ROT.with(|c| {
            let v = c.get();
            c.set(v + 1);
            v
        });
        pick_byte_budgets(reference, rot)
    };
    budgets
        .into_iter()
        .map(|(n, class)| {
            let mut bw = ByteBudgetWriter::new(n);
            let r = res_of(guarded(|| h.serialize_write(to_params(hv, p), start, &mut bw).map(|_| String::new())));
            let shown = shown_res(&r);
            let rk = shown.split(' ').next().unwrap().to_string();
            let verdict = byte_budget_verdict(&rk, &bw, n, &wk, reference);
            ByteCase { n, class, shown, held: bw.data, verdict }
        })
        .collect()
}

/// One `serialize_write` into a `FailingWriter`: budget, its class, the wire outcome, the bytes the writer holds,
/// the implementation-only verdict, and whether the never-failing run ends in a serialisation error.
struct IoCase {
    k: usize,
    class: &'static str,
    shown: String,
    held: String,
    verdict: Option<(&'static str, String)>,
    reference_fails: bool,
    calls: usize,
}

fn shown_res(r: &Res) -> String {
    match r {
        Res::Ok(_) => "ok".to_string(),
        Res::Err(e, _) => e.clone(),
        Res::Panic => "panic".to_string(),
    }
}

/// `serialize_write` of `h` into writers that fail at chosen calls.
fn failing_writer_cases(h: &xot::Html5, hv: &HVocab, p: &HParams, start: xot::Node) -> Vec<IoCase> {
    use crate::common::{failing_writer_verdict, pick_budget, FailingWriter};
    let mut rec = FailingWriter::counting();
    let w0 = res_of(guarded(|| h.serialize_write(to_params(hv, p), start, &mut rec).map(|_| String::new())));
    let w0s = shown_res(&w0);
    let w0k = w0s.split(' ').next().unwrap().to_string();
    let n = rec.calls;
    let rot = IO_ROT.with(|c| {
        let v = c.get();
        c.set(v + 1);
        v
    });
    let reference_fails = matches!(w0, Res::Err(..));
    let mut ks = vec![pick_budget(n, rot)];
    if reference_fails {
        ks.push((n.saturating_sub(1), "just-before-the-serialisation-error"));
        ks.push((n, "up-to-the-serialisation-error"));
    }
    ks.into_iter()
        .map(|(k, class)| {
            let mut fw = FailingWriter::new(k);
            let r = res_of(guarded(|| h.serialize_write(to_params(hv, p), start, &mut fw).map(|_| String::new())));
            let shown = shown_res(&r);
            let rk = shown.split(' ').next().unwrap().to_string();
            let verdict = failing_writer_verdict(&rk, &fw, &w0k, &rec);
            IoCase { k, class, shown, held: String::from_utf8_lossy(&fw.data).to_string(), verdict, reference_fails, calls: n }
        })
        .collect()
}

#[derive(Clone, Debug)]
pub enum Res {
    Ok(String),
    /// wire form, namespace of a MissingPrefix
    Err(String, Option<String>),
    Panic,
}

fn res_of(r: Option<Result<String, Error>>) -> Res {
    match r {
        None => Res::Panic,
        Some(Ok(s)) => Res::Ok(s),
        Some(Err(Error::MissingPrefix(ns))) => Res::Err(format!("err:MissingPrefix {}", enc(&ns)), Some(ns)),
        Some(Err(Error::NamespaceInProcessingInstruction)) => Res::Err("err:NamespaceInProcessingInstruction".to_string(), None),
        Some(Err(Error::ProcessingInstructionGtInHtml(_))) => Res::Err("err:ProcessingInstructionGtInHtml".to_string(), None),
        Some(Err(Error::Io(_))) => Res::Err("err:Io".to_string(), None),
        Some(Err(other)) => Res::Err(format!("err:other {:?}", other), None),
    }
}

fn json_str(s: &str) -> String {
    let mut o = String::from("\"");
    for c in s.chars() {
        match c {
            '"' => o.push_str("\\\""),
            '\\' => o.push_str("\\\\"),
            '\n' => o.push_str("\\n"),
            '\r' => o.push_str("\\r"),
            '\t' => o.push_str("\\t"),
            c if (c as u32) < 0x20 || (c as u32) > 0x7e => {
                let mut b = [0u16; 2];
                for u in c.encode_utf16(&mut b) {
                    o.push_str(&format!("\\u{:04x}", u));
                }
            }
            c => o.push(c),
        }
    }
    o.push('"');
    o
}

fn short(s: &str) -> String {
    let v: String = s.chars().take(300).collect();
    if v.len() < s.len() {
        format!("{}…", v)
    } else {
        v
    }
}

/// One `F` line (at most 6 per signature and run; the statistics count all of them).
fn fail(sink: &mut Sink, f: &Finding, t: &GTree, start: &[usize], p: &HParams, res: &Res) {
    sink.stat(&format!("oracle.fail.{}", f.signature));
    let n = EMITTED.with(|m| {
        let mut m = m.borrow_mut();
        let e = m.entry(f.signature.clone()).or_insert(0);
        *e += 1;
        *e
    });
    if n > 6 {
        return;
    }
    let out = match res {
        Res::Ok(s) => short(s),
        Res::Err(e, _) => e.clone(),
        Res::Panic => "panic".to_string(),
    };
    println!(
        "F\tC19\t{{\"signature\": {}, \"what\": {}, \"replay\": {{\"suite\": \"html\", \"tree\": {}, \"start\": {}, \"params\": {}, \"output\": {}}}}}",
        json_str(&f.signature),
        json_str(&f.what),
        json_str(&t.wire()),
        json_str(&path_str(start)),
        json_str(&p.wire()),
        json_str(&out)
    );
}

/// Does the serialised part hold a processing instruction whose data contains `>`?
fn has_gt_pi(t: &GTree) -> bool {
    match &t.v {
        GValue::PI(_, Some(d)) => d.contains('>'),
        GValue::Attribute(..) | GValue::Namespace(..) => false,
        _ => t.kids.iter().any(|k| k.is_normal() && has_gt_pi(k)),
    }
}

fn has_attr_in_ns(t: &GTree, hv: &HVocab, uri: &str) -> bool {
    t.kids.iter().any(|k| match &k.v {
        GValue::Attribute(a, _) => hv.v.namespaces[hv.ns_of(*a)].0 == uri,
        _ => k.is_normal() && has_attr_in_ns(k, hv, uri),
    })
}

/// The property on one result of the implementation.
fn oracle(hv: &HVocab, t: &GTree, start: &[usize], p: &HParams, res: &Res, sink: &mut Sink) -> Option<Finding> {
    let sub = t.at(start).unwrap();
    let fnd = |s: &str, w: String| Some(Finding { signature: s.to_string(), what: w });
    if let Res::Panic = res {
        return fnd("C19:panic", "HTML5 serialisation panics".to_string());
    }
    if has_gt_pi(sub) {
        sink.stat("oracle.pi-with-gt");
        if let Res::Ok(_) = res {
            return fnd("C19:pi-with-gt-emitted", "a processing instruction whose data contains '>' is serialised".to_string());
        }
    }
    match res {
        Res::Err(_, Some(uri)) if [XHTML_URI, HTTPS_URI, MATHML_URI, SVG_URI].contains(&uri.as_str()) && !has_attr_in_ns(sub, hv, uri) => {
            let sig = if uri == XHTML_URI { "C19:xhtml-namespace-constant-is-https" } else { "C19:missing-prefix-for-unprefixed-namespace" };
            fnd(sig, format!("MissingPrefix({}) although only elements are in that namespace (they must be written unprefixed)", uri))
        }
        Res::Err(..) => {
            sink.stat("oracle.refused");
            None
        }
        Res::Panic => None,
        Res::Ok(s) => {
            let body = match s.strip_prefix(DOCTYPE) {
                Some(b) => b,
                None => return fnd("C19:no-doctype", "output does not start with <!DOCTYPE html>".to_string()),
            };
            sink.stat("oracle.doctype");
            let parent = if start.is_empty() {
                None
            } else {
                match t.at(&start[..start.len() - 1]).unwrap().v {
                    GValue::Element(n) => Some(n),
                    _ => None,
                }
            };
            // a text node serialised on its own is still governed by its parent (raw text)
            let in_context = match parent {
                Some(n) if !sub.is_normal() => GTree::leaf(GValue::Element(n)),
                Some(n) => GTree::new(GValue::Element(n), vec![sub.clone()]),
                None => sub.clone(),
            };
            if !tokenizable(&in_context, &hv.v) {
                sink.stat("oracle.not-tokenizable");
                return None;
            }
            let mut ck = Checker::new(&hv.v, &p.cdata, p.indent.is_some(), body);
            // default-namespace declarations of the ancestors of the start node
            for i in 0..start.len() {
                for k in &t.at(&start[..i]).unwrap().kids {
                    if let GValue::Namespace(0, ns) = k.v {
                        ck.tree_default.push((ns, false));
                    }
                }
            }
            let mut r = ck.nodes(&[sub], parent);
            if r.is_ok() {
                let rest = ck.tk.rest();
                if !(rest.is_empty() || (ck.pretty && rest.chars().all(|c| c == ' ' || c == '\n'))) {
                    r = Err(Finding { signature: "C19:structure-mismatch".to_string(), what: format!("trailing output {:?}", short(&rest)) });
                }
            }
            for s in &ck.stats {
                sink.stat(&format!("oracle.{}", s));
            }
            match r {
                Ok(()) => {
                    sink.stat("oracle.checked");
                    None
                }
                Err(f) => Some(f),
            }
        }
    }
}

fn to_params(hv: &HVocab, p: &HParams) -> Parameters {
    Parameters {
        indentation: p.indent.as_ref().map(|s| Indentation { suppress: s.iter().map(|i| hv.v.name(*i)).collect() }),
        cdata_section_elements: p.cdata.iter().map(|i| hv.v.name(*i)).collect(),
    }
}

pub fn run_tree(t: &GTree, start_path: &[usize], params: &[HParams], sink: &mut Sink) {
    run_tree_with(HVocab::new, t, start_path, params, sink)
}

/// `serialize_string_with_normalizer`: the output for a tree with fullwidth forms of the markup
/// characters in its character data / attribute values, under a normalizer that turns them into
/// ASCII, must be the output for the normalised tree without a normalizer (normalise, THEN escape:
/// '<' and '&' coming from text are never written raw outside script / style; seed C19f).  Oracle on the
/// implementation (proved in the model: C19_normalizer_is_premap); the result under the normalizer is also a
/// correspondence line (`html string_norm`, model: `fullwidthNorm`).
fn normalizer_oracle(mk: fn(&mut Xot) -> HVocab, t: &GTree, start_path: &[usize], params: &[HParams], sink: &mut Sink) {
    let mut rng = crate::common::Rng::new(0x4e0f ^ (t.size() as u64 * 7919 + start_path.len() as u64));
    let tf = sprinkle_fullwidth(t, &mut rng);
    if !has_fullwidth(&tf) {
        sink.stat("normalizer.nothing-to-normalise");
        return;
    }
    let tn = map_tree_fullwidth(&tf);
    let mut xa = Xot::new();
    let ha = mk(&mut xa);
    let mut xb = Xot::new();
    let hb = mk(&mut xb);
    let (ra, rb) = match (build(&mut xa, &ha.v, &tf, true), build(&mut xb, &hb.v, &tn, true)) {
        (Ok(a), Ok(b)) => (a, b),
        _ => return,
    };
    let (na, nb) = (nodes_in_order(&xa, ra), nodes_in_order(&xb, rb));
    let tpaths = tf.paths();
    if na.len() != tpaths.len() || nb.len() != tpaths.len() {
        return;
    }
    let idx = match tpaths.iter().position(|p| p.as_slice() == start_path) {
        Some(i) => i,
        None => return,
    };
    let (sa, sb) = (na[idx], nb[idx]);
    // the Write-based entry point called directly: outcome, the bytes delivered into a Vec, and whether a sink
    // that accepts a few bytes per write() call received the same bytes
    let written: Vec<(Res, String, bool)> = {
        let h = xa.html5();
        params
            .iter()
            .map(|p| {
                let mut buf = Vec::new();
                let w = res_of(guarded(|| h.serialize_write_with_normalizer(to_params(&ha, p), sa, &mut buf, FullwidthNormalizer).map(|_| String::new())));
                let mut cw = crate::common::ChunkWriter::new(1 + buf.len() % 3);
                let w2 = res_of(guarded(|| h.serialize_write_with_normalizer(to_params(&ha, p), sa, &mut cw, FullwidthNormalizer).map(|_| String::new())));
                let short_ok = !(matches!(w, Res::Ok(_)) && matches!(w2, Res::Ok(_))) || cw.data == buf;
                (w, String::from_utf8_lossy(&buf).to_string(), short_ok)
            })
            .collect()
    };
    let results: Vec<(Res, Res)> = {
        let a: Vec<Res> = {
            let h = xa.html5();
            params.iter().map(|p| res_of(guarded(|| h.serialize_string_with_normalizer(to_params(&ha, p), sa, FullwidthNormalizer)))).collect()
        };
        let b: Vec<Res> = {
            let h = xb.html5();
            params.iter().map(|p| res_of(guarded(|| h.serialize_string(to_params(&hb, p), sb)))).collect()
        };
        a.into_iter().zip(b).collect()
    };
    let tree_wire = format!("{} {}", path_str(start_path), tf.wire());
    for (p, ((a, _), (w, bytes, short_ok))) in params.iter().zip(results.iter().zip(written.iter())) {
        let shown = |r: &Res| match r {
            Res::Ok(_) => "ok".to_string(),
            Res::Err(e, _) => e.clone(),
            Res::Panic => "panic".to_string(),
        };
        // correspondence: the model's `serializeHtmlWriteN fullwidthNorm` (outcome and bytes written)
        sink.emit(format!("html write_norm {} {}", p.wire(), tree_wire), format!("{} {}", shown(w), enc(bytes)));
        sink.stat(&format!("normalizer.write-request.{}", match w { Res::Ok(_) => "ok", Res::Err(..) => "err", Res::Panic => "panic" }));
        if !*short_ok {
            fail(sink, &Finding { signature: "C19:write-loses-bytes-on-short-writing-sink".to_string(), what: "serialize_write_with_normalizer into a sink that accepts a few bytes per call delivers other bytes than into a Vec".to_string() }, &tf, start_path, p, a);
        }
        let agree = match (a, w) {
            (Res::Ok(x), Res::Ok(_)) => x == bytes,
            _ => shown(a) == shown(w),
        };
        if agree {
            sink.stat("oracle.C19.write_with_normalizer-equals-string_with_normalizer");
        } else {
            fail(sink, &Finding { signature: "C19:write_with_normalizer-differs-from-string_with_normalizer".to_string(), what: format!("serialize_write_with_normalizer: {} {}", shown(w), short(bytes)) }, &tf, start_path, p, a);
        }
    }
    for (p, (a, b)) in params.iter().zip(results.iter()) {
        // correspondence: the model's `serializeHtmlStringN fullwidthNorm` on the same tree
        sink.emit(
            format!("html string_norm {} {}", p.wire(), tree_wire),
            match a {
                Res::Ok(v) => format!("ok {}", enc(v)),
                Res::Err(e, _) => e.clone(),
                Res::Panic => "panic".to_string(),
            },
        );
        sink.stat(&format!("normalizer.request.{}", match a { Res::Ok(_) => "ok", Res::Err(..) => "err", Res::Panic => "panic" }));
        let same = match (a, b) {
            (Res::Ok(x), Res::Ok(y)) => x == y,
            (Res::Err(x, _), Res::Err(y, _)) => x == y,
            (Res::Panic, Res::Panic) => true,
            _ => false,
        };
        if same {
            sink.stat("oracle.C19.normalizer-equals-normalised-tree");
        } else {
            fail(sink, &Finding { signature: "C19:normalizer-output-differs-from-serialising-the-normalised-tree".to_string(), what: "serialize_string_with_normalizer (fullwidth forms -> ASCII) differs from serialize_string of the normalised tree: the normalizer's output is not escaped".to_string() }, &tf, start_path, p, a);
        }
    }
}

pub fn run_tree_with(mk: fn(&mut Xot) -> HVocab, t: &GTree, start_path: &[usize], params: &[HParams], sink: &mut Sink) {
    normalizer_oracle(mk, t, start_path, params, sink);
    let mut xot = Xot::new();
    let hv = mk(&mut xot);
    let root = match build(&mut xot, &hv.v, t, true) {
        Ok(n) => n,
        Err(_) => {
            sink.stat("gen.build-refused");
            return;
        }
    };
    let nodes = nodes_in_order(&xot, root);
    let tpaths = t.paths();
    if nodes.len() != tpaths.len() {
        sink.stat("gen.readback-differs");
        return;
    }
    let idx = tpaths.iter().position(|p| p.as_slice() == start_path).expect("start path exists");
    let start = nodes[idx];
    let sub = t.at(start_path).unwrap();
    sink.stat(&format!("size.{}", match sub.size() { 0..=1 => "1", 2..=5 => "2-5", 6..=15 => "6-15", 16..=40 => "16-40", _ => "41+" }));
    sink.stat(&format!(
        "start.{}",
        match &sub.v {
            GValue::Document => if sub.kids.iter().any(|k| matches!(k.v, GValue::Text(_))) { "document-with-top-level-text" } else { "document" },
            GValue::Element(_) => if start_path.is_empty() { "element-detached" } else { "element-inner" },
            GValue::Text(_) => if start_path.is_empty() { "text-detached" } else { "text-inner" },
            GValue::Comment(_) => "comment",
            GValue::PI(..) => "pi",
            GValue::Attribute(..) => "attribute",
            GValue::Namespace(..) => "namespace",
        }
    ));
    element_stats(sub, &hv, sink);
    // everything that reads the Xot happens before `html5()` borrows it mutably
    let results: Vec<(Res, Res, String, bool, Vec<IoCase>, Vec<ByteCase>)> = {
        let h = xot.html5();
        params
            .iter()
            .map(|p| {
                let s = res_of(guarded(|| h.serialize_string(to_params(&hv, p), start)));
                let mut buf = Vec::new();
                let w = res_of(guarded(|| h.serialize_write(to_params(&hv, p), start, &mut buf).map(|_| String::new())));
                // a sink that takes a few bytes per write() call must receive the same bytes
                let mut cw = crate::common::ChunkWriter::new(1 + buf.len() % 3);
                let w2 = res_of(guarded(|| h.serialize_write(to_params(&hv, p), start, &mut cw).map(|_| String::new())));
                let short_ok = !(matches!(w, Res::Ok(_)) && matches!(w2, Res::Ok(_))) || cw.data == buf;
                let io = failing_writer_cases(&h, &hv, p, start);
                let bytes = byte_budget_cases(&h, &hv, p, start, &buf, &w);
                (s, w, String::from_utf8_lossy(&buf).to_string(), short_ok, io, bytes)
            })
            .collect()
    };
    let tree_wire = format!("{} {}", path_str(start_path), t.wire());
    for (p, (s, w, written, short_ok, io, bytes)) in params.iter().zip(results.iter()) {
        // a writer with a BYTE budget: outcome and the bytes it holds are compared with the model
        // (`serializeHtmlWriteB (byteBudget n)`); oracle: Err(Io) iff the budget is smaller than the byte length of
        // the never-failing run, the writer holds exactly its first min(budget, len) bytes
        for c in bytes {
            sink.emit(format!("html write_bytes {} {} {}", c.n, p.wire(), tree_wire), format!("{} {}", c.shown, crate::common::enc_bytes(&c.held)));
            let rk = c.shown.split(' ').next().unwrap();
            sink.stat(&format!("bytes.budget.{}", c.class));
            sink.stat(&format!("bytes.outcome.{}", if rk == "ok" || rk == "err:Io" || rk == "panic" { rk } else { "serialisation-error" }));
            if std::str::from_utf8(&c.held).is_err() {
                sink.stat("bytes.sink-ends-inside-a-character");
            }
            match &c.verdict {
                Some(what) => fail(sink, &Finding { signature: "C19:byte-budget-writer-differs".to_string(), what: format!("serialize_write: {}", what) }, t, start_path, p, &Res::Err(c.shown.clone(), None)),
                None => sink.stat("oracle.C19.byte-budget-writer-ok"),
            }
        }
        // a writer that fails: outcome and the bytes it holds are compared with the model
        // (`serializeHtmlWriteW (budget k)`); oracle: Err(Io), never a panic, a prefix of the never-failing run
        for c in io {
            sink.emit(format!("html write_fail {} {} {}", c.k, p.wire(), tree_wire), format!("{} {}", c.shown, enc(&c.held)));
            let rk = c.shown.split(' ').next().unwrap();
            sink.stat(&format!("io.budget.{}", c.class));
            sink.stat(&format!("io.calls.{}", match c.calls { 0 => "0", 1..=4 => "1-4", 5..=20 => "5-20", 21..=80 => "21-80", _ => "81+" }));
            sink.stat(&format!("io.outcome.{}", if rk == "ok" || rk == "err:Io" || rk == "panic" { rk } else { "serialisation-error" }));
            if c.reference_fails {
                sink.stat(&format!("io.priority.{}-wins", if rk == "err:Io" { "Io" } else { "serialisation-error" }));
            }
            match &c.verdict {
                Some((sig, what)) => fail(sink, &Finding { signature: format!("C19:{}", sig), what: format!("serialize_write: {}", what) }, t, start_path, p, &Res::Err(c.shown.clone(), None)),
                None => sink.stat("oracle.C19.failing-writer-ok"),
            }
        }
        if !*short_ok {
            fail(sink, &Finding { signature: "C19:write-loses-bytes-on-short-writing-sink".to_string(), what: "serialize_write into a sink that accepts a few bytes per call delivers other bytes than into a Vec".to_string() }, t, start_path, p, s);
        }
        let show = |r: &Res, ok: &dyn Fn(&String) -> String| match r {
            Res::Ok(v) => ok(v),
            Res::Err(e, _) => e.clone(),
            Res::Panic => "panic".to_string(),
        };
        sink.emit(format!("html string {} {}", p.wire(), tree_wire), show(s, &|v| format!("ok {}", enc(v))));
        sink.emit(format!("html write {} {}", p.wire(), tree_wire), format!("{} {}", show(w, &|_| "ok".to_string()), enc(written)));
        sink.stat(&format!("resp.{}", match s { Res::Ok(_) => "ok".to_string(), Res::Err(e, _) => e.split(' ').next().unwrap().to_string(), Res::Panic => "panic".to_string() }));
        sink.stat(if p.indent.is_some() { "params.indentation" } else { "params.no-indentation" });
        if !p.cdata.is_empty() {
            sink.stat("params.cdata-section-elements");
        }
        if p.indent.as_ref().map_or(false, |s| !s.is_empty()) {
            sink.stat("params.suppress-list");
        }
        if let Some(sup) = &p.indent {
            // html_matches_suppress leaves the whole search at the first listed name outside the HTML namespaces
            // (C19_suppress_exact / C19_suppress_early_exit): the families in which that is visible
            let html = |n: &usize| matches!(hv.v.namespaces[hv.ns_of(*n)].0.as_str(), "" | HTTPS_URI);
            if let Some(i) = sup.iter().position(|n| !html(n)) {
                if sup[i + 1..].iter().any(|n| html(n)) {
                    sink.stat("params.suppress-list.foreign-before-html");
                }
            }
            if sup.iter().skip(1).any(|n| !html(n)) {
                sink.stat("params.suppress-list.foreign-not-first");
            }
        }
        if let (Res::Ok(a), Res::Ok(_)) = (s, w) {
            if a != written {
                fail(sink, &Finding { signature: "C19:write-differs-from-string".to_string(), what: "serialize_write bytes differ from serialize_string".to_string() }, t, start_path, p, s);
            }
        }
        if let Some(f) = oracle(&hv, t, start_path, p, s, sink) {
            fail(sink, &f, t, start_path, p, s);
        }
    }
}

fn element_stats(t: &GTree, hv: &HVocab, sink: &mut Sink) {
    if let GValue::Element(n) = t.v {
        let uri = &hv.v.namespaces[hv.ns_of(n)].0;
        let l = hv.local(n);
        sink.stat(&format!(
            "elem.ns.{}",
            match uri.as_str() {
                "" => "none",
                XHTML_URI => "xhtml",
                HTTPS_URI => "https-lookalike",
                MATHML_URI => "mathml",
                SVG_URI => "svg",
                "http://www.w3.org/XML/1998/namespace" => "xml",
                _ => "foreign",
            }
        ));
        if ns_class(uri) == NsClass::Html {
            let lower = l.to_ascii_lowercase();
            let kind = match lower.as_str() {
                "br" | "img" | "hr" | "input" | "meta" | "link" => "void",
                "basefont" | "frame" | "param" | "keygen" => "legacy-void",
                "script" | "style" => "raw-text",
                "pre" | "title" | "textarea" => "formatted",
                "span" | "em" | "i" | "a" | "b" | "kbd" | "svg" | "math" => "phrasing",
                "custom" | "x-y" | "\u{212a}bd" => "unknown",
                _ => "block",
            };
            sink.stat(&format!("elem.html.{}", kind));
            if l != lower {
                sink.stat("elem.html.not-lower-case");
            }
        }
    }
    for k in &t.kids {
        element_stats(k, hv, sink);
    }
}

fn with_vocab<T>(f: impl FnOnce(&HVocab) -> T) -> T {
    let mut xot = Xot::new();
    let hv = HVocab::new(&mut xot);
    f(&hv)
}

/// Fixed cases: DESIGN.md section 8 row 20 and its neighbours.
fn corpus(sink: &mut Sink) {
    use GValue::*;
    let e = |n: usize, kids: Vec<GTree>| GTree::new(Element(n), kids);
    let tx = |s: &str| GTree::leaf(Text(s.to_string()));
    let plain = HParams::plain();
    let indent = HParams { cdata: vec![], indent: Some(vec![]) };
    let both = [plain.clone(), indent.clone()];
    let cases: Vec<(GTree, Vec<usize>, Vec<HParams>)> = with_vocab(|hv| {
        let h = |l: &str| hv.id(l, 0);
        let x = |l: &str| hv.id(l, XHTML);
        let svg = |l: &str| hv.id(l, SVG);
        let mml = |l: &str| hv.id(l, MATHML);
        vec![
            // text without element parent
            (tx("a<b&c\u{a0}>"), vec![], both.to_vec()),
            (GTree::new(Document, vec![tx("x<y"), e(h("p"), vec![tx("q")]), tx("&")]), vec![], both.to_vec()),
            // two SVG siblings without any declaration; with a prefix declared on the parent
            (e(h("div"), vec![e(svg("svg"), vec![]), e(svg("svg"), vec![])]), vec![], both.to_vec()),
            (e(h("div"), vec![GTree::leaf(Namespace(2, SVG)), e(svg("svg"), vec![e(svg("g"), vec![])]), e(svg("svg"), vec![])]), vec![], both.to_vec()),
            (e(h("div"), vec![GTree::leaf(Namespace(2, MATHML)), e(mml("math"), vec![]), e(h("p"), vec![e(mml("math"), vec![])])]), vec![], both.to_vec()),
            // MathML inside SVG inside XHTML: the default namespace changes three times
            (e(x("p"), vec![e(svg("svg"), vec![e(x("p"), vec![e(svg("svg"), vec![])]), e(mml("math"), vec![])])]), vec![], both.to_vec()),
            // the same with the crate's own XHTML constant
            (e(hv.id("p", hv.ns_https), vec![e(svg("svg"), vec![e(hv.id("p", hv.ns_https), vec![e(svg("svg"), vec![])]), e(mml("math"), vec![])])]), vec![], both.to_vec()),
            (e(hv.id("div", hv.ns_https), vec![GTree::leaf(Namespace(2, hv.ns_https)), e(hv.id("BR", hv.ns_https), vec![]), e(hv.id("script", hv.ns_https), vec![tx("a<b&&c")]), e(hv.id("span", hv.ns_https), vec![GTree::leaf(Attribute(hv.id("checked", hv.ns_https), "Checked".into())), tx("a<b&\u{a0}")])]), vec![], both.to_vec()),
            // the real XHTML namespace: void element, raw text, prefix declared / not declared
            (e(x("div"), vec![GTree::leaf(Namespace(0, XHTML)), e(x("br"), vec![]), e(x("script"), vec![tx("a<b&&c")])]), vec![], both.to_vec()),
            (e(x("br"), vec![]), vec![], vec![plain.clone()]),
            (e(hv.id("br", hv.ns_https), vec![]), vec![], vec![plain.clone()]),
            // letter case and non-ASCII look-alikes
            (e(h("div"), vec![e(h("BR"), vec![]), e(h("Br"), vec![tx("t")]), e(h("SCRIPT"), vec![tx("<&")]), e(h("\u{212a}bd"), vec![]), e(h("kbd"), vec![])]), vec![], both.to_vec()),
            // raw text, CDATA sections, nbsp
            (e(h("p"), vec![tx("a<b&c\u{a0}]]>")]), vec![], vec![plain.clone(), HParams { cdata: vec![h("p")], indent: None }, HParams { cdata: vec![h("P".to_ascii_lowercase().as_str())], indent: Some(vec![]) }]),
            (e(h("style"), vec![tx("p > a { content: \"<&\" }")]), vec![], vec![plain.clone(), HParams { cdata: vec![h("style")], indent: None }]),
            (e(svg("svg"), vec![e(svg("script"), vec![tx("a<b&c")]), e(svg("title"), vec![tx("<")])]), vec![], vec![plain.clone(), HParams { cdata: vec![svg("script")], indent: None }]),
            // attributes: boolean spellings, quotes, namespaced, weird URI
            (e(h("input"), vec![GTree::leaf(Attribute(h("checked"), "CHECKED".into())), GTree::leaf(Attribute(h("value"), "a\"b&c\u{a0}'<>".into())), GTree::leaf(Attribute(h("CHECKED"), "x".into()))]), vec![], both.to_vec()),
            (e(h("p"), vec![GTree::leaf(Namespace(2, XHTML)), GTree::leaf(Namespace(3, NS_A)), GTree::leaf(Attribute(x("checked"), "checked".into())), GTree::leaf(Attribute(hv.id("x", NS_A), "\"&\t".into()))]), vec![], vec![plain.clone()]),
            (e(hv.id("e", hv.ns_weird), vec![GTree::leaf(Namespace(2, hv.ns_weird)), GTree::leaf(Attribute(hv.id("w", hv.ns_weird), "v".into()))]), vec![], vec![plain.clone()]),
            (e(svg("svg"), vec![GTree::leaf(Namespace(2, SVG)), GTree::leaf(Attribute(svg("href"), "#a".into())), e(svg("a"), vec![GTree::leaf(Namespace(3, SVG))])]), vec![], vec![plain.clone()]),
            // processing instructions
            (GTree::new(Document, vec![GTree::leaf(PI(h("pi"), Some("a>b".into()))), e(h("p"), vec![])]), vec![], both.to_vec()),
            (GTree::new(Document, vec![GTree::leaf(PI(h("pi"), Some("a b".into()))), GTree::leaf(PI(h("pi"), None)), GTree::leaf(PI(hv.id("x", NS_A), None))]), vec![], vec![plain.clone()]),
            (GTree::leaf(PI(h("xml-stylesheet"), Some("href=\"a\"?".into()))), vec![], vec![plain.clone()]),
            // suppress list: a foreign name first ends the search; case-insensitive match
            (e(h("div"), vec![e(h("ul"), vec![e(h("li"), vec![])])]), vec![], vec![HParams { cdata: vec![], indent: Some(vec![hv.id("x", NS_A), h("ul")]) }, HParams { cdata: vec![], indent: Some(vec![x("ul")]) }, HParams { cdata: vec![], indent: Some(vec![h("div")]) }]),
            // C19_suppress_early_exit, pinned by correspondence (html_matches_suppress returns from the whole
            // search, not from the iteration): (1) a foreign name IN FRONT hides a later HTML name - `ul` is
            // suppressed by [ul], [ul, urn:a x] and [UL-in-XHTML_NS-spelling], not by [urn:a x, ul];
            (e(h("div"), vec![e(h("ul"), vec![e(h("li"), vec![])]), e(h("table"), vec![e(h("td"), vec![])])]), vec![], vec![
                HParams { cdata: vec![], indent: Some(vec![hv.id("x", NS_A), h("ul")]) },
                HParams { cdata: vec![], indent: Some(vec![h("ul"), hv.id("x", NS_A)]) },
                HParams { cdata: vec![], indent: Some(vec![h("ul")]) },
                HParams { cdata: vec![], indent: Some(vec![svg("g"), h("ul"), h("table")]) },
                HParams { cdata: vec![], indent: Some(vec![h("table"), x("ul")]) },
            ]),
            // (2) a name outside the HTML namespaces is honoured in FIRST position only, and an element outside the
            // HTML namespaces ends the search at the first listed name that is not itself
            (e(h("div"), vec![GTree::leaf(Namespace(2, NS_A)), e(svg("g"), vec![e(svg("circle"), vec![])]), e(h("ul"), vec![e(h("li"), vec![])]), e(hv.id("a", NS_A), vec![e(hv.id("b", NS_A), vec![])])]), vec![], vec![
                HParams { cdata: vec![], indent: Some(vec![svg("g"), h("ul")]) },
                HParams { cdata: vec![], indent: Some(vec![h("ul"), svg("g")]) },
                HParams { cdata: vec![], indent: Some(vec![hv.id("a", NS_A), svg("g")]) },
                HParams { cdata: vec![], indent: Some(vec![svg("g"), hv.id("a", NS_A)]) },
                HParams { cdata: vec![], indent: Some(vec![]) },
            ]),
            // serialising from an inner node: inherited declarations, text inside script
            (e(h("div"), vec![GTree::leaf(Namespace(0, SVG)), GTree::leaf(Namespace(2, NS_A)), e(svg("svg"), vec![e(hv.id("a", NS_A), vec![])]), e(h("script"), vec![tx("1<2")])]), vec![2], both.to_vec()),
            (e(h("div"), vec![e(h("script"), vec![tx("1<2")])]), vec![0, 0], vec![plain.clone()]),
            (e(h("div"), vec![GTree::leaf(Attribute(0, "preserve".into())), e(h("ul"), vec![e(h("li"), vec![e(h("p"), vec![])])])]), vec![], vec![indent.clone()]),
            // the start node is an ELEMENT that is not in the default namespace it declares / inherits,
            // with SVG / MathML / XHTML descendants that rely on that default namespace
            (e(hv.id("a", NS_A), vec![GTree::leaf(Namespace(2, NS_A)), GTree::leaf(Namespace(0, SVG)), e(svg("g"), vec![e(svg("circle"), vec![])])]), vec![], both.to_vec()),
            (e(h("div"), vec![GTree::leaf(Namespace(0, MATHML)), GTree::leaf(Namespace(2, NS_A)), e(hv.id("a", NS_A), vec![e(mml("mi"), vec![]), e(mml("mo"), vec![])])]), vec![2], both.to_vec()),
            (e(h("div"), vec![GTree::leaf(Namespace(0, XHTML)), GTree::leaf(Namespace(2, NS_A)), e(hv.id("b", NS_A), vec![e(x("br"), vec![]), e(x("p"), vec![tx("t")])])]), vec![2], both.to_vec()),
            (e(h("div"), vec![GTree::leaf(Namespace(0, SVG)), e(h("p"), vec![e(svg("svg"), vec![])])]), vec![1], both.to_vec()),
            (GTree::leaf(Document), vec![], both.to_vec()),
            (GTree::leaf(Attribute(h("class"), "c".into())), vec![], vec![plain.clone()]),
        ]
    });
    for (t, start, params) in cases {
        run_tree(&t, &start, &params, sink);
    }
}

/// Small-scope enumeration (tier `thorough`): a root element × its declaration × two children, each
/// child from a set covering void / raw text / SVG / MathML / XHTML / foreign, plain and indented.
fn exhaustive(sink: &mut Sink) {
    use GValue::*;
    let (roots, decls, kids): (Vec<usize>, Vec<Option<(usize, usize)>>, Vec<GTree>) = with_vocab(|hv| {
        let e = |n: usize, kids: Vec<GTree>| GTree::new(Element(n), kids);
        let tx = |s: &str| GTree::leaf(Text(s.to_string()));
        (
            vec![hv.id("div", 0), hv.id("p", XHTML), hv.id("p", hv.ns_https), hv.id("svg", SVG), hv.id("custom", 0), hv.id("a", NS_A), hv.id("SCRIPT", 0)],
            vec![None, Some((0, SVG)), Some((2, SVG)), Some((2, XHTML)), Some((2, hv.ns_https)), Some((0, NS_A)), Some((3, MATHML))],
            vec![
                e(hv.id("svg", SVG), vec![]),
                e(hv.id("svg", SVG), vec![GTree::leaf(Namespace(4, SVG)), e(hv.id("g", SVG), vec![])]),
                e(hv.id("math", MATHML), vec![tx("<")]),
                e(hv.id("br", 0), vec![]),
                e(hv.id("BR", XHTML), vec![]),
                e(hv.id("BR", hv.ns_https), vec![]),
                e(hv.id("style", hv.ns_https), vec![tx("a<b&c")]),
                e(hv.id("script", 0), vec![tx("a<b&c")]),
                e(hv.id("span", XHTML), vec![tx("a<b&c\u{a0}")]),
                tx("t&<"),
                e(hv.id("p", 0), vec![e(hv.id("svg", SVG), vec![])]),
            ],
        )
    });
    let params = [HParams::plain(), HParams { cdata: vec![], indent: Some(vec![]) }];
    for r in &roots {
        for d in &decls {
            for a in &kids {
                for b in &kids {
                    if matches!((&a.v, &b.v), (Text(_), Text(_))) {
                        continue;
                    }
                    let mut ks = vec![];
                    if let Some((p, n)) = d {
                        ks.push(GTree::leaf(Namespace(*p, *n)));
                    }
                    ks.push(a.clone());
                    ks.push(b.clone());
                    run_tree(&GTree::new(Element(*r), ks), &[], &params, sink);
                }
            }
        }
    }
}

/// The boundary of "with a normalizer = the normalised tree without one" (C19_normalizer_is_premap, hypothesis
/// `BoolKept`; C19_normalizer_bool_necessary): the boolean-attribute test compares the attribute's local name
/// with the value AS STORED.  Correspondence lines only (the model threads the normalizer the same way), with
/// a vocabulary that has an attribute name containing a fullwidth form (U+FF1C is an XML name character).
fn normalizer_boundary(sink: &mut Sink) {
    use GValue::*;
    let mk = |xot: &mut Xot| {
        let mut hv = HVocab::standard_only(xot);
        let n = hv.v.add_name(xot, "a\u{ff1c}", 0);
        (hv, n)
    };
    let (wire, n) = {
        let mut xot = Xot::new();
        let (hv, n) = mk(&mut xot);
        (hv.v.wire(), n)
    };
    sink.emit(wire, "ok".to_string());
    let e = |kids: Vec<GTree>| GTree::new(Element(2), kids);
    let trees = [
        // value = name as stored: bare name under the normalizer; the normalised value `a<` is not the name
        e(vec![GTree::leaf(Attribute(n, "a\u{ff1c}".into()))]),
        e(vec![GTree::leaf(Attribute(n, "A\u{ff1c}".into())), GTree::leaf(Text("\u{ff1c}\u{ff06}".into()))]),
        // value that only normalises to something else than the name
        e(vec![GTree::leaf(Attribute(n, "a<".into()))]),
        e(vec![GTree::leaf(Attribute(n, "\u{ff02}".into())), e(vec![GTree::leaf(Attribute(n, "a\u{ff1c}".into()))])]),
    ];
    for (t, normalised) in trees.iter().flat_map(|t| [(t.clone(), false), (map_tree_fullwidth(t), true)]) {
        let mut xot = Xot::new();
        let (hv, _) = mk(&mut xot);
        let root = match build(&mut xot, &hv.v, &t, true) {
            Ok(r) => r,
            Err(_) => continue,
        };
        for p in [HParams::plain(), HParams { cdata: vec![], indent: Some(vec![]) }] {
            let h = xot.html5();
            let show = |r: Res| match r {
                Res::Ok(v) => format!("ok {}", enc(&v)),
                Res::Err(e, _) => e,
                Res::Panic => "panic".to_string(),
            };
            if normalised {
                let r = res_of(guarded(|| h.serialize_string(to_params(&hv, &p), root)));
                sink.emit(format!("html string {} . {}", p.wire(), t.wire()), show(r));
            } else {
                let r = res_of(guarded(|| h.serialize_string_with_normalizer(to_params(&hv, &p), root, FullwidthNormalizer)));
                sink.emit(format!("html string_norm {} . {}", p.wire(), t.wire()), show(r));
                let mut buf = Vec::new();
                let w = res_of(guarded(|| h.serialize_write_with_normalizer(to_params(&hv, &p), root, &mut buf, FullwidthNormalizer).map(|_| String::new())));
                let ws = match &w { Res::Ok(_) => "ok".to_string(), Res::Err(e, _) => e.clone(), Res::Panic => "panic".to_string() };
                sink.emit(format!("html write_norm {} . {}", p.wire(), t.wire()), format!("{} {}", ws, enc(&String::from_utf8_lossy(&buf))));
            }
            sink.stat("normalizer.boundary.boolean-attribute");
        }
    }
    with_vocab(|hv| sink.emit(hv.v.wire(), "ok".to_string()));
}

pub fn run(seed: u64, count: usize, tier: &str, sink: &mut Sink) {
    let mut rng = Rng::new(seed ^ 0x47A15);
    with_vocab(|hv| sink.emit(hv.v.wire(), "ok".to_string()));
    corpus(sink);
    // a vocabulary in which the crate's XHTML constant is not registered before `html5()`
    {
        use GValue::*;
        let mut xot = Xot::new();
        let hv = HVocab::standard_only(&mut xot);
        sink.emit(hv.v.wire(), "ok".to_string());
        let e = |n: usize, kids: Vec<GTree>| GTree::new(Element(n), kids);
        let both = [HParams::plain(), HParams { cdata: vec![], indent: Some(vec![]) }];
        // a, b in no namespace; a in urn:a with and without declaration; text with everything
        run_tree_with(HVocab::standard_only, &e(2, vec![e(3, vec![GTree::leaf(Text("a<b&c\u{a0}".into()))]), e(6, vec![GTree::leaf(Namespace(2, NS_A))])]), &[], &both, sink);
        run_tree_with(HVocab::standard_only, &e(6, vec![]), &[], &both, sink);
        with_vocab(|hv| sink.emit(hv.v.wire(), "ok".to_string()));
    }
    normalizer_boundary(sink);
    // every byte budget for documents whose text, attribute values, comments and raw-text elements consist of 2-, 3-
    // and 4-byte characters: most budgets end inside a character
    {
        use GValue::*;
        let e = |n: usize, kids: Vec<GTree>| GTree::new(Element(n), kids);
        let tx = |s: &str| GTree::leaf(Text(s.to_string()));
        let both = [HParams::plain(), HParams { cdata: vec![], indent: Some(vec![]) }];
        let trees: Vec<GTree> = with_vocab(|hv| {
            let h = |l: &str| hv.id(l, 0);
            vec![
                e(h("p"), vec![tx("é€😀")]),
                GTree::new(Document, vec![e(h("div"), vec![GTree::leaf(Attribute(h("title"), "ß中\u{10ffff}".into())), e(h("p"), vec![tx("\u{a0}<\u{2028}&\u{1f600}")]), e(h("script"), vec![tx("\u{7ff}\u{800}<\u{ffff}\u{10000}")])])]),
                GTree::new(Document, vec![GTree::leaf(Comment("\u{80}\u{d7ff}\u{e000}".into())), e(h("p"), vec![tx("中"), GTree::leaf(PI(h("p"), Some("é>€".into())))])]),
            ]
        });
        BYTE_SWEEP.with(|c| c.set(true));
        for t in &trees {
            sink.stat("family.byte-budget-sweep");
            run_tree(t, &[], &both, sink);
        }
        BYTE_SWEEP.with(|c| c.set(false));
    }
    if tier == "thorough" {
        exhaustive(sink);
    }
    // deep block-level nesting, indented: the indentation grows past any fixed buffer (seed C19h:
    // a 64-space buffer sliced out of range beyond 32 levels — a panic)
    for k in 0..(if tier == "quick" { 3 } else { 8 }) {
        let t = with_vocab(|hv| {
            use GValue::*;
            let depth = 30 + 6 * k + rng.below(6);
            let div = hv.id("div", 0);
            let mut t = match rng.below(3) {
                0 => GTree::new(Element(hv.id("hr", 0)), vec![]),
                1 => GTree::new(Element(hv.id("p", 0)), vec![GTree::leaf(Text("x".into()))]),
                _ => GTree::leaf(Comment("c".into())),
            };
            for _ in 0..depth {
                t = GTree::new(Element(div), vec![t]);
            }
            GTree::new(Document, vec![GTree::new(Element(hv.id("html", 0)), vec![GTree::new(Element(hv.id("body", 0)), vec![t])])])
        });
        sink.stat("family.deep-nesting");
        run_tree(&t, &[], &[HParams { cdata: vec![], indent: Some(vec![]) }, HParams::plain()], sink);
    }
    // the Pretty stack (shared with the XML serialiser): every level independently in / out of
    // xml:space, mixed content (text or an inline element), suppress-listed, formatted (seed C14i)
    for _ in 0..(if tier == "quick" { 40 } else { 300 }) {
        let (t, sup) = with_vocab(|hv| {
            use GValue::*;
            let div = hv.id("div", 0);
            let ul = hv.id("ul", 0);
            let space = hv.id("space", 1);
            let mut t = GTree::new(Element(div), vec![GTree::new(Element(hv.id("p", 0)), vec![]), GTree::new(Element(hv.id("hr", 0)), vec![])]);
            for _ in 0..(2 + rng.below(4)) {
                let mut kids = vec![];
                match rng.below(4) {
                    0 => kids.push(GTree::leaf(Attribute(space, "preserve".into()))),
                    1 => kids.push(GTree::leaf(Attribute(space, "default".into()))),
                    _ => {}
                }
                let mixed = rng.below(4);
                if mixed == 0 {
                    kids.push(GTree::leaf(Text("text".into())));
                }
                kids.push(t);
                if mixed == 1 {
                    kids.push(GTree::new(Element(hv.id("span", 0)), vec![]));
                }
                t = GTree::new(Element(if rng.chance(1, 4) { ul } else { div }), kids);
            }
            (GTree::new(Document, vec![GTree::new(Element(hv.id("html", 0)), vec![GTree::new(Element(hv.id("body", 0)), vec![t])])]), ul)
        });
        sink.stat("family.pretty-stack");
        run_tree(&t, &[], &[HParams { cdata: vec![], indent: Some(vec![sup]) }, HParams { cdata: vec![], indent: Some(vec![]) }], sink);
    }
    let search = tier == "search";
    for _ in 0..count {
        let (t, params) = with_vocab(|hv| {
            let t = gen_tree(&mut rng, sink, hv);
            let mut params = vec![gen_params(&mut rng, hv, &t)];
            if rng.chance(1, 2) || search {
                params.push(gen_params(&mut rng, hv, &t));
            }
            (t, params)
        });
        let tpaths = t.paths();
        let start_path = if rng.chance(7, 10) { vec![] } else { rng.pick(&tpaths).clone() };
        run_tree(&t, &start_path, &params, sink);
    }
}
