//! Suite `validdoc` (property C03, clause "whatever is accepted … passes
//! validate_well_formed_document"): `Xot::validate_well_formed_document` at EVERY node of
//! generated trees — well-formed documents, fragments, unattached elements / leaves / attribute and
//! namespace nodes — plus documents on which every API route to an illegal top-level child
//! (attribute, namespace, document node) has been tried.
//!   validate <path> <tree>   -> ok | err:<Variant>
//! The oracle evaluates the documented contract on the owned copy of the tree (`GTree`),
//! independently of the Lean model.
use crate::common::{guarded, Rng, Sink};
use crate::suite_axes::gen_tree;
use crate::tree::*;
use xot::Xot;

fn show(r: Result<(), xot::Error>) -> String {
    match r {
        Ok(()) => "ok".to_string(),
        Err(xot::Error::NotDocument(_)) => "err:NotDocument".to_string(),
        Err(xot::Error::TextAtTopLevel(_)) => "err:TextAtTopLevel".to_string(),
        Err(xot::Error::IllegalAtTopLevel(_)) => "err:IllegalAtTopLevel".to_string(),
        Err(xot::Error::NoElementAtTopLevel) => "err:NoElementAtTopLevel".to_string(),
        Err(xot::Error::MultipleElementsAtTopLevel) => "err:MultipleElementsAtTopLevel".to_string(),
        Err(_) => "err:other".to_string(),
    }
}

/// The contract, read off the doc comment of the function: what the answer must be for `t`.
fn expected(t: &GTree) -> &'static str {
    if !matches!(t.v, GValue::Document) {
        return "err:NotDocument";
    }
    // `children`: the normal children (everything from the first normal child on)
    let first_normal = t.kids.iter().position(|k| k.is_normal()).unwrap_or(t.kids.len());
    let kids = &t.kids[first_normal..];
    let offender = kids.iter().find(|k| !matches!(k.v, GValue::Element(_) | GValue::Comment(_) | GValue::PI(..)));
    if let Some(k) = offender {
        return if matches!(k.v, GValue::Text(_)) { "err:TextAtTopLevel" } else { "err:IllegalAtTopLevel" };
    }
    match kids.iter().filter(|k| matches!(k.v, GValue::Element(_))).count() {
        0 => "err:NoElementAtTopLevel",
        1 => "ok",
        _ => "err:MultipleElementsAtTopLevel",
    }
}

fn validate_all(xot: &Xot, t: &GTree, root: xot::Node, sink: &mut Sink) {
    let nodes = nodes_in_order(xot, root);
    let paths = t.paths();
    assert_eq!(nodes.len(), paths.len(), "built tree has the generated node count");
    let wire = t.wire();
    for (n, p) in nodes.iter().zip(paths.iter()) {
        let got = match guarded(|| xot.validate_well_formed_document(*n)) {
            Some(r) => show(r),
            None => "panic".to_string(),
        };
        let sub = t.at(p).unwrap();
        sink.stat(&format!("answer.{}", got));
        sink.stat(match sub.v {
            GValue::Document => "node.document",
            GValue::Element(_) => "node.element",
            GValue::Attribute(..) => "node.attribute",
            GValue::Namespace(..) => "node.namespace",
            _ => "node.leaf",
        });
        let want = expected(sub);
        if got != want {
            sink.fail(
                "C03",
                "C03:validate_well_formed_document-differs-from-contract",
                &format!("validate_well_formed_document at {} answers {}, the contract says {}", path_str(p), got, want),
                &[format!("validate {} {}", path_str(p), wire)],
            );
        }
        sink.emit(format!("validate {} {}", path_str(p), wire), got);
    }
}

fn run_tree(t: &GTree, sink: &mut Sink) {
    let mut xot = Xot::new();
    let vocab = Vocab::standard(&mut xot);
    let root = match build(&mut xot, &vocab, t, true) {
        Ok(r) => r,
        Err(_) => {
            sink.stat("tree.build-refused");
            return;
        }
    };
    sink.stat("trees");
    validate_all(&xot, t, root, sink);
}

/// Every route of the public API that might put an attribute / namespace / document node directly
/// under a document node is tried on a built document; whatever the store holds afterwards is
/// read back and validated (so an accepted illegal child would be compared with the model).
fn run_illegal(t: &GTree, rng: &mut Rng, sink: &mut Sink) {
    let mut xot = Xot::new();
    let mut vocab = Vocab::standard(&mut xot);
    let root = match build(&mut xot, &vocab, t, true) {
        Ok(r) => r,
        Err(_) => return,
    };
    let kid = xot.first_child(root);
    for route in 0..10usize {
        let bad = match rng.below(3) {
            0 => xot.new_attribute_node(vocab.name(2), "v".to_string()),
            1 => xot.new_namespace_node(vocab.prefix(2), vocab.ns(NS_A)),
            _ => xot.new_document(),
        };
        let r: Option<bool> = guarded(std::panic::AssertUnwindSafe(|| match route {
            0 => xot.append(root, bad).is_ok(),
            1 => xot.prepend(root, bad).is_ok(),
            2 => xot.any_append(root, bad).is_ok(),
            3 => xot.append_attribute_node(root, bad).is_ok(),
            4 => xot.append_namespace_node(root, bad).is_ok(),
            5 => kid.map(|k| xot.insert_before(k, bad).is_ok()).unwrap_or(false),
            6 => kid.map(|k| xot.insert_after(k, bad).is_ok()).unwrap_or(false),
            7 => kid.map(|k| xot.replace(k, bad).is_ok()).unwrap_or(false),
            8 => {
                xot.set_attribute(root, vocab.name(2), "v");
                true
            }
            _ => {
                xot.set_namespace(root, vocab.prefix(2), vocab.ns(NS_A));
                true
            }
        }));
        sink.stat(match r {
            None => "illegal-route.panics-as-documented",
            Some(false) => "illegal-route.refused",
            Some(true) => "illegal-route.ACCEPTED",
        });
    }
    let back = read_tree(&xot, &mut vocab, root);
    let illegal = back.kids.iter().any(|k| matches!(k.v, GValue::Attribute(..) | GValue::Namespace(..) | GValue::Document));
    sink.stat(if illegal { "illegal.document-with-illegal-child" } else { "illegal.document-unchanged-kind" });
    validate_all(&xot, &back, root, sink);
}

fn top_kinds() -> Vec<GTree> {
    vec![
        GTree::leaf(GValue::Element(2)),
        GTree::new(GValue::Element(3), vec![GTree::leaf(GValue::Attribute(2, "v".into())), GTree::leaf(GValue::Text("x".into()))]),
        GTree::leaf(GValue::Text("t".into())),
        GTree::leaf(GValue::Comment("c".into())),
        GTree::leaf(GValue::PI(17, None)),
    ]
}

/// All documents with exactly `n` top-level children drawn from `top_kinds()`.
fn enum_docs(n: usize) -> Vec<GTree> {
    let kinds = top_kinds();
    let mut seqs: Vec<Vec<GTree>> = vec![vec![]];
    for _ in 0..n {
        let mut next = vec![];
        for s in &seqs {
            for k in &kinds {
                let mut s2 = s.clone();
                s2.push(k.clone());
                next.push(s2);
            }
        }
        seqs = next;
    }
    seqs.into_iter().map(|s| GTree::new(GValue::Document, s)).collect()
}

pub fn run(seed: u64, count: usize, tier: &str, sink: &mut Sink) {
    let mut rng = Rng::new(seed ^ 0x7A11D);
    let upto = match tier {
        "thorough" | "search" => 5,
        _ => 3,
    };
    for n in 0..=upto {
        for t in enum_docs(n) {
            sink.stat(&format!("gen.exhaustive-{}", n));
            run_tree(&t, sink);
        }
    }
    let cfg = GenCfg::default_cfg();
    for i in 0..count {
        match i % 4 {
            0 => {
                sink.stat("gen.well-formed-document");
                run_tree(&gen_document(&mut rng, &cfg), sink);
            }
            1 => {
                sink.stat("gen.fragment");
                run_tree(&gen_fragment(&mut rng, &cfg), sink);
            }
            2 => {
                let t = gen_tree(&mut rng, sink);
                run_tree(&t, sink);
            }
            _ => {
                sink.stat("gen.illegal-attempts");
                let t = if rng.chance(1, 2) { gen_document(&mut rng, &cfg) } else { gen_fragment(&mut rng, &cfg) };
                run_illegal(&t, &mut rng, sink);
            }
        }
    }
}
