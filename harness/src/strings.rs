//! String generators concentrating on the characters the properties name.
use crate::common::Rng;

pub const CRITICAL: &[char] = &[
    '&', '<', '>', '\'', '"', ';', '#', 'x', ']', '[', '\t', '\n', '\r', ' ', 'a', 'b', '0', '9',
    'A', 'f', '+', '-', '!', '?', '=', '/', ':', '{', '}', '%', '$', '\\', '.', ',',
];
pub const WIDE: &[char] = &[
    'é', '\u{a0}', '\u{2028}', '\u{3000}', '\u{fffd}', '\u{fffe}', '\u{1f600}', '\u{10ffff}',
    '\u{85}', '\u{7f}', '\u{1}', '\u{0}', '\u{d7ff}', '\u{e000}', 'ß', '中',
];

pub fn any_char(rng: &mut Rng) -> char {
    match rng.below(10) {
        0..=6 => *rng.pick(CRITICAL),
        7 | 8 => *rng.pick(WIDE),
        _ => loop {
            let v = (rng.next() % 0x110000) as u32;
            if let Some(c) = char::from_u32(v) {
                break c;
            }
        },
    }
}

/// Characters allowed by the XML `Char` production.
pub fn is_xml_char(c: char) -> bool {
    matches!(c, '\t' | '\n' | '\r' | '\u{20}'..='\u{d7ff}' | '\u{e000}'..='\u{fffd}' | '\u{10000}'..='\u{10ffff}')
}

pub fn xml_char(rng: &mut Rng) -> char {
    loop {
        let c = any_char(rng);
        if is_xml_char(c) {
            return c;
        }
    }
}

pub fn any_string(rng: &mut Rng, max: usize) -> String {
    let n = rng.below(max + 1);
    (0..n).map(|_| any_char(rng)).collect()
}

pub fn xml_string(rng: &mut Rng, max: usize) -> String {
    let n = rng.below(max + 1);
    (0..n).map(|_| xml_char(rng)).collect()
}

/// Text biased to runs of `]` and `>` (C14).
pub fn bracket_string(rng: &mut Rng, max: usize) -> String {
    let n = rng.below(max + 1);
    let mut s: String = (0..n)
        .map(|_| match rng.below(8) {
            0..=3 => ']',
            4 | 5 => '>',
            6 => *rng.pick(&['a', '\r', '\n', '&']),
            _ => xml_char(rng),
        })
        .collect();
    // character data that LOOKS like markup the serialisers write themselves (seed C14k: a
    // post-processing of the output that matched the literal text `<![CDATA[`)
    if max > 0 && rng.chance(1, 6) {
        let piece = *rng.pick(&["<![CDATA[", "<![CDATA[]]>", "]]><![CDATA[", "&#xD;", "<!--", "-->", "<?", "?>", "&amp;", "</"]);
        if rng.chance(1, 2) {
            s.push_str(piece);
        } else {
            s.insert_str(0, piece);
        }
    }
    s
}

/// A spelling of content with references: mostly valid pieces, some malformed ones.
pub fn reference_string(rng: &mut Rng, max_pieces: usize, malformed: bool) -> String {
    let n = rng.below(max_pieces + 1);
    let mut s = String::new();
    for _ in 0..n {
        match rng.below(if malformed { 14 } else { 8 }) {
            0 | 1 => s.push(xml_char(rng)),
            2 => s.push_str(*rng.pick(&["&amp;", "&lt;", "&gt;", "&apos;", "&quot;"])),
            3 => {
                let c = xml_char(rng) as u32;
                s.push_str(&format!("&#{};", c));
            }
            4 => {
                let c = xml_char(rng) as u32;
                if rng.chance(1, 2) {
                    s.push_str(&format!("&#x{:x};", c));
                } else {
                    s.push_str(&format!("&#x{:04X};", c));
                }
            }
            5 => s.push_str(*rng.pick(&["\r", "\r\n", "\n", "\t", "\n\r", "\r\r\n"])),
            6 => s.push_str(*rng.pick(&["&#9;", "&#10;", "&#13;", "&#xA;", "&#xD;", "&#x20;", "&#38;", "&#60;"])),
            7 => s.push_str(*rng.pick(&["a", "]]>", "]]", ";", "#", "x"])),
            8 => s.push_str(*rng.pick(&["&", "&amp", "&#", "&#x", "&;", "&#;", "&#x;"])),
            9 => s.push_str(*rng.pick(&["&unknown;", "&AMP;", "&nbsp;", "& amp;", "&amp ;", "&lt&gt;"])),
            10 => s.push_str(*rng.pick(&[
                "&#4294967296;", "&#x100000000;", "&#xD800;", "&#xDFFF;", "&#x110000;", "&#55296;",
                "&#4294967295;", "&#xFFFFFFFF;", "&#00000000065;", "&#x0000000000041;",
            ])),
            11 => s.push_str(*rng.pick(&["&#+65;", "&#x+41;", "&#-65;", "&#x-41;", "&#+;", "&#x+;", "&#6_5;", "&#0x41;", "&#xG;", "&#1a;", "&#X41;"])),
            12 => s.push_str(*rng.pick(&["&#0;", "&#x1;", "&#xFFFE;", "&#xFFFF;", "&#8;", "&#x7f;"])),
            _ => {
                s.push('&');
                s.push_str(&crate::strings::any_string(rng, 4));
                if rng.chance(2, 3) {
                    s.push(';');
                }
            }
        }
    }
    s
}
