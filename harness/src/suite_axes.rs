//! Suite `axes` (property C07): every traversal entry point of access.rs / levelorder.rs at every
//! node (attribute and namespace nodes included) of generated trees.
//!   axes <entry> <path> <tree>                 -> answer of the real xot, nodes written as paths
//!   axes child_index <parent> <child> <tree>
//! Also the accessors that hand out the nodes of one raw child list (`CHILD_LIST_ENTRIES`).
//! The oracle (`oracle.rs` part below, independent of the Lean model) evaluates the C07 laws on
//! the implementation's answers against an owned copy of the tree (`GTree`).
use crate::common::{enc, guarded, Rng, Sink};
use crate::tree::*;
use std::collections::{BTreeMap, HashMap, HashSet};
use xot::{Axis, LevelOrder, Node, NodeEdge, Xot};

pub const LIST_ENTRIES: &[&str] = &[
    "ancestors", "children", "reverse_children", "descendants", "all_descendants", "following_siblings",
    "preceding_siblings", "following", "all_following", "preceding", "reverse_preorder", "all_reverse_preorder",
    "attribute_nodes",
];
pub const OPT_ENTRIES: &[&str] = &["first_child", "last_child", "next_sibling", "previous_sibling", "parent"];
pub const EDGE_ENTRIES: &[&str] = &[
    "traverse", "all_traverse", "reverse_traverse", "reverse_all_traverse", "edge_walk_next", "edge_walk_prev",
];
pub const EDGE_STEP_ENTRIES: &[&str] = &["edge_next_start", "edge_next_end", "edge_prev_start", "edge_prev_end"];
pub const OTHER_ENTRIES: &[&str] = &["level_order", "root", "top_element", "document_element"];
/// The per-node read accessors of valueaccess.rs / access.rs (Model/ValueAccess.lean).  The keyed
/// ones are asked for every name id / prefix id of the standard vocabulary (`*<count>`).
pub const VALUE_ENTRIES: &[&str] = &[
    "has_document_parent", "is_document_element", "get_element_name", "comment_str", "processing_instruction",
    "namespace_node", "attribute_node", "namespace_declarations", "get_attribute*20", "get_namespace*7",
];
/// The accessors that hand out the nodes of one raw child list (Model/AxesChildLists.lean).
/// `namespace_nodes` = `namespaces(node).nodes()`, `attributes_nodes` = `attributes(node).nodes()` (public
/// API).  `all_children` / `abnormal_children` are `pub(crate)` in access.rs and have no hook: the harness
/// asks for them through the public composition with the same meaning — `all_descendants(node)` filtered
/// by `parent(m) == Some(node)`, resp. its longest prefix of attribute / namespace nodes
/// (`is_attribute_node` / `is_namespace_node`) — and the model answers with its `allChildren` /
/// `abnormalChildren`.
pub const CHILD_LIST_ENTRIES: &[&str] = &["namespace_nodes", "attributes_nodes", "all_children", "abnormal_children"];
pub const N_NAMES: usize = 20;
pub const N_PREFIXES: usize = 7;
pub const AXES: &[(&str, Axis)] = &[
    ("child", Axis::Child),
    ("descendant", Axis::Descendant),
    ("parent", Axis::Parent),
    ("ancestor", Axis::Ancestor),
    ("following_sibling", Axis::FollowingSibling),
    ("preceding_sibling", Axis::PrecedingSibling),
    ("following", Axis::Following),
    ("preceding", Axis::Preceding),
    ("attribute", Axis::Attribute),
    ("self", Axis::Self_),
    ("descendant_or_self", Axis::DescendantOrSelf),
    ("ancestor_or_self", Axis::AncestorOrSelf),
];

pub fn all_entries() -> Vec<String> {
    let mut v: Vec<String> = vec![];
    for group in [OPT_ENTRIES, LIST_ENTRIES, EDGE_ENTRIES, EDGE_STEP_ENTRIES, OTHER_ENTRIES, VALUE_ENTRIES, CHILD_LIST_ENTRIES] {
        v.extend(group.iter().map(|s| s.to_string()));
    }
    v.extend(AXES.iter().map(|(n, _)| format!("axis_{}", n)));
    v
}

/// A generated tree built in a real Xot, with the node <-> path correspondence.
pub struct Case<'a> {
    pub xot: &'a Xot,
    pub vocab: &'a Vocab,
    pub t: &'a GTree,
    pub nodes: Vec<Node>,
    pub paths: Vec<Vec<usize>>,
    pub index: HashMap<Node, usize>,
}

impl<'a> Case<'a> {
    pub fn new(xot: &'a Xot, vocab: &'a Vocab, t: &'a GTree, root: Node) -> Self {
        assert_eq!(vocab.names.len(), N_NAMES, "standard vocabulary: names");
        assert_eq!(vocab.prefixes.len(), N_PREFIXES, "standard vocabulary: prefixes");
        let nodes = nodes_in_order(xot, root);
        let paths = t.paths();
        assert_eq!(nodes.len(), paths.len(), "built tree has the generated node count");
        let index = nodes.iter().enumerate().map(|(i, n)| (*n, i)).collect();
        Case { xot, vocab, t, nodes, paths, index }
    }
    pub fn p(&self, n: Node) -> String {
        match self.index.get(&n) {
            Some(i) => path_str(&self.paths[*i]),
            None => "?".to_string(),
        }
    }
    fn idx(&self, n: Node) -> Option<usize> {
        self.index.get(&n).copied()
    }
    fn list(&self, it: impl Iterator<Item = Node>) -> String {
        let mut s = String::from("l");
        for n in it.take(4 * self.nodes.len() + 8) {
            s.push(' ');
            s.push_str(&self.p(n));
        }
        s
    }
    fn opt(&self, o: Option<Node>) -> String {
        match o {
            None => "none".to_string(),
            Some(n) => format!("some {}", self.p(n)),
        }
    }
    fn edge(&self, e: NodeEdge) -> String {
        match e {
            NodeEdge::Start(n) => format!("S:{}", self.p(n)),
            NodeEdge::End(n) => format!("E:{}", self.p(n)),
        }
    }
    fn edges(&self, it: impl Iterator<Item = NodeEdge>) -> String {
        let mut s = String::from("l");
        for e in it.take(8 * self.nodes.len() + 8) {
            s.push(' ');
            s.push_str(&self.edge(e));
        }
        s
    }
    fn opt_edge(&self, o: Option<NodeEdge>) -> String {
        match o {
            None => "none".to_string(),
            Some(e) => format!("some {}", self.edge(e)),
        }
    }
    fn walk(&self, first: NodeEdge, next: bool) -> Vec<NodeEdge> {
        let mut out = vec![first];
        let mut cur = first;
        let limit = 2 * self.nodes.len() + 1;
        while out.len() < limit {
            let n = if next { cur.next(self.xot) } else { cur.previous(self.xot) };
            match n {
                Some(e) => {
                    out.push(e);
                    cur = e;
                }
                None => break,
            }
        }
        out
    }

    /// The implementation's answer for one entry point at node number `i`.
    pub fn answer(&self, entry: &str, i: usize) -> String {
        guarded(|| self.answer_inner(entry, i)).unwrap_or_else(|| "panic".to_string())
    }

    fn answer_inner(&self, entry: &str, i: usize) -> String {
        let x = self.xot;
        let n = self.nodes[i];
        match entry {
            "first_child" => self.opt(x.first_child(n)),
            "last_child" => self.opt(x.last_child(n)),
            "next_sibling" => self.opt(x.next_sibling(n)),
            "previous_sibling" => self.opt(x.previous_sibling(n)),
            "parent" => self.opt(x.parent(n)),
            "ancestors" => self.list(x.ancestors(n)),
            "children" => self.list(x.children(n)),
            "reverse_children" => self.list(x.reverse_children(n)),
            "descendants" => self.list(x.descendants(n)),
            "all_descendants" => self.list(x.all_descendants(n)),
            "following_siblings" => self.list(x.following_siblings(n)),
            "preceding_siblings" => self.list(x.preceding_siblings(n)),
            "following" => self.list(x.following(n)),
            "all_following" => self.list(x.all_following(n)),
            "preceding" => self.list(x.preceding(n)),
            "reverse_preorder" => self.list(x.reverse_preorder(n)),
            "all_reverse_preorder" => self.list(x.all_reverse_preorder(n)),
            "attribute_nodes" => self.list(x.attribute_nodes(n)),
            "namespace_nodes" => self.list(x.namespaces(n).nodes()),
            "attributes_nodes" => self.list(x.attributes(n).nodes()),
            "all_children" => self.list(x.all_descendants(n).filter(|m| x.parent(*m) == Some(n))),
            "abnormal_children" => self.list(
                x.all_descendants(n)
                    .filter(|m| x.parent(*m) == Some(n))
                    .take_while(|m| x.is_attribute_node(*m) || x.is_namespace_node(*m)),
            ),
            "traverse" => self.edges(x.traverse(n)),
            "all_traverse" => self.edges(x.all_traverse(n)),
            "reverse_traverse" => self.edges(x.reverse_traverse(n)),
            "reverse_all_traverse" => self.edges(x.reverse_all_traverse(n)),
            "edge_walk_next" => self.edges(self.walk(NodeEdge::Start(n), true).into_iter()),
            "edge_walk_prev" => self.edges(self.walk(NodeEdge::End(n), false).into_iter()),
            "edge_next_start" => self.opt_edge(NodeEdge::Start(n).next(x)),
            "edge_next_end" => self.opt_edge(NodeEdge::End(n).next(x)),
            "edge_prev_start" => self.opt_edge(NodeEdge::Start(n).previous(x)),
            "edge_prev_end" => self.opt_edge(NodeEdge::End(n).previous(x)),
            "level_order" => {
                let mut s = String::from("l");
                for lo in x.level_order(n).take(4 * self.nodes.len() + 8) {
                    s.push(' ');
                    match lo {
                        LevelOrder::Node(m) => {
                            s.push_str("N:");
                            s.push_str(&self.p(m));
                        }
                        LevelOrder::End => s.push_str("End"),
                    }
                }
                s
            }
            "root" => format!("ok {}", self.p(x.root(n))),
            "top_element" => format!("ok {}", self.p(x.top_element(n))),
            "document_element" => match x.document_element(n) {
                Ok(m) => format!("ok {}", self.p(m)),
                Err(xot::Error::NotDocument(_)) => "err:NotDocument".to_string(),
                Err(xot::Error::NoElementAtTopLevel) => "err:NoElementAtTopLevel".to_string(),
                Err(e) => format!("err:other {:?}", e),
            },
            "has_document_parent" => format!("b {}", x.has_document_parent(n) as u8),
            "is_document_element" => format!("b {}", x.is_document_element(n) as u8),
            "get_element_name" => format!("ok {}", name_num(x.get_element_name(n))),
            "comment_str" => match x.comment_str(n) {
                Some(s) => format!("some {}", enc(s)),
                None => "none".to_string(),
            },
            "processing_instruction" => match x.processing_instruction(n) {
                Some(pi) => format!("some {} {}", name_num(pi.target()), pi.data().map(enc).unwrap_or_else(|| "-".to_string())),
                None => "none".to_string(),
            },
            "namespace_node" => match x.namespace_node(n) {
                Some(ns) => format!("some {} {}", prefix_num(ns.prefix()), ns_num(ns.namespace())),
                None => "none".to_string(),
            },
            "attribute_node" => match x.attribute_node(n) {
                Some(a) => format!("some {} {}", name_num(a.name()), enc(a.value())),
                None => "none".to_string(),
            },
            "namespace_declarations" => {
                let mut s = String::from("l");
                for (p, ns) in x.namespace_declarations(n) {
                    s.push_str(&format!(" {}:{}", prefix_num(p), ns_num(ns)));
                }
                s
            }
            "get_attribute*20" => {
                let mut s = String::from("l");
                for k in 0..N_NAMES {
                    s.push_str(&format!(" {}={}", k, x.get_attribute(n, self.vocab.name(k)).map(enc).unwrap_or_else(|| "-".to_string())));
                }
                s
            }
            "get_namespace*7" => {
                let mut s = String::from("l");
                for k in 0..N_PREFIXES {
                    s.push_str(&format!(" {}={}", k, x.get_namespace(n, self.vocab.prefix(k)).map(|ns| ns_num(ns).to_string()).unwrap_or_else(|| "-".to_string())));
                }
                s
            }
            _ => {
                if let Some(name) = entry.strip_prefix("axis_") {
                    let ax = AXES.iter().find(|(k, _)| *k == name).expect("axis name").1;
                    self.list(x.axis(ax, n))
                } else {
                    unreachable!("entry {}", entry)
                }
            }
        }
    }

    pub fn child_index(&self, par: usize, child: usize) -> String {
        match guarded(|| self.xot.child_index(self.nodes[par], self.nodes[child])) {
            None => "panic".to_string(),
            Some(None) => "none".to_string(),
            Some(Some(k)) => format!("some {}", k),
        }
    }
}

// ---------------------------------------------------------------------------------------------
// Oracle: the C07 laws evaluated on the implementation against the owned tree.

pub struct Failures {
    pub lines: Vec<String>,
    per_sig: BTreeMap<String, usize>,
}

impl Failures {
    pub fn new() -> Self {
        Failures { lines: vec![], per_sig: BTreeMap::new() }
    }
    fn fail(&mut self, sink: &mut Sink, sig: &str, what: String, tree: &GTree, path: &[usize], entry: &str) {
        sink.stat(&format!("oracle.fail.{}", sig));
        let c = self.per_sig.entry(sig.to_string()).or_insert(0);
        *c += 1;
        if *c > 3 {
            return;
        }
        let esc = |s: &str| s.replace('\\', "\\\\").replace('"', "\\\"");
        self.lines.push(format!(
            "F\tC07\t{{\"signature\": \"{}\", \"what\": \"{}\", \"replay\": {{\"suite\": \"axes\", \"entry\": \"{}\", \"path\": \"{}\", \"tree\": \"{}\"}}}}",
            esc(sig), esc(&what), esc(entry), path_str(path), esc(&tree.wire())
        ));
    }
}

fn is_prefix(a: &[usize], b: &[usize]) -> bool {
    a.len() <= b.len() && &b[..a.len()] == a
}

struct Spec<'a> {
    t: &'a GTree,
    paths: &'a [Vec<usize>],
    normal: Vec<bool>,
}

impl<'a> Spec<'a> {
    fn new(t: &'a GTree, paths: &'a [Vec<usize>]) -> Self {
        let normal = paths.iter().map(|p| t.at(p).unwrap().is_normal()).collect();
        Spec { t, paths, normal }
    }
    fn fmt(&self, idxs: impl Iterator<Item = usize>) -> String {
        let mut s = String::from("l");
        for i in idxs {
            s.push(' ');
            s.push_str(&path_str(&self.paths[i]));
        }
        s
    }
    fn cat(&self, p: &[usize]) -> u8 {
        match self.t.at(p).unwrap().v {
            GValue::Attribute(..) => 1,
            GValue::Namespace(..) => 2,
            _ => 0,
        }
    }
    fn kid_paths(&self, p: &[usize]) -> Vec<Vec<usize>> {
        let n = self.t.at(p).unwrap().kids.len();
        (0..n)
            .map(|i| {
                let mut q = p.to_vec();
                q.push(i);
                q
            })
            .collect()
    }
    fn normal_kids(&self, p: &[usize]) -> Vec<Vec<usize>> {
        self.kid_paths(p).into_iter().filter(|q| self.cat(q) == 0).collect()
    }
    fn edges(&self, p: &[usize], all: bool, out: &mut Vec<String>) {
        let show = all || self.cat(p) == 0;
        if show {
            out.push(format!("S:{}", path_str(p)));
        }
        for k in self.kid_paths(p) {
            self.edges(&k, all, out);
        }
        if show {
            out.push(format!("E:{}", path_str(p)));
        }
    }
    fn level_order(&self, p: &[usize]) -> String {
        let mut s = format!("l N:{} End", path_str(p));
        let mut level = vec![p.to_vec()];
        while !level.is_empty() {
            let mut next = vec![];
            for q in &level {
                let ks = self.normal_kids(q);
                if ks.is_empty() {
                    continue;
                }
                for k in &ks {
                    s.push_str(&format!(" N:{}", path_str(k)));
                }
                s.push_str(" End");
                next.extend(ks);
            }
            level = next;
        }
        s
    }
}

fn plist(ps: &[Vec<usize>]) -> String {
    let mut s = String::from("l");
    for p in ps {
        s.push(' ');
        s.push_str(&path_str(p));
    }
    s
}

fn parse_list(ans: &str) -> Vec<String> {
    ans.split(' ').skip(1).map(|s| s.to_string()).collect()
}

/// Runs every law at every node; `ans(entry, i)` is the implementation's (cached) answer.
pub fn oracle(case: &Case, ans: &dyn Fn(&str, usize) -> String, fails: &mut Failures, sink: &mut Sink) {
    let sp = Spec::new(case.t, &case.paths);
    let n = case.paths.len();
    let pos: HashMap<String, usize> = case.paths.iter().enumerate().map(|(i, p)| (path_str(p), i)).collect();
    let normal_all: Vec<usize> = (0..n).filter(|i| sp.normal[*i]).collect();
    // the node <-> path correspondence itself: parent links agree with the paths
    for i in 0..n {
        let p = &case.paths[i];
        let expect = if p.is_empty() { "none".to_string() } else { format!("some {}", path_str(&p[..p.len() - 1])) };
        if ans("parent", i) != expect {
            fails.fail(sink, "C07:parent-differs-from-structure", format!("parent = {}, expected {}", ans("parent", i), expect), case.t, p, "parent");
        }
    }
    for i in 0..n {
        let p = &case.paths[i];
        let me_normal = sp.normal[i];
        let mut check = |entry: &str, expect: String, sig: &str, fails: &mut Failures, sink: &mut Sink| {
            let got = ans(entry, i);
            if got != expect {
                fails.fail(sink, sig, format!("{} = [{}], expected [{}]", entry, got, expect), case.t, p, entry);
            }
        };
        // --- the four big axes against their document-order specification
        let desc: Vec<usize> = normal_all.iter().copied().filter(|j| *j != i && is_prefix(p, &case.paths[*j])).collect();
        let anc: Vec<usize> = (0..n).rev().filter(|j| *j != i && is_prefix(&case.paths[*j], p)).collect();
        let foll: Vec<usize> = normal_all.iter().copied().filter(|j| *j > i && !is_prefix(p, &case.paths[*j])).collect();
        let prec: Vec<usize> = normal_all.iter().rev().copied().filter(|j| *j < i && !is_prefix(&case.paths[*j], p)).collect();
        check("axis_descendant", sp.fmt(desc.iter().copied()), "C07:descendant-axis-differs-from-document-order-spec", fails, sink);
        check("axis_ancestor", sp.fmt(anc.iter().copied()), "C07:ancestor-axis-differs-from-document-order-spec", fails, sink);
        check("axis_following", sp.fmt(foll.iter().copied()), "C07:following-axis-differs-from-document-order-spec", fails, sink);
        check("following", sp.fmt(foll.iter().copied()), "C07:following-differs-from-document-order-spec", fails, sink);
        check("axis_preceding", sp.fmt(prec.iter().copied()), "C07:preceding-axis-differs-from-document-order-spec", fails, sink);
        check("preceding", sp.fmt(prec.iter().copied()), "C07:preceding-differs-from-document-order-spec", fails, sink);
        // --- partition law, evaluated on the implementation's answers only
        {
            let parts: Vec<(&str, Vec<String>)> = ["axis_ancestor", "axis_descendant", "axis_preceding", "axis_following"]
                .iter()
                .map(|e| (*e, parse_list(&ans(e, i))))
                .collect();
            let mut seen: HashSet<String> = HashSet::new();
            let mut ok = true;
            let mut why = String::new();
            if me_normal {
                seen.insert(path_str(p));
            }
            for (name, l) in &parts {
                for q in l {
                    if !seen.insert(q.clone()) {
                        ok = false;
                        why = format!("{} yields {} twice or overlaps another part", name, q);
                    }
                }
                // order: ancestors / preceding in reverse document order, the others forward
                let idxs: Vec<usize> = l.iter().filter_map(|q| pos.get(q).copied()).collect();
                let rev = *name == "axis_ancestor" || *name == "axis_preceding";
                if idxs.len() != l.len() || !idxs.windows(2).all(|w| if rev { w[0] > w[1] } else { w[0] < w[1] }) {
                    ok = false;
                    why = format!("{} not in {}document order", name, if rev { "reverse " } else { "" });
                }
            }
            let want: HashSet<String> = normal_all.iter().map(|j| path_str(&case.paths[*j])).collect();
            if ok && seen != want {
                ok = false;
                why = "union of the parts is not the set of normal nodes".to_string();
            }
            if !ok {
                fails.fail(sink, "C07:partition-law-violated", why, case.t, p, "axis_*");
            }
        }
        // --- descendants / traversals
        let sub: Vec<usize> = (0..n).filter(|j| is_prefix(p, &case.paths[*j])).collect();
        check("all_descendants", sp.fmt(sub.iter().copied()), "C07:all_descendants-not-raw-preorder", fails, sink);
        check("descendants", sp.fmt(sub.iter().copied().filter(|j| sp.normal[*j])), "C07:descendants-differs", fails, sink);
        check("axis_descendant_or_self", sp.fmt(sub.iter().copied().filter(|j| sp.normal[*j])), "C07:descendant-or-self-axis-differs", fails, sink);
        let mut e_all = vec![];
        sp.edges(p, true, &mut e_all);
        let mut e_norm = vec![];
        sp.edges(p, false, &mut e_norm);
        let join = |v: &[String]| {
            let mut s = String::from("l");
            for x in v {
                s.push(' ');
                s.push_str(x);
            }
            s
        };
        check("all_traverse", join(&e_all), "C07:all_traverse-differs", fails, sink);
        check("traverse", join(&e_norm), "C07:traverse-differs", fails, sink);
        e_all.reverse();
        e_norm.reverse();
        check("reverse_all_traverse", join(&e_all), "C07:reverse_all_traverse-differs", fails, sink);
        check("reverse_traverse", join(&e_norm), "C07:reverse_traverse-differs", fails, sink);
        e_norm.reverse();
        // NodeEdge stepping reproduces traverse / reverse_traverse (normal start nodes)
        if me_normal {
            let w = parse_list(&ans("edge_walk_next", i));
            let tr = parse_list(&ans("traverse", i));
            let full = p.is_empty();
            if !(w.len() >= tr.len() && w[..tr.len()] == tr[..] && (!full || w.len() == tr.len())) {
                fails.fail(sink, "C07:edge-next-walk-differs-from-traverse", format!("walk {:?} vs traverse {:?}", w, tr), case.t, p, "edge_walk_next");
            }
            let w = parse_list(&ans("edge_walk_prev", i));
            let tr = parse_list(&ans("reverse_traverse", i));
            if !(w.len() >= tr.len() && w[..tr.len()] == tr[..] && (!full || w.len() == tr.len())) {
                fails.fail(sink, "C07:edge-previous-walk-differs-from-reverse_traverse", format!("walk {:?} vs reverse_traverse {:?}", w, tr), case.t, p, "edge_walk_prev");
            }
        }
        // single NodeEdge steps at EVERY node, entry nodes included (seed C07l: the step from the End edge of
        // the last attribute went on to the first ordinary child): siblings are the siblings of the same
        // category, children the ordinary children
        {
            let e = |tag: &str, q: &[usize]| format!("some {}:{}", tag, path_str(q));
            let parent: Option<Vec<usize>> = if p.is_empty() { None } else { Some(p[..p.len() - 1].to_vec()) };
            let sibs: Vec<Vec<usize>> = match &parent {
                None => vec![p.to_vec()],
                Some(pp) => sp.kid_paths(pp).into_iter().filter(|q| sp.cat(q) == sp.cat(p)).collect(),
            };
            let at = sibs.iter().position(|q| q.as_slice() == &p[..]).unwrap();
            let nk = sp.normal_kids(p);
            let next_start = match nk.first() { Some(k) => e("S", k), None => e("E", p) };
            let prev_end = match nk.last() { Some(k) => e("E", k), None => e("S", p) };
            let next_end = if let Some(q) = sibs.get(at + 1) { e("S", q) } else if let Some(pp) = &parent { e("E", pp) } else { "none".to_string() };
            let prev_start = if at > 0 { e("E", &sibs[at - 1]) } else if let Some(pp) = &parent { e("S", pp) } else { "none".to_string() };
            check("edge_next_start", next_start, "C07:edge-step-differs:next-of-start", fails, sink);
            check("edge_prev_end", prev_end, "C07:edge-step-differs:previous-of-end", fails, sink);
            check("edge_next_end", next_end, "C07:edge-step-differs:next-of-end", fails, sink);
            check("edge_prev_start", prev_start, "C07:edge-step-differs:previous-of-start", fails, sink);
        }
        // --- reverse preorder / all_following
        check("all_reverse_preorder", sp.fmt((0..=i).rev()), "C07:all_reverse_preorder-differs", fails, sink);
        check("reverse_preorder", sp.fmt((0..=i).rev().filter(|j| sp.normal[*j])), "C07:reverse_preorder-differs", fails, sink);
        check("all_following", sp.fmt((0..n).filter(|j| *j > i && !is_prefix(p, &case.paths[*j]))), "C07:all_following-differs", fails, sink);
        // --- children and siblings
        let kids = sp.normal_kids(p);
        check("children", plist(&kids), "C07:children-differs", fails, sink);
        check("axis_child", plist(&kids), "C07:child-axis-differs", fails, sink);
        let mut rk = kids.clone();
        rk.reverse();
        {
            let got = ans("reverse_children", i);
            let items = parse_list(&got);
            if got != plist(&rk) {
                let endless = items.len() > sp.kid_paths(p).len() && items.iter().all(|x| *x == items[0]);
                let sig = if endless { "C07:reverse_children-repeats-last-child-forever" } else { "C07:reverse_children-differs" };
                let shown: Vec<String> = items.iter().take(6).cloned().collect();
                fails.fail(sink, sig, format!("reverse_children = [{}{}] ({} items taken), expected [{}]", shown.join(" "), if items.len() > 6 { " ..." } else { "" }, items.len(), plist(&rk)), case.t, p, "reverse_children");
            }
        }
        let o = |q: Option<&Vec<usize>>| match q {
            None => "none".to_string(),
            Some(q) => format!("some {}", path_str(q)),
        };
        check("first_child", o(kids.first()), "C07:first_child-differs", fails, sink);
        check("last_child", o(kids.last()), "C07:last_child-differs", fails, sink);
        let attrs: Vec<Vec<usize>> = sp.kid_paths(p).into_iter().filter(|q| sp.cat(q) == 1).collect();
        check("attribute_nodes", plist(&attrs), "C07:attribute_nodes-differs", fails, sink);
        check("axis_attribute", plist(&attrs), "C07:attribute-axis-differs", fails, sink);
        let (sibs_after, sibs_before): (Vec<Vec<usize>>, Vec<Vec<usize>>) = if p.is_empty() {
            (vec![], vec![])
        } else {
            let par = &p[..p.len() - 1];
            let me = *p.last().unwrap();
            let same: Vec<Vec<usize>> = sp.kid_paths(par).into_iter().filter(|q| sp.cat(q) == sp.cat(p)).collect();
            (
                same.iter().filter(|q| *q.last().unwrap() > me).cloned().collect(),
                same.iter().rev().filter(|q| *q.last().unwrap() < me).cloned().collect(),
            )
        };
        check("next_sibling", o(sibs_after.first()), "C07:next_sibling-differs", fails, sink);
        check("previous_sibling", o(sibs_before.first()), "C07:previous_sibling-differs", fails, sink);
        check("axis_following_sibling", plist(&sibs_after), "C07:following-sibling-axis-differs", fails, sink);
        check("axis_preceding_sibling", plist(&sibs_before), "C07:preceding-sibling-axis-differs", fails, sink);
        let mut with_self = vec![p.clone()];
        with_self.extend(sibs_after.iter().cloned());
        check("following_siblings", plist(&with_self), "C07:following_siblings-differs", fails, sink);
        let mut with_self = vec![p.clone()];
        with_self.extend(sibs_before.iter().cloned());
        check("preceding_siblings", plist(&with_self), "C07:preceding_siblings-differs", fails, sink);
        // --- ancestors, parent axis, self, root
        let anc_self: Vec<Vec<usize>> = (0..=p.len()).rev().map(|k| p[..k].to_vec()).collect();
        check("ancestors", plist(&anc_self), "C07:ancestors-differs", fails, sink);
        check("axis_ancestor_or_self", plist(&anc_self), "C07:ancestor-or-self-axis-differs", fails, sink);
        check("axis_parent", plist(&anc_self[1..anc_self.len().min(2)]), "C07:parent-axis-differs", fails, sink);
        check("axis_self", plist(&[p.clone()]), "C07:self-axis-differs", fails, sink);
        check("root", "ok .".to_string(), "C07:root-differs", fails, sink);
        // --- level order
        check("level_order", sp.level_order(p), "C07:level_order-differs", fails, sink);
        // --- document_element / top_element
        let is_doc = matches!(case.t.at(p).unwrap().v, GValue::Document);
        let is_elem = |q: &[usize]| matches!(case.t.at(q).unwrap().v, GValue::Element(_));
        let first_elem = kids.iter().find(|q| is_elem(q));
        let de = if !is_doc {
            "err:NotDocument".to_string()
        } else {
            match first_elem {
                Some(q) => format!("ok {}", path_str(q)),
                None => "err:NoElementAtTopLevel".to_string(),
            }
        };
        check("document_element", de, "C07:document_element-differs", fails, sink);
        let got_top = ans("top_element", i);
        if got_top == "panic" {
            if is_doc && first_elem.is_none() {
                fails.fail(sink, "C07:top_element-panics-without-element", "top_element(document node without element child) panics (document_element(..).unwrap())".to_string(), case.t, p, "top_element");
            } else {
                fails.fail(sink, "C07:top_element-panics", "top_element panics".to_string(), case.t, p, "top_element");
            }
        } else {
            // topmost element among ancestor-or-self; a document: its first element child, itself if none
            let expect = if is_doc {
                match first_elem {
                    Some(q) => format!("ok {}", path_str(q)),
                    None => format!("ok {}", path_str(p)),
                }
            } else {
                match anc_self.iter().rev().find(|q| is_elem(q)) {
                    Some(q) => format!("ok {}", path_str(q)),
                    None => format!("ok {}", path_str(p)),
                }
            };
            if got_top != expect {
                fails.fail(sink, "C07:top_element-differs", format!("top_element = {}, expected {}", got_top, expect), case.t, p, "top_element");
            }
        }
        // --- the per-node read accessors: against the owned tree …
        {
            let node = case.t.at(p).unwrap();
            let par_idx = if p.is_empty() { None } else { pos.get(&path_str(&p[..p.len() - 1])).copied() };
            let par_is_doc = !p.is_empty() && matches!(case.t.at(&p[..p.len() - 1]).unwrap().v, GValue::Document);
            let me_elem = matches!(node.v, GValue::Element(_));
            check("has_document_parent", format!("b {}", par_is_doc as u8), "C07:has_document_parent-differs", fails, sink);
            check("is_document_element", format!("b {}", (par_is_doc && me_elem) as u8), "C07:is_document_element-differs", fails, sink);
            check("get_element_name", match node.v { GValue::Element(nm) => format!("ok {}", nm), _ => "panic".to_string() }, "C07:get_element_name-differs", fails, sink);
            check("comment_str", match &node.v { GValue::Comment(c) => format!("some {}", enc(c)), _ => "none".to_string() }, "C07:comment_str-differs", fails, sink);
            check(
                "processing_instruction",
                match &node.v { GValue::PI(tg, d) => format!("some {} {}", tg, d.as_deref().map(enc).unwrap_or_else(|| "-".to_string())), _ => "none".to_string() },
                "C07:processing_instruction-differs", fails, sink,
            );
            check("namespace_node", match &node.v { GValue::Namespace(pf, ns) => format!("some {} {}", pf, ns), _ => "none".to_string() }, "C07:namespace_node-differs", fails, sink);
            check("attribute_node", match &node.v { GValue::Attribute(nm, v) => format!("some {} {}", nm, enc(v)), _ => "none".to_string() }, "C07:attribute_node-differs", fails, sink);
            // the views the adapters select: leading namespace nodes, then the attribute run
            let kid_paths = sp.kid_paths(p);
            let ns_run: Vec<&GTree> = kid_paths.iter().take_while(|q| sp.cat(q) == 2).map(|q| case.t.at(q).unwrap()).collect();
            let at_run: Vec<&GTree> = kid_paths.iter().skip_while(|q| sp.cat(q) == 2).take_while(|q| sp.cat(q) == 1).map(|q| case.t.at(q).unwrap()).collect();
            let mut decls = String::from("l");
            for k in &ns_run {
                if let GValue::Namespace(pf, ns) = &k.v {
                    decls.push_str(&format!(" {}:{}", pf, ns));
                }
            }
            check("namespace_declarations", decls, "C07:namespace_declarations-differs", fails, sink);
            let mut ga = String::from("l");
            for key in 0..N_NAMES {
                let hit = at_run.iter().find_map(|k| match &k.v { GValue::Attribute(nm, v) if *nm == key => Some(enc(v)), _ => None });
                ga.push_str(&format!(" {}={}", key, hit.unwrap_or_else(|| "-".to_string())));
            }
            check("get_attribute*20", ga, "C07:get_attribute-differs", fails, sink);
            let mut gn = String::from("l");
            for key in 0..N_PREFIXES {
                let hit = ns_run.iter().find_map(|k| match &k.v { GValue::Namespace(pf, ns) if *pf == key => Some(ns.to_string()), _ => None });
                gn.push_str(&format!(" {}={}", key, hit.unwrap_or_else(|| "-".to_string())));
            }
            check("get_namespace*7", gn, "C07:get_namespace-differs", fails, sink);
            // … and against what the other accessors of the implementation say
            if let Some(pi) = par_idx {
                // document_element(parent) = Ok(this node) => is_document_element(this node); with a
                // single element child of a document also the converse
                let de = ans("document_element", pi);
                let is_de = ans("is_document_element", i) == "b 1";
                let elem_sibs = sp.normal_kids(&p[..p.len() - 1]).iter().filter(|q| is_elem(q)).count();
                if de == format!("ok {}", path_str(p)) && !is_de {
                    fails.fail(sink, "C07:document_element-is-not-is_document_element", format!("document_element(parent) = {}, is_document_element(it) = false", de), case.t, p, "is_document_element");
                }
                if is_de && elem_sibs == 1 && de != format!("ok {}", path_str(p)) {
                    fails.fail(sink, "C07:is_document_element-is-not-document_element", format!("is_document_element, the only element child, but document_element(parent) = {}", de), case.t, p, "is_document_element");
                }
                if is_de {
                    sink.stat(if elem_sibs == 1 { "oracle.is_document_element.the-document_element" } else { "oracle.is_document_element.one-of-several-top-elements" });
                }
            }
            let x = case.xot;
            let nd = case.nodes[i];
            let direct = guarded(|| {
                let mut bad: Vec<String> = vec![];
                for key in 0..N_NAMES {
                    let nm = case.vocab.name(key);
                    if x.get_attribute(nd, nm) != x.attributes(nd).get(nm).map(String::as_str) {
                        bad.push(format!("get_attribute(name {}) differs from attributes().get()", key));
                    }
                }
                for key in 0..N_PREFIXES {
                    let pf = case.vocab.prefix(key);
                    if x.get_namespace(nd, pf) != x.namespaces(nd).get(pf).copied() {
                        bad.push(format!("get_namespace(prefix {}) differs from namespaces().get()", key));
                    }
                }
                let d = x.namespace_declarations(nd);
                let it: Vec<_> = x.namespaces(nd).iter().map(|(k, v)| (k, *v)).collect();
                if d != it {
                    bad.push("namespace_declarations differs from namespaces().iter()".to_string());
                }
                let pm = x.prefixes(nd);
                if d.len() != pm.len() || d.iter().any(|(k, v)| pm.get(k) != Some(v)) {
                    bad.push("namespace_declarations differs from prefixes()".to_string());
                }
                if x.comment_str(nd) != x.comment(nd).map(|c| c.get()) {
                    bad.push("comment_str differs from comment().get()".to_string());
                }
                let v = x.value(nd);
                if x.comment_str(nd).is_some() != matches!(v, xot::Value::Comment(_))
                    || x.processing_instruction(nd).is_some() != x.is_processing_instruction(nd)
                    || x.namespace_node(nd).is_some() != x.is_namespace_node(nd)
                    || x.attribute_node(nd).is_some() != x.is_attribute_node(nd)
                {
                    bad.push("a typed value accessor disagrees with the is_* test".to_string());
                }
                if x.is_element(nd) && Some(x.get_element_name(nd)) != x.element(nd).map(|e| e.name()) {
                    bad.push("get_element_name differs from element().name()".to_string());
                }
                if x.has_document_parent(nd) != x.parent(nd).map(|q| x.is_document(q)).unwrap_or(false) {
                    bad.push("has_document_parent differs from is_document(parent)".to_string());
                }
                if x.is_document_element(nd) != (x.has_document_parent(nd) && x.is_element(nd)) {
                    bad.push("is_document_element differs from has_document_parent && is_element".to_string());
                }
                bad
            });
            match direct {
                None => fails.fail(sink, "C07:read-accessor-panics", "a read accessor panicked on a live node".to_string(), case.t, p, "value accessors"),
                Some(bad) => {
                    sink.stat("oracle.value-accessors.cross-checked");
                    for b in bad {
                        fails.fail(sink, "C07:accessor-shortcut-differs-from-view", b, case.t, p, "value accessors");
                    }
                }
            }
        }
        // --- the child-list accessors: against the owned tree …
        {
            let kid_paths = sp.kid_paths(p);
            let ns_run: Vec<Vec<usize>> = kid_paths.iter().take_while(|q| sp.cat(q) == 2).cloned().collect();
            let at_run: Vec<Vec<usize>> = kid_paths.iter().skip_while(|q| sp.cat(q) == 2).take_while(|q| sp.cat(q) == 1).cloned().collect();
            let ab_run: Vec<Vec<usize>> = kid_paths.iter().take_while(|q| sp.cat(q) != 0).cloned().collect();
            check("namespace_nodes", plist(&ns_run), "C07:child-list-accessor-differs", fails, sink);
            check("attributes_nodes", plist(&at_run), "C07:child-list-accessor-differs", fails, sink);
            check("all_children", plist(&kid_paths), "C07:child-list-accessor-differs", fails, sink);
            check("abnormal_children", plist(&ab_run), "C07:child-list-accessor-differs", fails, sink);
            // … and the laws on the implementation's answers alone: all_children = namespace nodes ++
            // attribute nodes ++ children, in document order, no node twice (the three lists are disjoint
            // and every normal child appears exactly once); attributes(node).nodes() = attribute_nodes(node);
            // abnormal_children = namespace nodes ++ attribute nodes; every node handed out has `node` as parent
            let l_ns = parse_list(&ans("namespace_nodes", i));
            let l_at = parse_list(&ans("attribute_nodes", i));
            let l_at2 = parse_list(&ans("attributes_nodes", i));
            let l_ch = parse_list(&ans("children", i));
            let l_all = parse_list(&ans("all_children", i));
            let l_ab = parse_list(&ans("abnormal_children", i));
            let mut cat: Vec<String> = l_ns.clone();
            cat.extend(l_at.iter().cloned());
            let abn = cat.clone();
            cat.extend(l_ch.iter().cloned());
            let mut why: Vec<String> = vec![];
            if cat != l_all {
                why.push(format!("all_children [{}] is not namespace nodes ++ attribute nodes ++ children [{}]", l_all.join(" "), cat.join(" ")));
            }
            let distinct: HashSet<&String> = cat.iter().collect();
            if distinct.len() != cat.len() {
                why.push(format!("a node occurs twice in namespace nodes ++ attribute nodes ++ children [{}]", cat.join(" ")));
            }
            let idxs: Vec<usize> = cat.iter().filter_map(|q| pos.get(q).copied()).collect();
            if idxs.len() != cat.len() || !idxs.windows(2).all(|w| w[0] < w[1]) {
                why.push(format!("namespace nodes ++ attribute nodes ++ children [{}] is not in document order", cat.join(" ")));
            }
            if l_at2 != l_at {
                why.push(format!("attributes(node).nodes() [{}] differs from attribute_nodes(node) [{}]", l_at2.join(" "), l_at.join(" ")));
            }
            if l_ab != abn {
                why.push(format!("abnormal_children [{}] is not namespace nodes ++ attribute nodes [{}]", l_ab.join(" "), abn.join(" ")));
            }
            for q in &cat {
                if pos.get(q).map(|j| case.paths[*j].len() != p.len() + 1 || !is_prefix(p, &case.paths[*j])).unwrap_or(true) {
                    why.push(format!("{} is handed out as a child-list node of {} but is not its child", q, path_str(p)));
                }
            }
            for (l, c, name) in [(&l_ns, 2u8, "namespace_nodes"), (&l_at, 1u8, "attribute_nodes"), (&l_ch, 0u8, "children")] {
                for q in l.iter() {
                    if pos.get(q).map(|j| sp.cat(&case.paths[*j]) != c).unwrap_or(true) {
                        why.push(format!("{} yields {} of another category", name, q));
                    }
                }
            }
            // the map views agree with their node lists: len(), and get_node(key of the node) is the first
            // node of the list carrying that key
            let x = case.xot;
            let nd = case.nodes[i];
            let views = guarded(|| {
                let mut bad: Vec<String> = vec![];
                let nsn: Vec<Node> = x.namespaces(nd).nodes().collect();
                if x.namespaces(nd).len() != nsn.len() || x.namespaces(nd).is_empty() != nsn.is_empty() {
                    bad.push("namespaces(node).len() / is_empty() disagree with nodes()".to_string());
                }
                for m in &nsn {
                    let key = x.namespace_node(*m).map(|v| v.prefix());
                    let first = nsn.iter().copied().find(|k| x.namespace_node(*k).map(|v| v.prefix()) == key);
                    if key.is_none() || key.and_then(|k| x.namespaces(nd).get_node(k)) != first {
                        bad.push("namespaces(node).get_node(prefix) is not the first namespace node with that prefix".to_string());
                    }
                }
                let atn: Vec<Node> = x.attributes(nd).nodes().collect();
                if x.attributes(nd).len() != atn.len() || x.attributes(nd).is_empty() != atn.is_empty() {
                    bad.push("attributes(node).len() / is_empty() disagree with nodes()".to_string());
                }
                for m in &atn {
                    let key = x.attribute_node(*m).map(|v| v.name());
                    let first = atn.iter().copied().find(|k| x.attribute_node(*k).map(|v| v.name()) == key);
                    if key.is_none() || key.and_then(|k| x.attributes(nd).get_node(k)) != first {
                        bad.push("attributes(node).get_node(name) is not the first attribute node with that name".to_string());
                    }
                }
                bad
            });
            match views {
                None => why.push("a node-map view panicked on a live node".to_string()),
                Some(bad) => why.extend(bad),
            }
            sink.stat("oracle.child-lists.partition-checked");
            let kinds = (!l_ns.is_empty()) as usize + (!l_at.is_empty()) as usize + (!l_ch.is_empty()) as usize;
            sink.stat(&format!("childlist.all_children.{}", match kinds { 0 => "empty", 1 => "one-kind", 2 => "two-kinds", _ => "three-kinds" }));
            sink.stat(if l_ns.is_empty() { "childlist.namespace_nodes.empty" } else if l_ns.len() == 1 { "childlist.namespace_nodes.one" } else { "childlist.namespace_nodes.several" });
            sink.stat(if l_at2.is_empty() { "childlist.attributes_nodes.empty" } else if l_at2.len() == 1 { "childlist.attributes_nodes.one" } else { "childlist.attributes_nodes.several" });
            if !me_normal {
                sink.stat("childlist.at-abnormal-node");
            }
            for w in why {
                fails.fail(sink, "C07:child-list-accessor-differs", w, case.t, p, "child-list accessors");
            }
        }
        // --- plain variants never expose namespace / attribute nodes (other than the start node)
        for entry in [
            "children", "reverse_children", "descendants", "following", "preceding", "reverse_preorder", "traverse",
            "reverse_traverse", "level_order", "first_child", "last_child", "axis_child", "axis_descendant",
            "axis_descendant_or_self", "axis_following", "axis_preceding", "axis_parent", "axis_ancestor",
        ] {
            let a = ans(entry, i);
            for w in a.split(' ').skip(1) {
                let w = w.trim_start_matches("S:").trim_start_matches("E:").trim_start_matches("N:");
                if w == "End" {
                    continue;
                }
                if let Some(j) = pos.get(w) {
                    if !sp.normal[*j] && *j != i {
                        fails.fail(sink, "C07:plain-variant-exposes-abnormal-node", format!("{} yields {}", entry, w), case.t, p, entry);
                    }
                } else {
                    fails.fail(sink, "C07:foreign-node-yielded", format!("{} yields {}", entry, w), case.t, p, entry);
                }
            }
        }
    }
    // child_index over all (parent, child) pairs of small trees, else each node with its parent
    let _ = case.idx(case.nodes[0]);
}

pub fn child_index_spec(case: &Case, par: usize, child: usize) -> String {
    let sp = Spec::new(case.t, &case.paths);
    let pp = &case.paths[par];
    let cp = &case.paths[child];
    if cp.len() != pp.len() + 1 || !is_prefix(pp, cp) {
        return "none".to_string();
    }
    match sp.normal_kids(pp).iter().position(|q| q == cp) {
        Some(k) => format!("some {}", k),
        None => "none".to_string(),
    }
}

// ---------------------------------------------------------------------------------------------
// Running one tree

pub struct Mode {
    /// emit one request per entry point (else one bundled `all` request per node)
    pub per_entry: bool,
    /// all (parent, child) pairs for child_index (else: each node with its parent + 2 random pairs)
    pub all_pairs: bool,
}

pub fn run_tree(t: &GTree, mode: &Mode, rng: &mut Rng, entries: &[String], fails: &mut Failures, sink: &mut Sink) {
    let mut xot = Xot::new();
    let vocab = Vocab::standard(&mut xot);
    let root = match build(&mut xot, &vocab, t, true) {
        Ok(r) => r,
        Err(_) => {
            sink.stat("tree.build-refused");
            return;
        }
    };
    let case = Case::new(&xot, &vocab, t, root);
    let wire = t.wire();
    let n = case.paths.len();
    sink.stat("trees");
    sink.stat(match &t.v {
        GValue::Document => {
            if t.kids.iter().any(|k| matches!(k.v, GValue::Element(_))) { "root.document-with-element" } else { "root.document-without-element" }
        }
        GValue::Element(_) => "root.unattached-element",
        _ => "root.unattached-leaf",
    });
    sink.stat(&format!("size.{}", match n { 1 => "1", 2..=4 => "2-4", 5..=7 => "5-7", 8..=20 => "8-20", 21..=60 => "21-60", _ => "61+" }));
    let depth = case.paths.iter().map(|p| p.len()).max().unwrap_or(0);
    sink.stat(&format!("depth.{}", match depth { 0 => "0", 1..=2 => "1-2", 3..=5 => "3-5", 6..=15 => "6-15", _ => "16+" }));
    // answers, computed once
    let mut table: HashMap<(String, usize), String> = HashMap::new();
    for i in 0..n {
        for e in entries {
            table.insert((e.clone(), i), case.answer(e, i));
        }
    }
    for i in 0..n {
        let node = case.t.at(&case.paths[i]).unwrap();
        sink.stat(match node.v {
            GValue::Attribute(..) => "node.attribute",
            GValue::Namespace(..) => "node.namespace",
            GValue::Element(_) => "node.element",
            GValue::Document => "node.document",
            _ => "node.leaf",
        });
        for e in VALUE_ENTRIES {
            let a = &table[&(e.to_string(), i)];
            let class = if a == "panic" {
                "panic".to_string()
            } else if *e == "get_attribute*20" || *e == "get_namespace*7" {
                let hits = a.split(' ').skip(1).filter(|w| !w.ends_with("=-")).count();
                sink.stat_n(&format!("value.{}.calls", e), if *e == "get_attribute*20" { N_NAMES as u64 } else { N_PREFIXES as u64 });
                sink.stat_n(&format!("value.{}.some", e), hits as u64);
                continue;
            } else if *e == "namespace_declarations" {
                (if a == "l" { "empty" } else { "nonempty" }).to_string()
            } else {
                a.split(' ').take(if a.starts_with("b ") { 2 } else { 1 }).collect::<Vec<_>>().join("-")
            };
            sink.stat(&format!("value.{}.{}", e, class));
        }
        let ps = path_str(&case.paths[i]);
        if mode.per_entry {
            for e in entries {
                let a = &table[&(e.clone(), i)];
                if a == "panic" {
                    sink.stat(&format!("panic.{}", e));
                }
                sink.emit(format!("axes {} {} {}", e, ps, wire), a.clone());
            }
        } else {
            let joined: Vec<String> = entries.iter().map(|e| table[&(e.clone(), i)].clone()).collect();
            sink.emit(format!("axes all {} {}", ps, wire), joined.join(" | "));
        }
    }
    // child_index
    let mut pairs: Vec<(usize, usize)> = vec![];
    if mode.all_pairs {
        for a in 0..n {
            for b in 0..n {
                pairs.push((a, b));
            }
        }
    } else {
        for b in 0..n {
            let p = &case.paths[b];
            if !p.is_empty() {
                let par = case.paths.iter().position(|q| q[..] == p[..p.len() - 1]).unwrap();
                pairs.push((par, b));
            }
        }
        for _ in 0..3 {
            pairs.push((rng.below(n), rng.below(n)));
        }
    }
    for (a, b) in pairs {
        let got = case.child_index(a, b);
        let want = child_index_spec(&case, a, b);
        sink.stat(if got == "none" { "child_index.none" } else { "child_index.some" });
        if got != want {
            fails.fail(sink, "C07:child_index-differs", format!("child_index({}, {}) = {}, expected {}", path_str(&case.paths[a]), path_str(&case.paths[b]), got, want), t, &case.paths[b], "child_index");
        }
        sink.emit(format!("axes child_index {} {} {}", path_str(&case.paths[a]), path_str(&case.paths[b]), wire), got);
    }
    let ans = |e: &str, i: usize| table[&(e.to_string(), i)].clone();
    oracle(&case, &ans, fails, sink);
}

// ---------------------------------------------------------------------------------------------
// Generators specific to this suite

fn chain(rng: &mut Rng, depth: usize) -> GTree {
    // a deep chain: every level one element child, sometimes decorated with leaves / ns / attrs
    let mut t = GTree::leaf(if rng.chance(1, 2) { GValue::Text("x".into()) } else { GValue::Element(2) });
    for d in 0..depth {
        let mut kids = vec![];
        if rng.chance(1, 4) {
            kids.push(GTree::leaf(GValue::Namespace(2, NS_A)));
        }
        if rng.chance(1, 3) {
            kids.push(GTree::leaf(GValue::Attribute(2, "v".into())));
        }
        if rng.chance(1, 5) {
            kids.push(GTree::leaf(GValue::Comment("c".into())));
        }
        kids.push(t);
        if rng.chance(1, 5) {
            kids.push(GTree::leaf(GValue::Text("t".into())));
        }
        t = GTree::new(GValue::Element(2 + d % 4), kids);
    }
    if rng.chance(1, 2) {
        t = GTree::new(GValue::Document, vec![t]);
    }
    t
}

fn fan(rng: &mut Rng, width: usize) -> GTree {
    let mut kids = vec![];
    if rng.chance(1, 2) {
        kids.push(GTree::leaf(GValue::Namespace(0, NS_A)));
        kids.push(GTree::leaf(GValue::Namespace(2, NS_B)));
    }
    for a in 0..rng.below(4) {
        kids.push(GTree::leaf(GValue::Attribute([2usize, 3, 4, 5][a], "v".into())));
    }
    for _ in 0..width {
        kids.push(match rng.below(6) {
            0 => GTree::leaf(GValue::Text("t".into())),
            1 => GTree::leaf(GValue::Comment("c".into())),
            5 => GTree::leaf(GValue::PI(18, if rng.chance(1, 2) { Some("d x".into()) } else { None })),
            2 => GTree::new(GValue::Element(3), vec![GTree::leaf(GValue::Attribute(2, "".into())), GTree::leaf(GValue::Text("u".into()))]),
            _ => GTree::leaf(GValue::Element(4)),
        });
    }
    let e = GTree::new(GValue::Element(2), kids);
    if rng.chance(1, 2) {
        GTree::new(GValue::Document, vec![e])
    } else {
        e
    }
}

pub fn gen_tree(rng: &mut Rng, sink: &mut Sink) -> GTree {
    let mut cfg = GenCfg::default_cfg();
    cfg.adjacent_text = rng.chance(1, 3);
    cfg.text_max = 2;
    match rng.below(20) {
        0..=4 => {
            sink.stat("gen.document");
            gen_document(rng, &cfg)
        }
        5..=8 => {
            sink.stat("gen.fragment");
            gen_fragment(rng, &cfg)
        }
        9..=12 => {
            sink.stat("gen.unattached-element");
            gen_element(rng, &cfg, 1)
        }
        13 => {
            sink.stat("gen.unattached-leaf");
            match rng.below(3) {
                0 => GTree::leaf(GValue::Text("t".into())),
                1 => GTree::leaf(GValue::Comment("c".into())),
                _ => GTree::leaf(GValue::PI(17, None)),
            }
        }
        14 => {
            sink.stat("gen.unattached-abnormal");
            if rng.chance(1, 2) {
                GTree::leaf(GValue::Attribute(2, "v".into()))
            } else {
                GTree::leaf(GValue::Namespace(2, NS_A))
            }
        }
        15 | 16 => {
            sink.stat("gen.deep-chain");
            let d = 5 + rng.below(40);
            chain(rng, d)
        }
        17 | 18 => {
            sink.stat("gen.wide-fan");
            let w = 5 + rng.below(40);
            fan(rng, w)
        }
        _ => {
            sink.stat("gen.bushy");
            cfg.max_depth = 6;
            cfg.max_kids = 3;
            gen_document(rng, &cfg)
        }
    }
}

/// All element-rooted trees with exactly `n` nodes: up to `max_ns` namespace nodes, up to
/// `max_attr` attribute nodes, then normal children (elements, and `leaves` kinds of leaf).
fn enum_element(n: usize, leaves: usize, max_ns: usize, max_attr: usize, memo: &mut HashMap<usize, Vec<GTree>>) -> Vec<GTree> {
    if n == 0 {
        return vec![];
    }
    if let Some(v) = memo.get(&n) {
        return v.clone();
    }
    let mut out = vec![];
    for a in 0..=max_ns {
        for b in 0..=max_attr {
            if a + b > n - 1 {
                continue;
            }
            let mut head = vec![];
            for i in 0..a {
                head.push(GTree::leaf(GValue::Namespace([0usize, 2, 3][i], NS_A + i)));
            }
            for i in 0..b {
                head.push(GTree::leaf(GValue::Attribute([2usize, 3, 4][i], "v".into())));
            }
            for seq in enum_seq(n - 1 - a - b, leaves, max_ns, max_attr, memo) {
                let mut kids = head.clone();
                kids.extend(seq);
                out.push(GTree::new(GValue::Element(2), kids));
            }
        }
    }
    memo.insert(n, out.clone());
    out
}

/// All sequences of normal nodes with `m` nodes in total.
fn enum_seq(m: usize, leaves: usize, max_ns: usize, max_attr: usize, memo: &mut HashMap<usize, Vec<GTree>>) -> Vec<Vec<GTree>> {
    if m == 0 {
        return vec![vec![]];
    }
    let mut out = vec![];
    for s in 1..=m {
        let mut firsts = enum_element(s, leaves, max_ns, max_attr, memo);
        if s == 1 {
            firsts.push(GTree::leaf(GValue::Text("t".into())));
            if leaves >= 2 {
                firsts.push(GTree::leaf(GValue::Comment("c".into())));
            }
            if leaves >= 3 {
                firsts.push(GTree::leaf(GValue::PI(17, None)));
            }
        }
        let rests = enum_seq(m - s, leaves, max_ns, max_attr, memo);
        for f in &firsts {
            for r in &rests {
                let mut v = vec![f.clone()];
                v.extend(r.iter().cloned());
                out.push(v);
            }
        }
    }
    out
}

/// Every tree with exactly `n` nodes: unattached element roots and document roots.
pub fn enum_trees(n: usize, leaves: usize, max_ns: usize, max_attr: usize) -> Vec<GTree> {
    let mut memo = HashMap::new();
    let mut out = enum_element(n, leaves, max_ns, max_attr, &mut memo);
    if n >= 1 {
        for seq in enum_seq(n - 1, leaves, max_ns, max_attr, &mut memo) {
            out.push(GTree::new(GValue::Document, seq));
        }
    }
    out
}

fn corpus() -> Vec<GTree> {
    let e = |n: usize, kids: Vec<GTree>| GTree::new(GValue::Element(n), kids);
    let tx = |s: &str| GTree::leaf(GValue::Text(s.into()));
    let at = |n: usize| GTree::leaf(GValue::Attribute(n, "v".into()));
    let ns = |p: usize, n: usize| GTree::leaf(GValue::Namespace(p, n));
    vec![
        GTree::leaf(GValue::Document),
        GTree::new(GValue::Document, vec![GTree::leaf(GValue::Comment("c".into()))]),
        GTree::new(GValue::Document, vec![tx("a"), GTree::leaf(GValue::PI(17, None))]),
        // the 0.31.1 / 0.31.2 `following` regressions: children wrongly included; parent's sibling skipped
        GTree::new(GValue::Document, vec![e(2, vec![e(3, vec![e(4, vec![]), e(5, vec![])]), e(4, vec![e(2, vec![])]), e(5, vec![])])]),
        GTree::new(GValue::Document, vec![e(2, vec![e(3, vec![e(4, vec![e(5, vec![])])]), e(4, vec![])]), GTree::leaf(GValue::Comment("z".into()))]),
        e(2, vec![ns(0, NS_A), ns(2, NS_B), at(2), at(3), tx("a"), e(3, vec![at(2)]), tx("b")]),
        e(2, vec![ns(0, NS_A)]),
        e(2, vec![at(2)]),
        e(2, vec![ns(2, NS_A), at(2)]),
        GTree::new(GValue::Document, vec![e(2, vec![ns(2, NS_A), at(2), e(3, vec![ns(3, NS_B), at(3), tx("x")]), e(4, vec![at(4)])])]),
    ]
}

pub fn run(seed: u64, count: usize, tier: &str, sink: &mut Sink) {
    let mut rng = Rng::new(seed ^ 0xA7E5);
    let entries = all_entries();
    let mut fails = Failures::new();
    let per = Mode { per_entry: true, all_pairs: true };
    for t in corpus() {
        sink.stat("gen.corpus");
        run_tree(&t, &per, &mut rng, &entries, &mut fails, sink);
    }
    // exhaustive small scope
    let (full_upto, bundled): (usize, Vec<(usize, usize, usize, usize)>) = match tier {
        "thorough" | "search" => (5, vec![(6, 2, 2, 2), (7, 1, 2, 2)]),
        _ => (4, vec![]),
    };
    for n in 1..=full_upto {
        for t in enum_trees(n, 2, 2, 2) {
            sink.stat(&format!("gen.exhaustive-{}", n));
            run_tree(&t, &per, &mut rng, &entries, &mut fails, sink);
        }
    }
    let bundle = Mode { per_entry: false, all_pairs: false };
    for (n, leaves, max_ns, max_attr) in bundled {
        for t in enum_trees(n, leaves, max_ns, max_attr) {
            sink.stat(&format!("gen.exhaustive-{}", n));
            run_tree(&t, &bundle, &mut rng, &entries, &mut fails, sink);
        }
    }
    let random_mode = Mode { per_entry: true, all_pairs: false };
    for _ in 0..count {
        let t = gen_tree(&mut rng, sink);
        run_tree(&t, &random_mode, &mut rng, &entries, &mut fails, sink);
    }
    for l in &fails.lines {
        println!("{}", l);
    }
}
