//! xotharness — runs the real xot on generated cases and prints a transcript
//! (`T<TAB>request<TAB>response`), statistics (`S<TAB>key<TAB>count`) and oracle failures
//! (`F<TAB>property<TAB>json`).
mod build_bytes;
mod build_faults;
mod build_gen;
mod build_obs;
mod build_oracle;
mod build_render;
mod build_slices;
mod common;
mod strings;
mod suite_cmp;
mod suite_axes;
mod arena_obs;
mod suite_arena;
mod suite_build;
mod suite_entity;
mod suite_ffixed;
mod suite_fanyorder;
mod suite_fanyorder2;
mod suite_fanyorder3;
mod suite_fmap;
mod suite_fclone;
mod suite_fidx;
mod suite_forest;
mod suite_fcreation;
mod suite_fspec;
mod suite_rt;
mod suite_repair;
mod idmap_hist;
mod idmap_oracle;
mod suite_idmap;
mod ser_gen;
mod ser_oracle;
mod ser_outside;
mod ser_ws;
mod suite_ser;
mod suite_fws;
mod scope_dedup_class;
mod scope_names;
mod scope_oracle;
mod suite_scope;
mod suite_tree;
mod suite_validdoc;
mod html_gen;
mod html_oracle;
mod html_tok;
mod suite_html;
mod lex_layout;
mod suite_lex;
mod suite_bytes;
mod tree;

use common::Sink;

fn main() {
    // panics are expected (the calls under test are wrapped in catch_unwind); remember the last
    // message so that a panic of the HARNESS itself can be reported with the partial transcript
    if std::env::var("XOTHARNESS_SHOW_PANICS").is_err() {
        std::panic::set_hook(Box::new(|info| {
            let loc = info.location().map(|l| format!("{}:{}", l.file(), l.line())).unwrap_or_default();
            let msg = info.payload().downcast_ref::<&str>().map(|s| s.to_string()).or_else(|| info.payload().downcast_ref::<String>().cloned()).unwrap_or_default();
            LAST_PANIC.with(|p| *p.borrow_mut() = format!("{} {}", loc, msg));
        }));
    }
    let args: Vec<String> = std::env::args().collect();
    if args.len() < 5 {
        eprintln!("usage: xotharness <suite> <seed> <count> <tier>");
        std::process::exit(2);
    }
    let suite = args[1].as_str();
    let seed: u64 = args[2].parse().expect("seed");
    let count: usize = args[3].parse().expect("count");
    let tier = args[4].as_str();
    let mut sink = Sink::new();
    let run = std::panic::catch_unwind(std::panic::AssertUnwindSafe(|| match suite {
        "entity" => suite_entity::run(seed, count, tier, &mut sink),
        "tree" => suite_tree::run(seed, count, tier, &mut sink),
        "cmp" => suite_cmp::run(seed, count, tier, &mut sink),
        "forest" => suite_forest::run(seed, count, tier, &mut sink),
        "fspec" => suite_fspec::run(seed, count, tier, &mut sink),
        "rt" => suite_rt::run(seed, count, tier, &mut sink),
        "repair" => suite_repair::run(seed, count, tier, &mut sink),
        "exec-forest" => suite_forest::exec_stdin(&mut sink),
        "idmap" => suite_idmap::run(seed, count, tier, &mut sink),
        "axes" => suite_axes::run(seed, count, tier, &mut sink),
        "validdoc" => suite_validdoc::run(seed, count, tier, &mut sink),
        "arena" => suite_arena::run(seed, count, tier, &mut sink),
        "ser" => suite_ser::run(seed, count, tier, &mut sink),
        "fws" => suite_fws::run(seed, count, tier, &mut sink),
        "scope" => suite_scope::run(seed, count, tier, &mut sink),
        "ffixed" => suite_ffixed::run(seed, count, tier, &mut sink),
        "fanyorder3" => suite_fanyorder3::run(seed, count, tier, &mut sink),
        "html" => suite_html::run(seed, count, tier, &mut sink),
        "fmap" => suite_fmap::run(seed, count, tier, &mut sink),
        "build" => suite_build::run(seed, count, tier, &mut sink),
        "fclone" => suite_fclone::run(seed, count, tier, &mut sink),
        "lex" => suite_lex::run(seed, count, tier, &mut sink),
        "fidx" => suite_fidx::run(seed, count, tier, &mut sink),
        "bytes" => suite_bytes::run(seed, count, tier, &mut sink),
        _ => {
            eprintln!("unknown suite {}", suite);
            std::process::exit(2);
        }
    }));
    // what was observed up to a panic of the harness itself is still printed (requests, responses,
    // oracle failures): the implementation did something the suite was not prepared for
    sink.print();
    if run.is_err() {
        let msg = LAST_PANIC.with(|p| p.borrow().clone());
        // a panic raised inside the crate under test (or a crate it calls), on an input this
        // deterministic run generated, reached through a call the suite makes without catch_unwind
        // because the unchanged crate never panics there: a failing input for the property being
        // checked (`*`), replayed by running the same suite with the same arguments
        if !msg.starts_with("src/") {
            let loc = msg.split(' ').next().unwrap_or("").rsplit("/src/").next().unwrap_or("").to_string();
            let esc = |x: &str| x.replace('\\', "\\\\").replace('"', "\\\"").replace('\t', " ").replace('\n', " ");
            println!(
                "F\t*\t{{\"signature\": \"crate-panics:{}\", \"what\": \"the crate panicked where the unchanged crate does not: {}\", \"replay\": {{\"rerun\": \"xotharness {} {} {} {}\", \"after_transcript_lines\": {}}}}}",
                esc(&loc), esc(&msg), suite, seed, count, tier, sink.lines.len()
            );
        }
        println!("X\tharness-panic\t{}", msg.replace('\t', " ").replace('\n', " "));
        std::process::exit(3);
    }
}

thread_local! {
    static LAST_PANIC: std::cell::RefCell<String> = std::cell::RefCell::new(String::new());
}
