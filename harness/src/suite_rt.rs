//! Suite `rt` (C01 oracle, implementation only): build a representable tree through the
//! creation API, serialise with default parameters, reparse, and compare independent
//! read-backs.  Emits a few `tree echo` lines so the transcript is not empty.
use crate::common::{Rng, Sink};
use crate::tree::*;
use xot::Xot;

/// Does some element use the default-namespace binding of an ancestor while being in no
/// namespace itself? (recorded finding: serialised unprefixed, joins the default namespace)
fn no_ns_under_default(t: &GTree, vocab_ns_of_name: &dyn Fn(usize) -> usize, default: usize) -> bool {
    match &t.v {
        GValue::Element(n) => {
            let mut d = default;
            for k in &t.kids {
                if let GValue::Namespace(0, ns) = k.v {
                    d = ns;
                }
            }
            if vocab_ns_of_name(*n) == 0 && d != 0 {
                return true;
            }
            t.kids.iter().any(|k| no_ns_under_default(k, vocab_ns_of_name, d))
        }
        GValue::Document => t.kids.iter().any(|k| no_ns_under_default(k, vocab_ns_of_name, default)),
        _ => false,
    }
}

fn first_difference(a: &GTree, b: &GTree, path: &mut Vec<usize>) -> Option<String> {
    if a.v != b.v {
        let kind = match (&a.v, &b.v) {
            (GValue::Element(_), GValue::Element(_)) => "element-name",
            (GValue::Text(_), GValue::Text(_)) => "text-content",
            (GValue::Attribute(x, _), GValue::Attribute(y, _)) if x == y => "attribute-value",
            (GValue::Attribute(..), GValue::Attribute(..)) => "attribute-name-or-order",
            (GValue::Namespace(..), GValue::Namespace(..)) => "namespace-declaration",
            (GValue::Comment(_), GValue::Comment(_)) => "comment",
            (GValue::PI(..), GValue::PI(..)) => "processing-instruction",
            _ => "node-kind",
        };
        return Some(format!("{}@{}", kind, path_str(path)));
    }
    if a.kids.len() != b.kids.len() {
        return Some(format!("child-count@{}", path_str(path)));
    }
    for (i, (x, y)) in a.kids.iter().zip(b.kids.iter()).enumerate() {
        path.push(i);
        if let Some(d) = first_difference(x, y, path) {
            return Some(d);
        }
        path.pop();
    }
    None
}

fn strip_ns(t: &GTree) -> GTree {
    GTree::new(t.v.clone(), t.kids.iter().filter(|k| !matches!(k.v, GValue::Namespace(..))).map(strip_ns).collect())
}

/// declarations of `a` are a sub-sequence of those of `b`, element by element
fn decls_kept(a: &GTree, b: &GTree, ns_of_name: &dyn Fn(usize) -> usize) -> bool {
    // an element in no namespace that itself declares a default namespace cannot be written as
    // it is: that one declaration is expected to be replaced by xmlns=""
    let own_default_contradiction = |k: &GTree| match (&a.v, &k.v) {
        (GValue::Element(n), GValue::Namespace(0, ns)) => ns_of_name(*n) == 0 && *ns != 0,
        _ => false,
    };
    let da: Vec<&GValue> = a.kids.iter().filter(|k| matches!(k.v, GValue::Namespace(..)) && !own_default_contradiction(k)).map(|k| &k.v).collect();
    let db: Vec<&GValue> = b.kids.iter().filter(|k| matches!(k.v, GValue::Namespace(..))).map(|k| &k.v).collect();
    if !da.iter().all(|d| db.contains(d)) {
        return false;
    }
    let ka: Vec<&GTree> = a.kids.iter().filter(|k| k.is_normal()).collect();
    let kb: Vec<&GTree> = b.kids.iter().filter(|k| k.is_normal()).collect();
    ka.len() == kb.len() && ka.iter().zip(kb.iter()).all(|(x, y)| decls_kept(x, y, ns_of_name))
}

/// C10, second sentence: after create_missing_prefixes serialisation succeeds and reparses
/// deep-equal, no name / attribute / content changed, no declaration lost, and a second call
/// changes nothing.
fn repair_case(sink: &mut Sink, xot: &mut Xot, vocab: &mut Vocab, root: xot::Node, original: &GTree, fragment: bool) {
    let replay = vec![format!("tree {}", original.wire())];
    match crate::common::guarded(|| xot.create_missing_prefixes(root)) {
        None => {
            sink.fail("C10", "C10:create_missing_prefixes-panics", "create_missing_prefixes panicked", &replay);
            return;
        }
        Some(Err(e)) => {
            if matches!(e, xot::Error::NoElementAtTopLevel) {
                sink.stat("rt.repair-no-element");
            } else {
                sink.fail("C10", "C10:create_missing_prefixes-error", &format!("{:?}", e), &replay);
            }
            return;
        }
        Some(Ok(())) => {}
    }
    let repaired = read_tree(xot, vocab, root);
    if strip_ns(&repaired) != strip_ns(original) {
        sink.fail("C10", "C10:repair-changed-names-or-content", &format!("after repair {}", repaired.wire()), &replay);
        return;
    }
    let names: Vec<usize> = vocab.names.iter().map(|n| n.1).collect();
    let ns_of = move |n: usize| names[n];
    if !decls_kept(original, &repaired, &ns_of) {
        sink.fail("C10", "C10:repair-lost-or-altered-a-declaration", &format!("after repair {}", repaired.wire()), &replay);
        return;
    }
    let s = match xot.to_string(root) {
        Ok(s) => s,
        Err(e) => {
            sink.fail("C10", "C10:serialisation-fails-after-repair", &format!("{:?} ; after repair {}", e, repaired.wire()), &replay);
            return;
        }
    };
    let reparsed = if fragment { xot.parse_fragment(&s) } else { xot.parse(&s) };
    match reparsed {
        Err(e) => sink.fail("C10", "C10:repaired-output-rejected", &format!("{:?} for {:?}", e, s), &replay),
        Ok(r2) => {
            let back = read_tree(xot, vocab, r2);
            if back != repaired {
                let d = first_difference(&repaired, &back, &mut vec![]).unwrap_or("?".into());
                sink.fail("C10", &format!("C10:repaired-tree-reparses-differently:{}", d.split('@').next().unwrap()), &format!("{} ; output {:?}", d, s), &replay);
            } else {
                sink.stat("rt.repair-ok");
            }
        }
    }
    // a second call changes nothing
    let _ = xot.create_missing_prefixes(root);
    if read_tree(xot, vocab, root) != repaired {
        sink.fail("C10", "C10:second-repair-call-changes-the-tree", "create_missing_prefixes is not idempotent", &replay);
    }
}

pub fn one_case(rng: &mut Rng, sink: &mut Sink, emit: bool) {
    let mut xot = Xot::new();
    let mut vocab = Vocab::standard(&mut xot);
    let mut cfg = GenCfg::default_cfg();
    cfg.max_depth = 3 + rng.below(2);
    let fragment = rng.chance(1, 3);
    let mut t = if fragment { gen_fragment(rng, &cfg) } else { gen_document(rng, &cfg) };
    // give the top element(s) the standard declarations most of the time so that names resolve
    if rng.chance(3, 4) {
        for k in t.kids.iter_mut() {
            if let GValue::Element(_) = k.v {
                let have: Vec<usize> = k.kids.iter().filter_map(|c| if let GValue::Namespace(p, _) = c.v { Some(p) } else { None }).collect();
                let mut extra = vec![];
                for (p, ns) in [(2usize, NS_A), (3, NS_B), (4, NS_C)] {
                    if !have.contains(&p) {
                        extra.push(GTree::leaf(GValue::Namespace(p, ns)));
                    }
                }
                let n_ns = k.kids.iter().take_while(|c| matches!(c.v, GValue::Namespace(..))).count();
                for (i, e) in extra.into_iter().enumerate() {
                    k.kids.insert(n_ns + i, e);
                }
            }
        }
    }
    let root = match build(&mut xot, &vocab, &t, true) {
        Ok(r) => r,
        Err(_) => {
            sink.stat("rt.build-refused");
            return;
        }
    };
    let original = read_tree(&xot, &mut vocab, root);
    if emit {
        sink.emit(format!("tree echo {}", original.wire()), original.wire());
    }
    let s = match xot.to_string(root) {
        Ok(s) => s,
        Err(xot::Error::MissingPrefix(_)) => {
            sink.stat("rt.missing-prefix");
            repair_case(sink, &mut xot, &mut vocab, root, &original, fragment);
            return;
        }
        Err(e) => {
            sink.fail("C01", "C01:serialise-error", &format!("to_string failed: {:?} for {}", e, original.wire()), &[]);
            return;
        }
    };
    sink.stat(if fragment { "rt.fragment" } else { "rt.document" });
    let names: Vec<usize> = vocab.names.iter().map(|n| n.1).collect();
    let ns_of = move |n: usize| names[n];
    let known_shape = no_ns_under_default(&original, &ns_of, 0);
    let reparsed = if fragment { xot.parse_fragment(&s) } else { xot.parse(&s) };
    let replay = vec![format!("tree {}", original.wire()), format!("serialised {:?}", s)];
    match reparsed {
        Err(e) => {
            let sig = if known_shape { "C01:no-namespace-element-under-default-namespace" } else { "C01:reparse-rejected" };
            sink.fail("C01", sig, &format!("reparse failed: {:?}", e), &replay);
        }
        Ok(r2) => {
            let back = read_tree(&xot, &mut vocab, r2);
            if back != original {
                let d = first_difference(&original, &back, &mut vec![]).unwrap_or("?".into());
                let kind = d.split('@').next().unwrap().to_string();
                let sig = if known_shape && (kind == "element-name") {
                    "C01:no-namespace-element-under-default-namespace".to_string()
                } else {
                    format!("C01:reparsed-tree-differs:{}", kind)
                };
                sink.fail("C01", &sig, &format!("first difference {} ; reparsed {}", d, back.wire()), &replay);
            } else {
                sink.stat("rt.equal");
                if !xot.deep_equal(root, r2) {
                    sink.fail("C01", "C01:deep_equal-false-on-identical-readback", "deep_equal(original, reparsed) = false", &replay);
                }
            }
        }
    }
}

pub fn run(seed: u64, count: usize, _tier: &str, sink: &mut Sink) {
    let mut rng = Rng::new(seed ^ 0x0C01);
    for i in 0..count {
        one_case(&mut rng, sink, i % 50 == 0);
    }
}
