//! Suite `rt` (C01 oracle, implementation only): build a representable tree through the
//! creation API, serialise with default parameters, reparse, and compare independent
//! read-backs.  Emits a few `tree echo` lines so the transcript is not empty.
use crate::common::{Rng, Sink};
use crate::tree::*;
use xot::{Node, Xot};

/// `to_string` / `parse` of the crate under `catch_unwind`: a panic on a tree built through the public
/// API is a failure of the property with the tree as replay, not of the harness (seed C01j).
fn ser_guard(sink: &mut Sink, xot: &Xot, n: Node, wire: &str) -> Option<Result<String, xot::Error>> {
    match crate::common::guarded(|| xot.to_string(n)) {
        Some(r) => Some(r),
        None => {
            sink.fail("C01", "C01:to_string-panics", &format!("to_string panicked for {}", wire), &[format!("tree {}", wire)]);
            None
        }
    }
}
fn parse_guard(sink: &mut Sink, xot: &mut Xot, s: &str, fragment: bool, wire: &str) -> Option<Result<Node, xot::ParseError>> {
    match crate::common::guarded(|| if fragment { xot.parse_fragment(s) } else { xot.parse(s) }) {
        Some(r) => Some(r),
        None => {
            sink.fail("C01", "C01:reparse-panics", &format!("parse panicked on the serialisation {:?} of {}", s, wire), &[format!("tree {}", wire), format!("serialised {:?}", s)]);
            None
        }
    }
}

/// Does some element use the default-namespace binding of an ancestor while being in no
/// namespace itself? (recorded finding: serialised unprefixed, joins the default namespace)
fn no_ns_under_default(t: &GTree, vocab_ns_of_name: &dyn Fn(usize) -> usize, default: usize) -> bool {
    match &t.v {
        GValue::Element(n) => {
            let mut d = default;
            for k in &t.kids {
                if let GValue::Namespace(0, ns) = k.v {
                    d = ns;
                }
            }
            if vocab_ns_of_name(*n) == 0 && d != 0 {
                return true;
            }
            t.kids.iter().any(|k| no_ns_under_default(k, vocab_ns_of_name, d))
        }
        GValue::Document => t.kids.iter().any(|k| no_ns_under_default(k, vocab_ns_of_name, default)),
        _ => false,
    }
}

fn first_difference(a: &GTree, b: &GTree, path: &mut Vec<usize>) -> Option<String> {
    if a.v != b.v {
        let kind = match (&a.v, &b.v) {
            (GValue::Element(_), GValue::Element(_)) => "element-name",
            (GValue::Text(_), GValue::Text(_)) => "text-content",
            (GValue::Attribute(x, _), GValue::Attribute(y, _)) if x == y => "attribute-value",
            (GValue::Attribute(..), GValue::Attribute(..)) => "attribute-name-or-order",
            (GValue::Namespace(..), GValue::Namespace(..)) => "namespace-declaration",
            (GValue::Comment(_), GValue::Comment(_)) => "comment",
            (GValue::PI(..), GValue::PI(..)) => "processing-instruction",
            _ => "node-kind",
        };
        return Some(format!("{}@{}", kind, path_str(path)));
    }
    if a.kids.len() != b.kids.len() {
        return Some(format!("child-count@{}", path_str(path)));
    }
    for (i, (x, y)) in a.kids.iter().zip(b.kids.iter()).enumerate() {
        path.push(i);
        if let Some(d) = first_difference(x, y, path) {
            return Some(d);
        }
        path.pop();
    }
    None
}

fn strip_ns(t: &GTree) -> GTree {
    GTree::new(t.v.clone(), t.kids.iter().filter(|k| !matches!(k.v, GValue::Namespace(..))).map(strip_ns).collect())
}

/// declarations of `a` are a sub-sequence of those of `b`, element by element
fn decls_kept(a: &GTree, b: &GTree, ns_of_name: &dyn Fn(usize) -> usize) -> bool {
    // an element in no namespace that itself declares a default namespace cannot be written as
    // it is: that one declaration is expected to be replaced by xmlns=""
    let own_default_contradiction = |k: &GTree| match (&a.v, &k.v) {
        (GValue::Element(n), GValue::Namespace(0, ns)) => ns_of_name(*n) == 0 && *ns != 0,
        _ => false,
    };
    let da: Vec<&GValue> = a.kids.iter().filter(|k| matches!(k.v, GValue::Namespace(..)) && !own_default_contradiction(k)).map(|k| &k.v).collect();
    let db: Vec<&GValue> = b.kids.iter().filter(|k| matches!(k.v, GValue::Namespace(..))).map(|k| &k.v).collect();
    if !da.iter().all(|d| db.contains(d)) {
        return false;
    }
    let ka: Vec<&GTree> = a.kids.iter().filter(|k| k.is_normal()).collect();
    let kb: Vec<&GTree> = b.kids.iter().filter(|k| k.is_normal()).collect();
    ka.len() == kb.len() && ka.iter().zip(kb.iter()).all(|(x, y)| decls_kept(x, y, ns_of_name))
}

/// C10, second sentence: after create_missing_prefixes serialisation succeeds and reparses
/// deep-equal, no name / attribute / content changed, no declaration lost, and a second call
/// changes nothing.
fn repair_case(sink: &mut Sink, xot: &mut Xot, vocab: &mut Vocab, root: xot::Node, original: &GTree, fragment: bool) {
    let replay = vec![format!("tree {}", original.wire())];
    match crate::common::guarded(|| xot.create_missing_prefixes(root)) {
        None => {
            sink.fail("C10", "C10:create_missing_prefixes-panics", "create_missing_prefixes panicked", &replay);
            return;
        }
        Some(Err(e)) => {
            if matches!(e, xot::Error::NoElementAtTopLevel) {
                sink.stat("rt.repair-no-element");
            } else {
                sink.fail("C10", "C10:create_missing_prefixes-error", &format!("{:?}", e), &replay);
            }
            return;
        }
        Some(Ok(())) => {}
    }
    let repaired = read_tree(xot, vocab, root);
    if strip_ns(&repaired) != strip_ns(original) {
        sink.fail("C10", "C10:repair-changed-names-or-content", &format!("after repair {}", repaired.wire()), &replay);
        return;
    }
    let names: Vec<usize> = vocab.names.iter().map(|n| n.1).collect();
    let ns_of = move |n: usize| names[n];
    if !decls_kept(original, &repaired, &ns_of) {
        sink.fail("C10", "C10:repair-lost-or-altered-a-declaration", &format!("after repair {}", repaired.wire()), &replay);
        return;
    }
    let s = match match ser_guard(sink, xot, root, &original.wire()) { Some(r) => r, None => return } {
        Ok(s) => s,
        Err(e) => {
            sink.fail("C10", "C10:serialisation-fails-after-repair", &format!("{:?} ; after repair {}", e, repaired.wire()), &replay);
            return;
        }
    };
    let reparsed = match parse_guard(sink, xot, &s, fragment, &original.wire()) { Some(r) => r, None => return };
    match reparsed {
        Err(e) => sink.fail("C10", "C10:repaired-output-rejected", &format!("{:?} for {:?}", e, s), &replay),
        Ok(r2) => {
            let back = read_tree(xot, vocab, r2);
            if back != repaired {
                let d = first_difference(&repaired, &back, &mut vec![]).unwrap_or("?".into());
                sink.fail("C10", &format!("C10:repaired-tree-reparses-differently:{}", d.split('@').next().unwrap()), &format!("{} ; output {:?}", d, s), &replay);
            } else {
                sink.stat("rt.repair-ok");
            }
        }
    }
    // a second call changes nothing
    let _ = xot.create_missing_prefixes(root);
    if read_tree(xot, vocab, root) != repaired {
        sink.fail("C10", "C10:second-repair-call-changes-the-tree", "create_missing_prefixes is not idempotent", &replay);
    }
}

/// C01 / C10 for a start node INSIDE the tree: `to_string(inner element)` also writes the
/// declarations in scope at the element; parsing that text must give a document whose document
/// element is deep_equal to the inner element (oracle), and that document, read back, must be the
/// model's `standalone` (Model/InnerStartSpec.lean) of the original tree at the element's path
/// (correspondence request `standalone <path> <tree>`).
fn inner_case(rng: &mut Rng, sink: &mut Sink, xot: &mut Xot, vocab: &mut Vocab, root: xot::Node, original: &GTree) {
    let paths = original.paths();
    let nodes = nodes_in_order(xot, root);
    let inner: Vec<usize> = (0..paths.len())
        .filter(|&i| !paths[i].is_empty() && matches!(original.at(&paths[i]).unwrap().v, GValue::Element(_)))
        .collect();
    if inner.is_empty() {
        sink.stat("rt.inner.no-element");
        return;
    }
    for _ in 0..2 {
        let i = *rng.pick(&inner);
        let (path, node) = (&paths[i], nodes[i]);
        let replay = vec![format!("tree {}", original.wire()), format!("start {}", path_str(path))];
        let s = match crate::common::guarded(|| xot.to_string(node)) {
            None => {
                sink.fail("C01", "C01:inner-to_string-panics", "to_string(inner element) panicked", &replay);
                continue;
            }
            Some(Err(xot::Error::MissingPrefix(_))) => {
                sink.stat("rt.inner.missing-prefix");
                continue;
            }
            Some(Err(e)) => {
                sink.fail("C01", "C01:inner-serialise-error", &format!("to_string(inner) failed: {:?}", e), &replay);
                continue;
            }
            Some(Ok(s)) => s,
        };
        sink.stat(&format!("rt.inner.depth-{}", path.len()));
        match xot.parse(&s) {
            Err(e) => sink.fail("C01", "C01:inner-reparse-rejected", &format!("{:?} for {:?}", e, s), &replay),
            Ok(r2) => {
                let back = read_tree(xot, vocab, r2);
                let count_ns = |t: &GTree| t.kids.iter().filter(|k| matches!(k.v, GValue::Namespace(..))).count();
                let inherited = back.kids.first().map(count_ns).unwrap_or(0).saturating_sub(count_ns(original.at(path).unwrap()));
                sink.stat(&format!("rt.inner.inherited-{}", inherited.min(4)));
                match xot.document_element(r2) {
                    Ok(e2) if xot.deep_equal(node, e2) => sink.stat("rt.inner.deep-equal"),
                    _ => sink.fail("C01", "C01:inner-reparse-not-deep-equal", &format!("reparsed {} ; output {:?}", back.wire(), s), &replay),
                }
                sink.emit(format!("standalone {} {}", path_str(path), original.wire()), format!("ok {}", back.wire()));
            }
        }
    }
}

pub fn one_case(rng: &mut Rng, sink: &mut Sink, emit: bool) {
    let mut xot = Xot::new();
    let mut vocab = Vocab::standard(&mut xot);
    let mut cfg = GenCfg::default_cfg();
    // attributes whose LOCAL name is `xmlns` in a real namespace (written p:xmlns="…", xml:xmlns="…"):
    // ordinary attributes, not declarations (seed C01g)
    let xn_a = vocab.add_name(&mut xot, "xmlns", NS_A);
    let xn_x = vocab.add_name(&mut xot, "xmlns", 1);
    if rng.chance(1, 4) {
        cfg.attr_names.push(xn_a);
        cfg.attr_names.push(xn_a);
        cfg.attr_names.push(xn_x);
        sink.stat("rt.vocabulary-with-local-name-xmlns");
    }
    cfg.max_depth = 3 + rng.below(2);
    let fragment = rng.chance(1, 3);
    let mut t = if fragment { gen_fragment(rng, &cfg) } else { gen_document(rng, &cfg) };
    // give the top element(s) the standard declarations most of the time so that names resolve
    if rng.chance(3, 4) {
        for k in t.kids.iter_mut() {
            if let GValue::Element(_) = k.v {
                let have: Vec<usize> = k.kids.iter().filter_map(|c| if let GValue::Namespace(p, _) = c.v { Some(p) } else { None }).collect();
                let mut extra = vec![];
                for (p, ns) in [(2usize, NS_A), (3, NS_B), (4, NS_C)] {
                    if !have.contains(&p) {
                        extra.push(GTree::leaf(GValue::Namespace(p, ns)));
                    }
                }
                let n_ns = k.kids.iter().take_while(|c| matches!(c.v, GValue::Namespace(..))).count();
                for (i, e) in extra.into_iter().enumerate() {
                    k.kids.insert(n_ns + i, e);
                }
            }
        }
    }
    let root = match build(&mut xot, &vocab, &t, true) {
        Ok(r) => r,
        Err(_) => {
            sink.stat("rt.build-refused");
            return;
        }
    };
    let original = read_tree(&xot, &mut vocab, root);
    if emit {
        sink.emit(format!("tree echo {}", original.wire()), original.wire());
    }
    // specification side of C01 (Model/SerTokens.lean): every generated tree is in the
    // round-trip domain, and the canonical token rendering is what to_string returns
    sink.emit(vocab.wire(), "ok".to_string());
    sink.emit(format!("representable {} {}", if fragment { 1 } else { 0 }, original.wire()), "true".to_string());
    let rendered = match match ser_guard(sink, &xot, root, &original.wire()) { Some(r) => r, None => return } {
        Ok(s) => format!("ok {}", crate::common::enc(&s)),
        Err(e) => crate::suite_ser::err_str(&e),
    };
    sink.emit(format!("sertokens {}", original.wire()), rendered);
    inner_case(rng, sink, &mut xot, &mut vocab, root, &original);
    let s = match match ser_guard(sink, &xot, root, &original.wire()) { Some(r) => r, None => return } {
        Ok(s) => s,
        Err(xot::Error::MissingPrefix(_)) => {
            sink.stat("rt.missing-prefix");
            repair_case(sink, &mut xot, &mut vocab, root, &original, fragment);
            return;
        }
        Err(e) => {
            sink.fail("C01", "C01:serialise-error", &format!("to_string failed: {:?} for {}", e, original.wire()), &[]);
            return;
        }
    };
    sink.stat(if fragment { "rt.fragment" } else { "rt.document" });
    let names: Vec<usize> = vocab.names.iter().map(|n| n.1).collect();
    let ns_of = move |n: usize| names[n];
    let known_shape = no_ns_under_default(&original, &ns_of, 0);
    let reparsed = match parse_guard(sink, &mut xot, &s, fragment, &original.wire()) { Some(r) => r, None => return };
    let replay = vec![format!("tree {}", original.wire()), format!("serialised {:?}", s)];
    match reparsed {
        Err(e) => {
            let sig = if known_shape { "C01:no-namespace-element-under-default-namespace" } else { "C01:reparse-rejected" };
            sink.fail("C01", sig, &format!("reparse failed: {:?}", e), &replay);
        }
        Ok(r2) => {
            let back = read_tree(&xot, &mut vocab, r2);
            if back != original {
                let d = first_difference(&original, &back, &mut vec![]).unwrap_or("?".into());
                let kind = d.split('@').next().unwrap().to_string();
                let sig = if known_shape && (kind == "element-name") {
                    "C01:no-namespace-element-under-default-namespace".to_string()
                } else {
                    format!("C01:reparsed-tree-differs:{}", kind)
                };
                sink.fail("C01", &sig, &format!("first difference {} ; reparsed {}", d, back.wire()), &replay);
            } else {
                sink.stat("rt.equal");
                if !xot.deep_equal(root, r2) {
                    sink.fail("C01", "C01:deep_equal-false-on-identical-readback", "deep_equal(original, reparsed) = false", &replay);
                }
            }
        }
    }
}

/// A text made of the pieces that matter for `serialize_cdata` / `serialize_text(unescaped_gt)`: `]`, `]]`,
/// `]]>`, `>` next to each other in every order (so that `]]` | `>` and `]` | `]>` fall on the borders of
/// the pieces), CR (written as `&#xD;` BETWEEN two sections), the characters escaped in text but not in a
/// section (`&`, `<`), ordinary letters.
fn border_text(rng: &mut Rng) -> String {
    const PIECES: [&str; 19] = ["]", "]]", "]]>", ">", "]>", "]]]", "]]]]>", ">>", "a", "b c", "\r", "\r\n", "&", "<", "]]>]]>", "\n", "<![CDATA[", "<![CDATA[]]>", "&#xD;"];
    let n = 1 + rng.below(5);
    let mut s = String::new();
    for _ in 0..n {
        let piece: &str = *rng.pick(&PIECES[..]);
        s.push_str(piece);
    }
    s
}

fn retext(rng: &mut Rng, t: &mut GTree, listed: &[usize], under_listed: bool, sink: &mut Sink) {
    if let GValue::Text(s) = &mut t.v {
        if rng.chance(3, 4) {
            *s = border_text(rng);
        }
        if s.contains("]]>") {
            sink.stat(if under_listed { "rt.params.text-with-cdata-end.listed" } else { "rt.params.text-with-cdata-end.unlisted" });
        }
        if s.contains('\r') && under_listed {
            sink.stat("rt.params.text-with-cr.listed");
        }
        return;
    }
    let here = matches!(&t.v, GValue::Element(n) if listed.contains(n));
    // an element whose content does not end with a text node gets one half of the time
    if matches!(t.v, GValue::Element(_)) && !matches!(t.kids.last(), Some(k) if matches!(k.v, GValue::Text(_))) && rng.chance(1, 2) {
        t.kids.push(GTree::leaf(GValue::Text("x".to_string())));
    }
    for k in t.kids.iter_mut() {
        retext(rng, k, listed, here, sink);
    }
}

/// C01 under NON-DEFAULT token parameters (`cdata_section_elements`, `unescaped_gt`): serialise with them,
/// parse the output back, compare the independent read-backs (oracle `C01:params-roundtrip-differs`), and give
/// the model the same closed loop (request `paramrt <cdata> <gt> <frag> <tree>`: the string written and the
/// tree it parses to).  Own generator stream, own `Xot`: the other cases of the suite are not disturbed.
fn params_case(rng: &mut Rng, sink: &mut Sink) {
    let mut xot = Xot::new();
    let mut vocab = Vocab::standard(&mut xot);
    let mut cfg = GenCfg::default_cfg();
    cfg.max_depth = 2 + rng.below(3);
    let fragment = rng.chance(1, 3);
    let mut t = if fragment { gen_fragment(rng, &cfg) } else { gen_document(rng, &cfg) };
    for k in t.kids.iter_mut() {
        if let GValue::Element(_) = k.v {
            let have: Vec<usize> = k.kids.iter().filter_map(|c| if let GValue::Namespace(p, _) = c.v { Some(p) } else { None }).collect();
            let mut at = 0;
            for (p, ns) in [(2usize, NS_A), (3, NS_B), (4, NS_C)] {
                if !have.contains(&p) {
                    k.kids.insert(at, GTree::leaf(GValue::Namespace(p, ns)));
                    at += 1;
                }
            }
        }
    }
    // most of the time no default-namespace declarations: they are what makes names unwritable
    fn drop_default_ns(t: &mut GTree) {
        t.kids.retain(|k| !matches!(k.v, GValue::Namespace(0, _)));
        for k in t.kids.iter_mut() {
            drop_default_ns(k);
        }
    }
    if rng.chance(3, 4) {
        drop_default_ns(&mut t);
    }
    // the parameter set: never the default one
    let mut listed: Vec<usize> = match rng.below(4) {
        0 => vec![],
        1 => cfg.elem_names.clone(),
        _ => cfg.elem_names.iter().copied().filter(|_| rng.chance(1, 2)).collect(),
    };
    let gt = if listed.is_empty() { true } else { rng.chance(1, 2) };
    if rng.chance(1, 8) {
        listed.push(15); // an attribute name: never the name of an element here
    }
    retext(rng, &mut t, &listed, false, sink);
    let root = match build(&mut xot, &vocab, &t, true) {
        Ok(r) => r,
        Err(_) => {
            sink.stat("rt.params.build-refused");
            return;
        }
    };
    // names without a usable prefix: let the crate repair the tree (C10), so that most cases serialise
    if matches!(xot.to_string(root), Err(xot::Error::MissingPrefix(_))) && rng.chance(5, 6) {
        if let Some(Ok(())) = crate::common::guarded(|| xot.create_missing_prefixes(root)) {
            sink.stat("rt.params.prefixes-created");
        }
    }
    let original = read_tree(&xot, &mut vocab, root);
    let ids = if listed.is_empty() { "-".to_string() } else { listed.iter().map(|i| i.to_string()).collect::<Vec<_>>().join(",") };
    let request = format!("paramrt {} {} {} {}", ids, gt as u8, fragment as u8, original.wire());
    let params = xot::output::xml::Parameters {
        cdata_section_elements: listed.iter().map(|i| vocab.name(*i)).collect(),
        unescaped_gt: gt,
        ..Default::default()
    };
    sink.emit(vocab.wire(), "ok".to_string());
    let replay0 = vec![format!("tree {}", original.wire()), format!("cdata_section_elements {}", ids), format!("unescaped_gt {}", gt)];
    let s = match crate::common::guarded(|| xot.serialize_xml_string(params.clone(), root)) {
        None => {
            sink.emit(request, "panic".to_string());
            sink.fail("C01", "C01:params-serialisation-panics", "serialize_xml_string panicked", &replay0);
            return;
        }
        Some(Err(e)) => {
            sink.emit(request, crate::suite_ser::err_str(&e));
            if matches!(e, xot::Error::MissingPrefix(_)) {
                sink.stat("rt.params.missing-prefix");
            } else {
                sink.fail("C01", "C01:params-serialise-error", &format!("serialize_xml_string failed: {:?}", e), &replay0);
            }
            return;
        }
        Some(Ok(s)) => s,
    };
    sink.stat(&format!("rt.params.{}.gt-{}", if listed.is_empty() { "no-cdata-elements" } else { "cdata-elements" }, gt as u8));
    let sections = s.matches("<![CDATA[").count();
    sink.stat(&format!("rt.params.sections.{}", match sections { 0 => "0", 1 => "1", 2..=4 => "2-4", _ => "5+" }));
    if s.contains("]]>&#xD;<![CDATA[") {
        sink.stat("rt.params.cr-between-sections");
    }
    if s.contains("]]]]><![CDATA[>") {
        sink.stat("rt.params.section-split-inside-cdata-end");
    }
    if s.contains("]]&gt;") {
        sink.stat("rt.params.gt-escaped-after-brackets");
    }
    if gt && s.replace("]]>", "").contains('>') {
        sink.stat("rt.params.raw-gt");
    }
    let mut replay = replay0.clone();
    replay.push(format!("serialised {:?}", s));
    let reparsed = crate::common::guarded(|| if fragment { xot.parse_fragment(&s) } else { xot.parse(&s) });
    match reparsed {
        None => {
            sink.emit(request, format!("ok {} panic", crate::common::enc(&s)));
            sink.fail("C01", "C01:params-roundtrip-differs", "the parser panics on the output", &replay);
        }
        Some(Err(e)) => {
            sink.emit(request, format!("ok {} rejected", crate::common::enc(&s)));
            sink.fail("C01", "C01:params-roundtrip-differs", &format!("the output does not parse: {:?}", e), &replay);
        }
        Some(Ok(r2)) => {
            let back = read_tree(&xot, &mut vocab, r2);
            sink.emit(request, format!("ok {} {}", crate::common::enc(&s), back.wire()));
            if back != original {
                let d = first_difference(&original, &back, &mut vec![]).unwrap_or("?".into());
                sink.fail("C01", "C01:params-roundtrip-differs", &format!("first difference {} ; reparsed {}", d, back.wire()), &replay);
            } else if !xot.deep_equal(root, r2) {
                sink.fail("C01", "C01:params-roundtrip-differs", "deep_equal(original, reparsed) = false on identical read-backs", &replay);
            } else {
                sink.stat("rt.params.equal");
            }
        }
    }
}

fn at_mut<'a>(t: &'a mut GTree, p: &[usize]) -> &'a mut GTree {
    let mut cur = t;
    for &i in p {
        cur = &mut cur.kids[i];
    }
    cur
}

fn paths_where(t: &GTree, pred: &dyn Fn(&GTree) -> bool) -> Vec<Vec<usize>> {
    t.paths().into_iter().filter(|p| pred(t.at(p).unwrap())).collect()
}

/// The xmlns namespace name is registered right after the standard vocabulary in `mutated_case`.
const XMLNS_NS: usize = 8;

/// One mutation that takes a generated tree out of the round-trip domain; `None` if the tree
/// offers no place for it.
fn mutate(rng: &mut Rng, t: &mut GTree, fragment: bool) -> Option<&'static str> {
    let is_el = |n: &GTree| matches!(n.v, GValue::Element(_));
    let holders: Vec<Vec<usize>> = if fragment {
        paths_where(t, &|n| matches!(n.v, GValue::Element(_) | GValue::Document))
    } else {
        paths_where(t, &is_el)
    };
    if holders.is_empty() {
        return None;
    }
    match rng.below(12) {
        0 => {
            // an empty text node
            let texts = paths_where(t, &|n| matches!(n.v, GValue::Text(_)));
            if !texts.is_empty() && rng.chance(1, 2) {
                let p = rng.pick(&texts).clone();
                at_mut(t, &p).v = GValue::Text(String::new());
            } else {
                let p = rng.pick(&holders).clone();
                at_mut(t, &p).kids.push(GTree::leaf(GValue::Text(String::new())));
            }
            Some("empty-text")
        }
        1 => {
            // two adjacent text nodes
            let p = rng.pick(&holders).clone();
            let h = at_mut(t, &p);
            h.kids.push(GTree::leaf(GValue::Text("a".to_string())));
            h.kids.push(GTree::leaf(GValue::Text("b".to_string())));
            Some("adjacent-text")
        }
        2 => {
            let p = rng.pick(&holders).clone();
            let c = rng.pick(&["a--b", "a-", "-", "--"]).to_string();
            at_mut(t, &p).kids.push(GTree::leaf(GValue::Comment(c)));
            Some("comment-dashes")
        }
        3 => {
            let p = rng.pick(&holders).clone();
            let d = rng.pick(&[" d", "", "a?>b", "\td"]).to_string();
            at_mut(t, &p).kids.push(GTree::leaf(GValue::PI(17, Some(d))));
            Some("pi-data")
        }
        4 => {
            // a character outside the XML Char production
            let c = *rng.pick(&['\u{1}', '\u{b}', '\u{fffe}', '\u{ffff}', '\u{0}']);
            let texts = paths_where(t, &|n| matches!(n.v, GValue::Text(_) | GValue::Attribute(..) | GValue::Comment(_)));
            let texts: Vec<Vec<usize>> = texts.into_iter().filter(|p| !matches!(t.at(p).unwrap().v, GValue::Attribute(1, _))).collect();
            if texts.is_empty() {
                return None;
            }
            let p = rng.pick(&texts).clone();
            match &mut at_mut(t, &p).v {
                GValue::Text(s) | GValue::Attribute(_, s) | GValue::Comment(s) => s.push(c),
                _ => {}
            }
            Some("non-xml-char")
        }
        5 => {
            // a declaration that binds the XML namespace: never written
            let els = paths_where(t, &is_el);
            if els.is_empty() {
                return None;
            }
            let p = rng.pick(&els).clone();
            let e = at_mut(t, &p);
            if e.kids.iter().any(|k| matches!(k.v, GValue::Namespace(3, _))) {
                return None;
            }
            e.kids.insert(0, GTree::leaf(GValue::Namespace(3, 1)));
            Some("xml-namespace-declared")
        }
        6 => {
            // xml:id not normalised, or used twice
            let els = paths_where(t, &|n| matches!(n.v, GValue::Element(_)) && !n.kids.iter().any(|k| matches!(k.v, GValue::Attribute(1, _))));
            if els.is_empty() {
                return None;
            }
            let put = |e: &mut GTree, v: &str| {
                let at = e.kids.iter().take_while(|k| matches!(k.v, GValue::Namespace(..))).count();
                e.kids.insert(at, GTree::leaf(GValue::Attribute(1, v.to_string())));
            };
            if els.len() >= 2 && rng.chance(1, 2) {
                // later node first: inserting a child shifts the paths below the earlier one
                put(at_mut(t, &els[1]), "dup");
                put(at_mut(t, &els[0]), "dup");
                Some("xml-id-twice")
            } else {
                let p = rng.pick(&els).clone();
                let v: &str = *rng.pick(&[" a", "a ", "a  b", "a\tb"]);
                put(at_mut(t, &p), v);
                Some("xml-id-not-normalised")
            }
        }
        7 => {
            if fragment {
                return None;
            }
            match rng.below(3) {
                0 => t.kids.push(GTree::leaf(GValue::Text("x".to_string()))),
                1 => t.kids.push(GTree::leaf(GValue::Element(2))),
                _ => t.kids.retain(|k| !matches!(k.v, GValue::Element(_))),
            }
            Some("document-top-level")
        }
        8 => {
            // a CR in a comment is written as it is and read back as LF (XML 1.0 section 2.11)
            let p = rng.pick(&holders).clone();
            let c = rng.pick(&["a\rb", "\r", "a\r\nb", "\r\n", "x\r"]).to_string();
            at_mut(t, &p).kids.push(GTree::leaf(GValue::Comment(c)));
            Some("comment-cr")
        }
        9 => {
            // the same in PI data
            let p = rng.pick(&holders).clone();
            let d = rng.pick(&["a\rb", "d\r", "a\r\nb", "x\r\n", "x\r\r"]).to_string();
            at_mut(t, &p).kids.push(GTree::leaf(GValue::PI(17, Some(d))));
            Some("pi-data-cr")
        }
        10 => {
            // a declaration the parser rejects (InvalidNamespaceDeclaration): a prefix bound to the
            // xmlns namespace name (namespace 8, registered by `mutated_case`) or to the empty name
            let els = paths_where(t, &is_el);
            if els.is_empty() {
                return None;
            }
            let p = rng.pick(&els).clone();
            let (prefix, ns, kind) = *rng.pick(&[(5usize, XMLNS_NS, "xmlns-namespace-declared"), (0, XMLNS_NS, "xmlns-namespace-declared"), (5, 0, "prefix-bound-to-empty-uri"), (6, 0, "prefix-bound-to-empty-uri")]);
            let e = at_mut(t, &p);
            if e.kids.iter().any(|k| matches!(k.v, GValue::Namespace(q, _) if q == prefix)) {
                return None;
            }
            e.kids.insert(0, GTree::leaf(GValue::Namespace(prefix, ns)));
            Some(kind)
        }
        _ => {
            // an attribute or a child of a leaf kind: not buildable / not a sound tree
            let cs = paths_where(t, &|n| matches!(n.v, GValue::Comment(_)));
            if cs.is_empty() {
                return None;
            }
            let p = rng.pick(&cs).clone();
            at_mut(t, &p).kids.push(GTree::leaf(GValue::Text("x".to_string())));
            Some("child-of-comment")
        }
    }
}

/// A tree one step outside the round-trip domain: the model's `Representable` must agree with
/// what the implementation does (serialise, reparse, compare the read-backs).
fn mutated_case(rng: &mut Rng, sink: &mut Sink) {
    let mut xot = Xot::new();
    let mut vocab = Vocab::standard(&mut xot);
    assert_eq!(vocab.add_ns(&mut xot, "http://www.w3.org/2000/xmlns/"), XMLNS_NS);
    let built_with = vocab.wire();
    let mut cfg = GenCfg::default_cfg();
    cfg.max_depth = 2 + rng.below(2);
    let fragment = rng.chance(1, 3);
    let mut t = if fragment { gen_fragment(rng, &cfg) } else { gen_document(rng, &cfg) };
    for k in t.kids.iter_mut() {
        if let GValue::Element(_) = k.v {
            let have: Vec<usize> = k.kids.iter().filter_map(|c| if let GValue::Namespace(p, _) = c.v { Some(p) } else { None }).collect();
            let mut at = 0;
            for (p, ns) in [(2usize, NS_A), (3, NS_B), (4, NS_C)] {
                if !have.contains(&p) {
                    k.kids.insert(at, GTree::leaf(GValue::Namespace(p, ns)));
                    at += 1;
                }
            }
        }
    }
    let kind = match mutate(rng, &mut t, fragment) {
        Some(k) => k,
        None => {
            sink.stat("rt.mutation-not-applicable");
            return;
        }
    };
    let root = match crate::common::guarded(|| build(&mut xot, &vocab, &t, true)) {
        Some(Ok(r)) => r,
        _ => {
            sink.stat(&format!("rt.mutated.{}.build-refused", kind));
            return;
        }
    };
    let original = read_tree(&xot, &mut vocab, root);
    let s = match match ser_guard(sink, &xot, root, &original.wire()) { Some(r) => r, None => return } {
        Ok(s) => s,
        Err(_) => {
            sink.stat(&format!("rt.mutated.{}.serialise-refused", kind));
            return;
        }
    };
    let reparsed = match parse_guard(sink, &mut xot, &s, fragment, &original.wire()) { Some(r) => r, None => return };
    let same = match reparsed {
        Err(_) => false,
        Ok(r2) => read_tree(&xot, &mut vocab, r2) == original,
    };
    sink.stat(&format!("rt.mutated.{}.{}", kind, if same { "round-trips" } else { "lost" }));
    // the vocabulary as it was when the tree was built (the reparse may have interned more)
    sink.emit(built_with, "ok".to_string());
    sink.emit(format!("representable {} {}", if fragment { 1 } else { 0 }, original.wire()), if same { "true" } else { "false" }.to_string());
}

/// Attribute names whose prefix and local name run into each other when the colon is dropped
/// (`a:bc` next to `ab:c` next to `abc`): distinct qualified names on one element (seed C01k: a
/// duplicate test keyed by prefix + local name without the colon).  Implementation-only oracle.
fn name_collision_cases(rng: &mut Rng, sink: &mut Sink, n: usize) {
    const POOL: [&str; 7] = ["a", "ab", "abc", "b", "bc", "c", "ca"];
    for _ in 0..n {
        let mut xot = Xot::new();
        let root = xot.add_name("r");
        let e = xot.new_element(root);
        let mut prefixes: Vec<&str> = vec![];
        for p in POOL.iter() {
            if rng.chance(1, 2) {
                prefixes.push(p);
            }
        }
        for (i, p) in prefixes.iter().enumerate() {
            let pid = xot.add_prefix(p);
            let ns = xot.add_namespace(&format!("urn:n{}", i));
            xot.namespaces_mut(e).insert(pid, ns);
        }
        let mut seen: Vec<(usize, &str)> = vec![];
        for _ in 0..(2 + rng.below(4)) {
            let l = *rng.pick(&POOL);
            let pi = if prefixes.is_empty() || rng.chance(1, 3) { usize::MAX } else { rng.below(prefixes.len()) };
            if seen.contains(&(pi, l)) {
                continue;
            }
            seen.push((pi, l));
            let name = if pi == usize::MAX {
                xot.add_name(l)
            } else {
                let ns = xot.add_namespace(&format!("urn:n{}", pi));
                xot.add_name_ns(l, ns)
            };
            xot.attributes_mut(e).insert(name, "v".to_string());
        }
        let doc = xot.new_document_with_element(e).unwrap();
        sink.stat("rt.name-collision.cases");
        let what = format!("attributes {:?} with prefixes {:?}", seen.iter().map(|(p, l)| if *p == usize::MAX { l.to_string() } else { format!("{}:{}", prefixes[*p], l) }).collect::<Vec<_>>(), prefixes);
        let s = match crate::common::guarded(|| xot.to_string(doc)) {
            Some(Ok(s)) => s,
            other => {
                sink.fail("C01", "C01:serialise-error", &format!("to_string of an element with {} gave {:?}", what, other.map(|r| r.err())), &[what.clone()]);
                continue;
            }
        };
        match crate::common::guarded(|| xot.parse(&s)) {
            Some(Ok(d2)) => {
                if !xot.deep_equal(doc, d2) {
                    sink.fail("C01", "C01:reparse-differs", &format!("`{}` reparses to a tree that is not deep_equal", s), &[what.clone(), s.clone()]);
                }
            }
            Some(Err(e)) => sink.fail("C01", "C01:reparse-rejected", &format!("`{}` (serialisation of an element with {}) is refused: {:?}", s, what, e), &[what.clone(), s.clone()]),
            None => sink.fail("C01", "C01:reparse-panics", &format!("parse of `{}` panicked", s), &[what.clone(), s.clone()]),
        }
    }
}

pub fn run(seed: u64, count: usize, _tier: &str, sink: &mut Sink) {
    {
        let mut rng = Rng::new(seed ^ 0xC011);
        name_collision_cases(&mut rng, sink, if _tier == "quick" { 150 } else { 3000 });
    }
    let mut rng = Rng::new(seed ^ 0x0C01);
    // own stream for the parameter cases: the cases above are the ones they were
    let mut prng = Rng::new(seed ^ 0xC01_CDA7A);
    for i in 0..count {
        one_case(&mut rng, sink, i % 50 == 0);
        if i % 4 == 0 {
            mutated_case(&mut rng, sink);
        }
        if i % 2 == 0 {
            params_case(&mut prng, sink);
        }
    }
}
