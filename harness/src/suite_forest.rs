//! Suite `forest`: histories of mutating calls on a real Xot; after every call the whole
//! forest is read back through the public API and dumped with canonical labels.
//! Oracles (implementation only): structural validity after every call (C04), no panic and
//! no change on Err (C06), read-only and mutable map views agree (C11).
use crate::common::{enc, guarded, Rng, Sink};
use crate::tree::*;
use std::collections::HashMap;
use xot::{Error, Node, NodeEdge, Value, Xot};

pub struct Session {
    pub xot: Xot,
    pub vocab: Vocab,
    pub nodes: Vec<Node>,
    pub label: HashMap<Node, usize>,
    pub ever_off: bool,
    pub cons_on: bool,
    pub history: Vec<String>,
    /// the parent links of the real forest form a cycle: nothing traverses it any more
    pub cyclic: bool,
}

fn res_str(r: Option<Result<(), Error>>) -> String {
    match r {
        None => "panic".into(),
        Some(Ok(())) => "ok".into(),
        Some(Err(e)) => err_str(&e),
    }
}

pub fn err_str(e: &Error) -> String {
    match e {
        Error::InvalidOperation(_) => "err:InvalidOperation".into(),
        Error::NodeError(_) => "err:NodeError".into(),
        Error::InvalidComment(_) => "err:InvalidComment".into(),
        Error::NotElement(_) => "err:NotElement".into(),
        _ => "err:Other".into(),
    }
}

impl Session {
    pub fn new() -> Self {
        let mut xot = Xot::new();
        let vocab = Vocab::standard(&mut xot);
        Session { xot, vocab, nodes: vec![], label: HashMap::new(), ever_off: false, cons_on: true, history: vec![], cyclic: false }
    }

    /// consolidation is on unless a `cons 0` request switched it off (tracked by the session)
    pub fn xot_consolidation(&self) -> bool {
        self.cons_on
    }

    pub fn live(&self) -> Vec<usize> {
        if self.cyclic {
            // every generator loop ends when nothing is live
            return vec![];
        }
        (0..self.nodes.len()).filter(|&l| !self.xot.is_removed(self.nodes[l])).collect()
    }

    /// Does walking up from some known node fail to reach a root within as many steps as there are
    /// nodes?  (C04: "parent, child and sibling relations are mutually consistent and acyclic";
    /// seed C04g.)  Uses `parent` only, so it terminates on any store.
    fn detect_cycle(&self) -> bool {
        let bound = self.xot_node_bound();
        for &n in &self.nodes {
            if self.xot.is_removed(n) {
                continue;
            }
            let mut cur = n;
            let mut steps = 0usize;
            while let Some(p) = self.xot.parent(cur) {
                cur = p;
                steps += 1;
                if steps > bound {
                    return true;
                }
            }
        }
        false
    }

    fn xot_node_bound(&self) -> usize {
        // nodes the session knows plus a generous allowance for nodes created inside calls
        4 * self.nodes.len() + 64
    }

    fn ordered_roots(&self, extra: Option<Node>) -> Vec<Node> {
        let mut labelled: Vec<(usize, Node)> = vec![];
        let mut unlabelled: Vec<Node> = vec![];
        let mut seen: Vec<Node> = vec![];
        let mut consider = |n: Node, me: &Session, labelled: &mut Vec<(usize, Node)>, unlabelled: &mut Vec<Node>| {
            if me.xot.is_removed(n) {
                return;
            }
            let r = me.xot.root(n);
            if seen.contains(&r) {
                return;
            }
            seen.push(r);
            match me.label.get(&r) {
                Some(&l) => labelled.push((l, r)),
                None => unlabelled.push(r),
            }
        };
        for l in 0..self.nodes.len() {
            consider(self.nodes[l], self, &mut labelled, &mut unlabelled);
        }
        if let Some(n) = extra {
            consider(n, self, &mut labelled, &mut unlabelled);
        }
        labelled.sort_by_key(|(l, _)| *l);
        let mut out: Vec<Node> = labelled.into_iter().map(|(_, n)| n).collect();
        out.extend(unlabelled);
        out
    }

    pub fn relabel(&mut self, extra: Option<Node>) {
        for r in self.ordered_roots(extra) {
            let ns: Vec<Node> = self
                .xot
                .all_traverse(r)
                .filter_map(|e| if let NodeEdge::Start(n) = e { Some(n) } else { None })
                .collect();
            for n in ns {
                if !self.label.contains_key(&n) {
                    self.label.insert(n, self.nodes.len());
                    self.nodes.push(n);
                }
            }
        }
    }

    fn value_wire(&mut self, n: Node) -> String {
        let v = read_value(&self.xot, &mut self.vocab, n);
        GTree::leaf(v).wire()
    }

    pub fn dump(&mut self) -> String {
        if self.cyclic {
            return "CORRUPT".into();
        }
        let mut parts = vec![];
        for r in self.ordered_roots(None) {
            let edges: Vec<NodeEdge> = self.xot.all_traverse(r).collect();
            let mut s = String::from("R");
            let mut first_kid: Vec<bool> = vec![];
            for e in edges {
                match e {
                    NodeEdge::Start(n) => {
                        if let Some(f) = first_kid.last_mut() {
                            if *f {
                                s.push_str(" [");
                                *f = false;
                            }
                        }
                        let l = self.label.get(&n).map(|l| l.to_string()).unwrap_or("?".into());
                        s.push(' ');
                        s.push_str(&l);
                        s.push(' ');
                        s.push_str(&self.value_wire(n));
                        first_kid.push(true);
                    }
                    NodeEdge::End(_) => {
                        let had_no_kids = first_kid.pop().unwrap();
                        if !had_no_kids {
                            s.push_str(" ]");
                        }
                    }
                }
            }
            parts.push(s);
        }
        parts.join(" ")
    }

    pub fn removed(&self) -> String {
        (0..self.nodes.len())
            .filter(|&l| self.xot.is_removed(self.nodes[l]))
            .map(|l| l.to_string())
            .collect::<Vec<_>>()
            .join(" ")
    }

    /// `create_missing_prefixes` registers the prefixes n0, n1, … it needs, in this order; make the
    /// vocabulary know every one of them (ids are dense, registration order = numeric order).
    pub fn sync_generated_prefixes(&mut self) {
        for k in 0.. {
            match self.xot.prefix(&format!("n{}", k)) {
                Some(id) => { self.vocab.sync_prefix(&self.xot, id); }
                None => break,
            }
        }
    }

    pub fn emit(&mut self, sink: &mut Sink, req: String, resp: String) {
        self.history.push(format!("{} -> {}", req, resp));
        sink.emit(format!("forest {}", req), resp);
    }

    /// Execute one request on the real Xot; returns the response.
    pub fn exec(&mut self, sink: &mut Sink, req: &str) -> String {
        if self.cyclic {
            // the store is beyond repair; answer what the model's corrupt sink answers to reads and
            // leave everything else alone
            let resp = match req.split(' ').next().unwrap_or("") {
                "dump" => "CORRUPT".to_string(),
                "inv" => "0".to_string(),
                _ => "cyclic-store".to_string(),
            };
            self.emit(sink, req.to_string(), resp.clone());
            return resp;
        }
        self.exec_inner(sink, req)
    }

    fn exec_inner(&mut self, sink: &mut Sink, req: &str) -> String {
        let w: Vec<&str> = req.split(' ').collect();
        let n = |s: &Session, i: usize| s.nodes[w[i].parse::<usize>().unwrap()];
        let mut returned: Option<Node> = None;
        // a move that asks for the position the node already occupies changes nothing (C05; seed C05j)
        let noop_before: Option<String> = if matches!(w[0], "append" | "prepend" | "insert_after" | "insert_before") {
            let (a, b) = (n(self, 1), n(self, 2));
            let live = !self.xot.is_removed(a) && !self.xot.is_removed(b);
            let already = live
                && match w[0] {
                    "append" => self.xot.last_child(a) == Some(b),
                    "prepend" => self.xot.first_child(a) == Some(b),
                    "insert_after" => self.xot.next_sibling(a) == Some(b),
                    _ => self.xot.previous_sibling(a) == Some(b),
                };
            if already { Some(self.dump()) } else { None }
        } else {
            None
        };
        let any_append_of_text = w[0] == "any_append" && !self.xot.is_removed(n(self, 2)) && self.xot.is_text(n(self, 2));
        // remove destroys exactly the targeted subtree (C05; seed C05k): every node of it, entry nodes included
        let doomed: Vec<Node> = if w[0] == "remove" && !self.xot.is_removed(n(self, 1)) {
            let a = n(self, 1);
            self.xot.all_descendants(a).collect()
        } else {
            vec![]
        };
        let resp: String = match w[0] {
            "reset" => "ok".into(),
            "cons" => {
                let b = w[1] == "1";
                self.xot.set_text_consolidation(b);
                self.cons_on = b;
                if !b {
                    self.ever_off = true;
                }
                "ok".into()
            }
            "new" => {
                let t = parse_value(&w[1..]);
                let node = new_node(&mut self.xot, &self.vocab, &t);
                returned = Some(node);
                "NEW".into()
            }
            "append" => { let (a, b) = (n(self, 1), n(self, 2)); res_str(guarded(|| self.xot.append(a, b))) }
            "prepend" => { let (a, b) = (n(self, 1), n(self, 2)); res_str(guarded(|| self.xot.prepend(a, b))) }
            "insert_after" => { let (a, b) = (n(self, 1), n(self, 2)); res_str(guarded(|| self.xot.insert_after(a, b))) }
            "insert_before" => { let (a, b) = (n(self, 1), n(self, 2)); res_str(guarded(|| self.xot.insert_before(a, b))) }
            "detach" => { let a = n(self, 1); res_str(guarded(|| self.xot.detach(a))) }
            "remove" => { let a = n(self, 1); res_str(guarded(|| self.xot.remove(a))) }
            "replace" => { let (a, b) = (n(self, 1), n(self, 2)); res_str(guarded(|| self.xot.replace(a, b))) }
            "unwrap" => { let a = n(self, 1); res_str(guarded(|| self.xot.element_unwrap(a))) }
            "wrap" => {
                let a = n(self, 1);
                let name = self.vocab.name(w[2].parse().unwrap());
                match guarded(|| self.xot.element_wrap(a, name)) {
                    None => "panic".into(),
                    Some(Ok(wr)) => { returned = Some(wr); "NEW".into() }
                    Some(Err(e)) => err_str(&e),
                }
            }
            "clone" => {
                let a = n(self, 1);
                match guarded(|| self.xot.clone_node(a)) {
                    None => "panic".into(),
                    Some(c) => { returned = Some(c); "NEW".into() }
                }
            }
            "any_append" | "append_attr_node" | "append_ns_node" => {
                let (a, b) = (n(self, 1), n(self, 2));
                let r = match w[0] {
                    "any_append" => guarded(|| self.xot.any_append(a, b)),
                    "append_attr_node" => guarded(|| self.xot.append_attribute_node(a, b)),
                    _ => guarded(|| self.xot.append_namespace_node(a, b)),
                };
                match r {
                    None => "panic".into(),
                    Some(Ok(x)) => { returned = Some(x); "NEW".into() }
                    Some(Err(e)) => err_str(&e),
                }
            }
            "map_insert" => {
                let a = n(self, 2);
                let k: usize = w[3].parse().unwrap();
                if w[1] == "attr" {
                    let name = self.vocab.name(k);
                    let v = crate::common::dec(w[4]).unwrap();
                    match guarded(|| { self.xot.attributes_mut(a).insert(name, v); }) { None => "panic".into(), Some(()) => "ok".into() }
                } else {
                    let p = self.vocab.prefix(k);
                    let ns = self.vocab.ns(w[4].parse().unwrap());
                    match guarded(|| { self.xot.namespaces_mut(a).insert(p, ns); }) { None => "panic".into(), Some(()) => "ok".into() }
                }
            }
            "map_remove" => {
                let a = n(self, 2);
                let k: usize = w[3].parse().unwrap();
                if w[1] == "attr" {
                    let name = self.vocab.name(k);
                    match guarded(|| { self.xot.attributes_mut(a).remove(name); }) { None => "panic".into(), Some(()) => "ok".into() }
                } else {
                    let p = self.vocab.prefix(k);
                    match guarded(|| { self.xot.namespaces_mut(a).remove(p); }) { None => "panic".into(), Some(()) => "ok".into() }
                }
            }
            "map_clear" => {
                let a = n(self, 2);
                if w[1] == "attr" {
                    match guarded(|| { self.xot.attributes_mut(a).clear(); }) { None => "panic".into(), Some(()) => "ok".into() }
                } else {
                    match guarded(|| { self.xot.namespaces_mut(a).clear(); }) { None => "panic".into(), Some(()) => "ok".into() }
                }
            }
            "map_read" => {
                let a = n(self, 2);
                self.map_read(sink, w[1] == "attr", a)
            }
            "set_name" => {
                let a = n(self, 1);
                let name = self.vocab.name(w[2].parse().unwrap());
                match guarded(|| self.xot.set_element_name(a, name)) { None => "panic".into(), Some(()) => "ok".into() }
            }
            "set_text" => {
                let a = n(self, 1);
                let v = crate::common::dec(w[2]).unwrap();
                match guarded(|| match self.xot.text_mut(a) { Some(t) => { t.set(v); true } None => false }) {
                    None => "panic".into(), Some(true) => "ok".into(), Some(false) => "err:InvalidOperation".into() }
            }
            "set_comment" => {
                let a = n(self, 1);
                let v = crate::common::dec(w[2]).unwrap();
                match guarded(|| match self.xot.comment_mut(a) { Some(c) => Some(c.set(v)), None => None }) {
                    None => "panic".into(),
                    Some(None) => "err:InvalidOperation".into(),
                    Some(Some(Ok(()))) => "ok".into(),
                    Some(Some(Err(e))) => err_str(&e),
                }
            }
            "set_pi_data" => {
                let a = n(self, 1);
                let v = if w[2] == "-" { None } else { Some(crate::common::dec(w[2]).unwrap()) };
                match guarded(|| match self.xot.processing_instruction_mut(a) { Some(p) => { p.set_data(v); true } None => false }) {
                    None => "panic".into(), Some(true) => "ok".into(), Some(false) => "err:InvalidOperation".into() }
            }
            "text_content_set" => {
                let a = n(self, 1);
                let v = crate::common::dec(w[2]).unwrap();
                match guarded(|| match self.xot.text_content_mut(a) { Some(t) => { t.set(v); true } None => false }) {
                    None => "panic".into(), Some(true) => "ok".into(), Some(false) => "err:InvalidOperation".into() }
            }
            "strip_ws" => {
                let a = n(self, 1);
                match guarded(|| self.xot.remove_insignificant_whitespace(a)) { None => "panic".into(), Some(()) => "ok".into() }
            }
            "create_missing_prefixes" => {
                let a = n(self, 1);
                let r = guarded(|| self.xot.create_missing_prefixes(a));
                self.sync_generated_prefixes();
                match r { None => "panic".into(), Some(Ok(())) => "ok".into(), Some(Err(e)) => err_str(&e) }
            }
            "dedup" => {
                let a = n(self, 1);
                match guarded(|| self.xot.deduplicate_namespaces(a)) { None => "panic".into(), Some(()) => "ok".into() }
            }
            "dump" => self.dump(),
            "inv" => if self.validate().is_none() { "1".into() } else { "0".into() },
            "removed" => self.removed(),
            // the convenience functions and setters of suite_fcreation.rs
            _ => match crate::suite_fcreation::exec_creation(self, &w) {
                Some((r, ret)) => { returned = ret; r }
                None => panic!("unknown request {}", req),
            },
        };
        // an accepted update of one entry of an attribute / namespace view reads back (C11: the views are
        // maps; C05: the update touches exactly that entry) -- implementation-only oracle (seed C11j)
        if (resp == "ok" || resp == "NEW") && matches!(w[0], "append_namespace" | "set_namespace" | "set_attribute" | "remove_namespace" | "remove_attribute" | "map_insert" | "map_remove") {
            let num = |i: usize| w[i].parse::<usize>().unwrap();
            let (e, ki, vi, is_attr, removes) = match w[0] {
                "append_namespace" | "set_namespace" => (n(self, 1), 2, 3, false, false),
                "remove_namespace" => (n(self, 1), 2, 0, false, true),
                "set_attribute" => (n(self, 1), 2, 3, true, false),
                "remove_attribute" => (n(self, 1), 2, 0, true, true),
                "map_insert" => (n(self, 2), 3, 4, w[1] == "attr", false),
                _ => (n(self, 2), 3, 0, w[1] == "attr", true),
            };
            if !self.xot.is_removed(e) && self.xot.is_element(e) {
                let got: Option<String> = if is_attr {
                    self.xot.attributes(e).get(self.vocab.name(num(ki))).map(|v| format!("{:?}", v))
                } else {
                    self.xot.namespaces(e).get(self.vocab.prefix(num(ki))).map(|v| crate::tree::ns_num(*v).to_string())
                };
                let want: Option<String> = if removes { None } else if is_attr { Some(format!("{:?}", crate::common::dec(w[vi]).unwrap())) } else { Some(num(vi).to_string()) };
                sink.stat("oracle.entry-reads-back");
                if got != want {
                    sink.fail("C11", &format!("C11:{}:entry-does-not-read-back", w[0]), &format!("{} answered {} but the view reads {:?} for that key (expected {:?})", req, resp, got, want), &self.history);
                }
            }
        }
        if !doomed.is_empty() && resp == "ok" {
            sink.stat("oracle.remove-destroys-subtree");
            let survivors = doomed.iter().filter(|d| !self.xot.is_removed(**d)).count();
            if survivors > 0 {
                sink.fail("C05", "C05:remove:node-of-the-removed-subtree-survives", &format!("{} answered ok but {} of the {} nodes of the subtree (attribute and namespace nodes included) are still live", req, survivors, doomed.len()), &self.history);
            }
        }
        if let Some(before) = noop_before {
            sink.stat("oracle.noop-move");
            if resp == "ok" && !self.detect_cycle() {
                let after = self.dump();
                if after != before {
                    sink.fail("C05", &format!("C05:{}:noop-move-changes-the-forest", w[0]), &format!("{}: the node already stands at the requested position, the call answers ok, but the forest `{}` became `{}`", req, before, after), &self.history);
                }
            }
        }
        // nothing below may walk a store whose parent links form a cycle
        if !matches!(w[0], "dump" | "inv" | "removed" | "map_read" | "reset" | "cons" | "new") && self.detect_cycle() {
            self.cyclic = true;
            sink.fail("C04", &format!("C04:{}:parent-links-form-a-cycle", w[0]), &format!("after {} (answer {}): walking up the parent links from a live node never reaches a root", req, resp), &self.history);
            self.emit(sink, req.to_string(), resp.clone());
            return resp;
        }
        // no removed node is ever handed out (C04; seed C04l: an entry node re-appended to its own element
        // was removed and returned)
        if let Some(r) = returned {
            sink.stat("oracle.returned-node-live");
            if self.xot.is_removed(r) {
                if any_append_of_text {
                    // recorded finding: any_append returns its argument although consolidation merged it away
                    sink.fail("C04", "C04:any_append:returns-the-text-node-that-consolidation-merged-away", &format!("{} answered ok and returned the text node it was given, which consolidation merged into the preceding text node and removed", req), &self.history);
                } else {
                    sink.fail("C04", &format!("C04:{}:hands-out-a-removed-node", w[0]), &format!("{} answered ok and returned a node that is removed", req), &self.history);
                }
            }
        }
        self.relabel(returned);
        let resp = if resp == "NEW" {
            format!("ok {}", self.label[&returned.unwrap()])
        } else {
            resp
        };
        self.emit(sink, req.to_string(), resp.clone());
        resp
    }

    /// Both views of a node map; emits an F line if they disagree (C11).
    fn map_read(&mut self, sink: &mut Sink, attr: bool, a: Node) -> String {
        if !self.xot.is_element(a) {
            return "n=0 e=1 ".into();
        }
        let (ro, mu) = if attr {
            let m = self.xot.attributes(a);
            let items: Vec<(xot::NameId, String)> = m.iter().map(|(k, v)| (k, v.clone())).collect();
            let ro = (m.len(), m.is_empty(), items.clone(), m.keys().collect::<Vec<_>>() == items.iter().map(|x| x.0).collect::<Vec<_>>()
                && m.values().cloned().collect::<Vec<_>>() == items.iter().map(|x| x.1.clone()).collect::<Vec<_>>()
                && m.to_vec() == items
                && items.iter().all(|(k, v)| m.get(*k) == Some(v) && m.contains_key(*k) && m.get_node(*k).is_some())
                && m.nodes().count() == items.len()
                && m.to_hashmap().len() == items.iter().map(|x| x.0).collect::<std::collections::HashSet<_>>().len());
            let m = self.xot.attributes_mut(a);
            let items2: Vec<(xot::NameId, String)> = m.iter().map(|(k, v)| (k, v.clone())).collect();
            let mu = (m.len(), m.is_empty(), items2.clone(), m.keys().collect::<Vec<_>>() == items2.iter().map(|x| x.0).collect::<Vec<_>>()
                && m.to_vec() == items2
                && items2.iter().all(|(k, v)| m.get(*k) == Some(v) && m.contains_key(*k) && m.get_node(*k).is_some()));
            let f = |x: &(usize, bool, Vec<(xot::NameId, String)>, bool)| {
                format!("n={} e={} {}", x.0, if x.1 { 1 } else { 0 }, x.2.iter().map(|(k, v)| format!("{}:{}", name_num(*k), enc(v))).collect::<Vec<_>>().join(" "))
            };
            ((f(&ro), ro.3), (f(&mu), mu.3))
        } else {
            let m = self.xot.namespaces(a);
            let items: Vec<(xot::PrefixId, xot::NamespaceId)> = m.iter().map(|(k, v)| (k, *v)).collect();
            let ro = (m.len(), m.is_empty(), items.clone(), m.keys().collect::<Vec<_>>() == items.iter().map(|x| x.0).collect::<Vec<_>>()
                && m.to_vec() == items
                && items.iter().all(|(k, _)| m.contains_key(*k) && m.get_node(*k).is_some()));
            let m = self.xot.namespaces_mut(a);
            let items2: Vec<(xot::PrefixId, xot::NamespaceId)> = m.iter().map(|(k, v)| (k, *v)).collect();
            let mu = (m.len(), m.is_empty(), items2.clone(), m.to_vec() == items2);
            let f = |x: &(usize, bool, Vec<(xot::PrefixId, xot::NamespaceId)>, bool)| {
                format!("n={} e={} {}", x.0, if x.1 { 1 } else { 0 }, x.2.iter().map(|(k, v)| format!("{}:{}", prefix_num(*k), ns_num(*v))).collect::<Vec<_>>().join(" "))
            };
            ((f(&ro), ro.3), (f(&mu), mu.3))
        };
        if !attr {
            // serialisation writes every entry of the namespace view, also when the element is the top
            // node (C11; seed C11l: an own `xmlns=""` dropped from the start tag of a top element)
            let decls: Vec<(String, String, bool)> = {
                let x = &self.xot;
                x.namespaces(a).iter().map(|(p, n)| (x.prefix_str(p).to_string(), x.namespace_str(*n).to_string(), *n == x.xml_namespace())).collect()
            };
            if let Some(Ok(text)) = guarded(|| self.xot.to_string(a)) {
                // the start tag ends at the first `>` outside a quoted attribute value
                let mut in_q = false;
                let mut end = text.len();
                for (i, c) in text.char_indices() {
                    if c == '"' {
                        in_q = !in_q;
                    } else if c == '>' && !in_q {
                        end = i;
                        break;
                    }
                }
                let tag = &text[..end];
                sink.stat("oracle.start-tag-has-view-entries");
                for (p, u, is_xml) in decls {
                    if is_xml || u.chars().any(|c| matches!(c, '&' | '<' | '>' | '"' | '\'' | '\t' | '\n' | '\r')) {
                        continue;
                    }
                    let lit = if p.is_empty() { format!(" xmlns=\"{}\"", u) } else { format!(" xmlns:{}=\"{}\"", p, u) };
                    if !tag.contains(&lit) {
                        sink.fail("C11", "C11:declaration-of-the-view-missing-from-the-start-tag", &format!("to_string(element) = `{}`: the start tag lacks{} although the namespace view of the element holds that entry", text, lit), &self.history);
                    }
                }
            }
        }
        if ro.0 != mu.0 || !ro.1 || !mu.1 {
            sink.fail("C11", "C11:views-disagree", &format!("read-only view `{}` vs mutable view `{}` (self-consistent: {} {})", ro.0, mu.0, ro.1, mu.1), &self.history);
        }
        ro.0
    }

    // ---------------------------------------------------------------------------------------
    // C04 oracle: structural validity of everything reachable

    pub fn validate(&self) -> Option<String> {
        if self.cyclic {
            return Some("parent links form a cycle".into());
        }
        for r in self.ordered_roots(None) {
            if self.xot.parent(r).is_some() {
                return Some("root has a parent".into());
            }
            let nodes = nodes_in_order(&self.xot, r);
            for &nd in &nodes {
                if self.xot.is_removed(nd) {
                    return Some("removed node reachable".into());
                }
                let v = self.xot.value(nd);
                // raw children through the edges
                let kids: Vec<Node> = raw_children(&self.xot, nd);
                let is_elem = matches!(v, Value::Element(_));
                let is_doc = matches!(v, Value::Document);
                if is_doc && nd != r {
                    return Some("document node below a root".into());
                }
                if !is_elem && !is_doc && !kids.is_empty() {
                    return Some("leaf node has children".into());
                }
                let mut stage = 0; // 0 ns, 1 attr, 2 normal
                let mut seen_pref = vec![];
                let mut seen_attr = vec![];
                let mut last_text = false;
                for &k in &kids {
                    if self.xot.parent(k) != Some(nd) {
                        return Some("child's parent link differs".into());
                    }
                    let s = match self.xot.value(k) {
                        Value::Namespace(n) => {
                            if seen_pref.contains(&n.prefix()) { return Some("prefix declared twice on one element".into()); }
                            seen_pref.push(n.prefix());
                            0
                        }
                        Value::Attribute(a) => {
                            if seen_attr.contains(&a.name()) { return Some("attribute name twice on one element".into()); }
                            seen_attr.push(a.name());
                            1
                        }
                        _ => 2,
                    };
                    if s < 2 && !is_elem {
                        return Some("attribute/namespace node under non-element".into());
                    }
                    if s < stage {
                        return Some("children not ordered namespaces, attributes, normal".into());
                    }
                    stage = s;
                    let is_text = matches!(self.xot.value(k), Value::Text(_));
                    if is_text && last_text && !self.ever_off {
                        return Some("adjacent text nodes".into());
                    }
                    last_text = is_text;
                }
                // navigation consistency
                let normal: Vec<Node> = kids.iter().copied().filter(|k| self.xot.value(*k).value_type() != xot::ValueType::Attribute && self.xot.value(*k).value_type() != xot::ValueType::Namespace).collect();
                if self.xot.children(nd).collect::<Vec<_>>() != normal && stage_ok(&self.xot, &kids) {
                    return Some("children() differs from the normal raw children".into());
                }
            }
        }
        None
    }
}

fn stage_ok(_xot: &Xot, _kids: &[Node]) -> bool {
    true
}

pub fn raw_children(xot: &Xot, nd: Node) -> Vec<Node> {
    let mut depth = 0;
    let mut out = vec![];
    for e in xot.all_traverse(nd) {
        match e {
            NodeEdge::Start(n) => {
                if depth == 1 {
                    out.push(n);
                }
                depth += 1;
            }
            NodeEdge::End(_) => depth -= 1,
        }
    }
    out
}

pub fn parse_value(w: &[&str]) -> GValue {
    match w[0] {
        "D" => GValue::Document,
        "E" => GValue::Element(w[1].parse().unwrap()),
        "T" => GValue::Text(crate::common::dec(w[1]).unwrap()),
        "C" => GValue::Comment(crate::common::dec(w[1]).unwrap()),
        "P" => GValue::PI(w[1].parse().unwrap(), if w[2] == "-" { None } else { Some(crate::common::dec(w[2]).unwrap()) }),
        "A" => GValue::Attribute(w[1].parse().unwrap(), crate::common::dec(w[2]).unwrap()),
        "N" => GValue::Namespace(w[1].parse().unwrap(), w[2].parse().unwrap()),
        _ => panic!("bad value"),
    }
}

/// Emit the requests that build `t` (creation + any_append), returns the root's label.
pub fn build_ops(s: &mut Session, sink: &mut Sink, t: &GTree) -> usize {
    let r = s.exec(sink, &format!("new {}", GTree::leaf(t.v.clone()).wire()));
    let root: usize = r[3..].parse().unwrap();
    for k in &t.kids {
        let kl = build_ops(s, sink, k);
        s.exec(sink, &format!("any_append {} {}", root, kl));
    }
    root
}

const OPS: &[(&str, usize)] = &[
    ("append", 10), ("prepend", 8), ("insert_after", 10), ("insert_before", 10), ("detach", 5), ("remove", 5),
    ("replace", 6), ("unwrap", 5), ("wrap", 5), ("clone", 4), ("any_append", 5), ("append_attr_node", 2),
    ("append_ns_node", 2), ("map_insert", 6), ("map_remove", 4), ("map_clear", 1), ("set_name", 2), ("set_text", 3),
    ("set_comment", 2), ("set_pi_data", 2), ("text_content_set", 3), ("strip_ws", 2), ("new", 8), ("cons", 1),
    ("create_missing_prefixes", 4), ("dedup", 4),
];

fn pick_op(rng: &mut Rng) -> &'static str {
    let total: usize = OPS.iter().chain(crate::suite_fcreation::OPS.iter()).map(|o| o.1).sum();
    let mut x = rng.below(total);
    for (n, w) in OPS.iter().chain(crate::suite_fcreation::OPS.iter()) {
        if x < *w {
            return n;
        }
        x -= w;
    }
    unreachable!()
}

fn small_text(rng: &mut Rng) -> String {
    rng.pick(&["x", "y", " ", "\n ", "ab", "", "", "", "z-", "--", "\u{a0}", "]]", ">"]).to_string()
}

fn gen_value(rng: &mut Rng) -> GValue {
    match rng.below(12) {
        0..=3 => GValue::Element(*rng.pick(&[2usize, 3, 6, 9])),
        4..=6 => GValue::Text(small_text(rng)),
        7 => GValue::Comment(rng.pick(&["c", "", "d"]).to_string()),
        8 => GValue::PI(17, if rng.chance(1, 2) { None } else { Some("d".into()) }),
        9 => GValue::Attribute(*rng.pick(&[2usize, 3, 0, 6]), small_text(rng)),
        10 => GValue::Namespace(*rng.pick(&[0usize, 2, 3]), *rng.pick(&[0usize, 2, 3])),
        _ => GValue::Document,
    }
}

/// The implementation-side oracles after one call (`before` / `after`: the dumps around it):
/// no panic (C06), nothing changed on Err (C06), structural validity (C04).  false = stop.
fn oracles(s: &mut Session, sink: &mut Sink, op: &str, req: &str, resp: &str, before: &str, after: &str) -> bool {
    // element-only accessors panic on non-elements: documented
    let documented_panic = matches!(op, "map_insert" | "map_remove" | "map_clear" | "set_name") || crate::suite_fcreation::documented_panic(op);
    if resp == "panic" && !documented_panic {
        sink.fail("C06", &format!("C06:{}-panics", op), &format!("{} panicked", req), &s.history);
        return false; // state after a panic is not meaningful
    }
    if resp == "panic" {
        return false;
    }
    if resp.starts_with("err:") && after != before {
        sink.fail("C06", &format!("C06:{}-err-not-atomic", op), &format!("{} returned {} but the forest changed", req, resp), &s.history);
    }
    s.exec(sink, "inv");
    if let Some(why) = s.validate() {
        sink.fail("C04", &format!("C04:{}:{}", op, why), &format!("after {}: {}", req, why), &s.history);
        return false;
    }
    // map law (C11), implementation only: a key that was just set is in the element's own view
    // with that value, a key that was just removed is not — whatever the element inherits from its
    // ancestors (seed C11f: set_namespace skipped the insertion when the binding was in scope)
    if resp == "ok" {
        let w: Vec<&str> = req.split(' ').collect();
        let node = |i: usize| w.get(i).and_then(|x| x.parse::<usize>().ok()).and_then(|l| s.nodes.get(l).copied());
        let num = |i: usize| w.get(i).and_then(|x| x.parse::<usize>().ok());
        let bad: Option<String> = match (w[0], node(1)) {
            ("set_namespace", Some(e)) => match (num(2), num(3)) {
                (Some(p), Some(n)) if s.xot.is_element(e) => {
                    let got = s.xot.namespaces(e).get(s.vocab.prefix(p)).copied();
                    if got != Some(s.vocab.ns(n)) { Some(format!("namespaces(e).get(prefix) = {:?}", got)) } else { None }
                }
                _ => None,
            },
            ("remove_namespace", Some(e)) => match num(2) {
                Some(p) if s.xot.is_element(e) => {
                    if s.xot.namespaces(e).contains_key(s.vocab.prefix(p)) { Some("the prefix is still declared on the element".to_string()) } else { None }
                }
                _ => None,
            },
            ("set_attribute", Some(e)) => match (num(2), w.get(3).and_then(|x| crate::common::dec(x))) {
                (Some(k), Some(v)) if s.xot.is_element(e) => {
                    let got = s.xot.attributes(e).get(s.vocab.name(k)).cloned();
                    if got.as_deref() != Some(v.as_str()) { Some(format!("attributes(e).get(name) = {:?}", got)) } else { None }
                }
                _ => None,
            },
            ("remove_attribute", Some(e)) => match num(2) {
                Some(k) if s.xot.is_element(e) => {
                    if s.xot.attributes(e).contains_key(s.vocab.name(k)) { Some("the attribute is still there".to_string()) } else { None }
                }
                _ => None,
            },
            _ => None,
        };
        match bad {
            Some(why) => sink.fail("C11", &format!("C11:{}:key-not-as-set", w[0]), &format!("after {}: {}", req, why), &s.history),
            None => {
                if matches!(w[0], "set_namespace" | "remove_namespace" | "set_attribute" | "remove_attribute") {
                    sink.stat("oracle.C11.key-as-set");
                }
            }
        }
    }
    true
}

/// Directed small scope for the calls of suite_fcreation.rs: every such call on every node of a
/// few mixed-content forests (`<a>x<b/>y</a>` …: the element handed to
/// `new_document_with_element` sits between two text nodes).
pub fn directed_creation(sink: &mut Sink) {
    for forest in crate::suite_fcreation::directed_forests() {
        let n: usize = forest.iter().map(|t| t.size()).sum();
        for a in 0..n {
            for req in crate::suite_fcreation::directed_reqs(a) {
                let mut s = Session::new();
                s.exec(sink, "reset");
                for t in &forest {
                    build_ops(&mut s, sink, t);
                }
                let before = s.dump();
                let op = req.split(' ').next().unwrap().to_string();
                sink.stat("creation.directed.cases");
                if let Some(k) = crate::suite_fcreation::classify(&s, &req) {
                    sink.stat(&format!("creation.{}", k));
                }
                let resp = s.exec(sink, &req);
                sink.stat(&format!("resp.{}", resp.split(' ').next().unwrap()));
                let after = s.exec(sink, "dump");
                if oracles(&mut s, sink, &op, &req, &resp, &before, &after) {
                    s.exec(sink, "removed");
                }
            }
        }
    }
}

pub fn one_history(rng: &mut Rng, sink: &mut Sink, n_ops: usize, allow_cons_off: bool) {
    let mut s = Session::new();
    s.exec(sink, "reset");
    let mut cfg = GenCfg::default_cfg();
    cfg.max_depth = 3;
    cfg.max_kids = 3;
    cfg.text_max = 2;
    for _ in 0..(1 + rng.below(2)) {
        let t = match rng.below(3) {
            0 => gen_document(rng, &cfg),
            1 => gen_fragment(rng, &cfg),
            _ => gen_element(rng, &cfg, 1),
        };
        build_ops(&mut s, sink, &t);
    }
    if rng.chance(1, 2) {
        // a mixed-content element: text, element, text, comment, text …
        let mut kids = vec![];
        for i in 0..(3 + rng.below(4)) {
            if i % 2 == 0 {
                // sometimes an EMPTY text node (new_text("") is legal): the merge helpers must cope
                if rng.chance(1, 4) {
                    kids.push(GTree::leaf(GValue::Text(String::new())));
                } else {
                    kids.push(GTree::leaf(GValue::Text(small_text(rng).chars().chain("t".chars()).collect())));
                }
            } else if rng.chance(2, 3) {
                kids.push(GTree::new(GValue::Element(*rng.pick(&[2usize, 3])), vec![]));
            } else {
                kids.push(GTree::leaf(GValue::Comment("c".into())));
            }
        }
        build_ops(&mut s, sink, &GTree::new(GValue::Element(4), kids));
    }
    let mut before = s.dump();
    for _ in 0..n_ops {
        let live = s.live();
        if live.is_empty() {
            break;
        }
        let mut op = pick_op(rng);
        let mut a = *rng.pick(&live);
        let mut b = *rng.pick(&live);
        // bias: nodes sitting between two text nodes are where consolidation matters
        let between: Vec<usize> = live
            .iter()
            .copied()
            .filter(|&l| {
                let n = s.nodes[l];
                match (s.xot.previous_sibling(n), s.xot.next_sibling(n)) {
                    (Some(p), Some(q)) => s.xot.is_text(p) && s.xot.is_text(q),
                    _ => false,
                }
            })
            .collect();
        if !between.is_empty() && rng.chance(1, 3) {
            b = *rng.pick(&between);
            op = *rng.pick(&["append", "prepend", "insert_after", "insert_before", "replace", "detach", "remove", "unwrap", "wrap", "new_doc_with", "new_doc_with", "new_doc_with"]);
            // often relative to one of its own text neighbours (which the old-place merge touches)
            if rng.chance(1, 2) {
                let n = s.nodes[b];
                let nb = if rng.chance(1, 2) { s.xot.next_sibling(n) } else { s.xot.previous_sibling(n) };
                if let Some(nb) = nb {
                    if let Some(i) = s.nodes.iter().position(|x| *x == nb) {
                        a = i;
                    }
                }
            }
        }
        let elems: Vec<usize> = live.iter().copied().filter(|&l| s.xot.is_element(s.nodes[l])).collect();
        let e = if elems.is_empty() || rng.chance(1, 8) { a } else { *rng.pick(&elems) };
        let req = match op {
            "append" | "prepend" | "any_append" => format!("{} {} {}", op, if rng.chance(3, 4) { e } else { a }, b),
            "insert_after" | "insert_before" | "replace" => format!("{} {} {}", op, a, b),
            "append_attr_node" | "append_ns_node" => format!("{} {} {}", op, e, b),
            "detach" | "remove" | "unwrap" => format!("{} {}", op, b),
            "clone" | "strip_ws" => format!("{} {}", op, a),
            "create_missing_prefixes" | "dedup" => {
                // both read names and namespaces: the model needs the current vocabulary
                s.dump();
                sink.emit(s.vocab.wire(), "ok".to_string());
                format!("{} {}", op, if rng.chance(3, 4) { e } else { a })
            }
            "wrap" => format!("wrap {} {}", b, rng.pick(&[2usize, 6])),
            "map_insert" => {
                if rng.chance(1, 2) {
                    format!("map_insert attr {} {} {}", e, rng.pick(&[2usize, 3, 0, 6]), enc(&small_text(rng)))
                } else {
                    format!("map_insert ns {} {} {}", e, rng.pick(&[0usize, 2, 3]), rng.pick(&[0usize, 2, 3]))
                }
            }
            "map_remove" => {
                if rng.chance(1, 2) { format!("map_remove attr {} {}", e, rng.pick(&[2usize, 3, 0, 6])) } else { format!("map_remove ns {} {}", e, rng.pick(&[0usize, 2, 3])) }
            }
            "map_clear" => format!("map_clear {} {}", if rng.chance(1, 2) { "attr" } else { "ns" }, e),
            "set_name" => format!("set_name {} {}", e, rng.pick(&[2usize, 6, 9])),
            "set_text" => format!("set_text {} {}", a, enc(&small_text(rng))),
            "set_comment" => format!("set_comment {} {}", a, enc(&small_text(rng))),
            "set_pi_data" => format!("set_pi_data {} {}", a, if rng.chance(1, 3) { "-".to_string() } else { enc(&small_text(rng)) }),
            "text_content_set" => format!("text_content_set {} {}", e, enc(&small_text(rng))),
            "new" => format!("new {}", GTree::leaf(gen_value(rng)).wire()),
            "cons" => {
                if !allow_cons_off { continue; }
                format!("cons {}", rng.below(2))
            }
            // `b` is a node between two text nodes when the bias above chose the operation
            "new_doc_with" if between.contains(&b) && s.xot.is_element(s.nodes[b]) => format!("new_doc_with {}", b),
            _ if crate::suite_fcreation::is_creation_op(op) => crate::suite_fcreation::gen_req(op, rng, &s, &live),
            _ => unreachable!(),
        };
        sink.stat(&format!("op.{}", op));
        if let Some(k) = crate::suite_fcreation::classify(&s, &req) {
            sink.stat(&format!("creation.{}", k));
        }
        let resp = s.exec(sink, &req);
        sink.stat(&format!("resp.{}", resp.split(' ').next().unwrap()));
        let after = s.exec(sink, "dump");
        if !oracles(&mut s, sink, op, &req, &resp, &before, &after) {
            return;
        }
        if rng.chance(1, 4) {
            s.exec(sink, "removed");
        }
        if rng.chance(1, 3) && !elems.is_empty() {
            let l = *rng.pick(&elems);
            if !s.xot.is_removed(s.nodes[l]) {
                s.exec(sink, &format!("map_read {} {}", if rng.chance(1, 2) { "attr" } else { "ns" }, l));
            }
        }
        before = after;
    }
}

/// Forests that hold a RUN of adjacent text nodes while consolidation is on (built with it off,
/// then switched on), and moves of the run's own members relative to their parent and to each
/// other: consolidating the place a text node leaves can remove the very neighbour or last child
/// the call is about to use (seed C06f: `append(parent, middle text)` with a cached last child).
pub fn adjacent_text_history(rng: &mut Rng, sink: &mut Sink, n_ops: usize) {
    let mut s = Session::new();
    s.exec(sink, "reset");
    s.exec(sink, "cons 0");
    let mut kids = vec![];
    let lead = rng.below(3);
    for i in 0..lead {
        kids.push(if i % 2 == 0 { GTree::new(GValue::Element(3), vec![]) } else { GTree::leaf(GValue::Comment("c".into())) });
    }
    for i in 0..(3 + rng.below(3)) {
        kids.push(GTree::leaf(GValue::Text(format!("{}", (b'a' + i as u8) as char))));
    }
    if rng.chance(1, 2) {
        kids.push(GTree::new(GValue::Element(2), vec![]));
        if rng.chance(1, 2) {
            kids.push(GTree::leaf(GValue::Text("z".into())));
            kids.push(GTree::leaf(GValue::Text("y".into())));
        }
    }
    let parent = build_ops(&mut s, sink, &GTree::new(GValue::Element(4), kids));
    if rng.chance(1, 2) {
        build_ops(&mut s, sink, &GTree::new(GValue::Element(2), vec![GTree::leaf(GValue::Text("q".into()))]));
    }
    s.exec(sink, "cons 1");
    sink.stat("family.adjacent-text-run");
    let mut before = s.exec(sink, "dump");
    for _ in 0..n_ops {
        let live = s.live();
        let texts: Vec<usize> = live.iter().copied().filter(|&l| s.xot.is_text(s.nodes[l])).collect();
        if texts.is_empty() {
            break;
        }
        let b = *rng.pick(&texts);
        let a = if rng.chance(2, 3) { *rng.pick(&texts) } else { *rng.pick(&live) };
        let own_parent = s.xot.parent(s.nodes[b]).and_then(|p| s.nodes.iter().position(|x| *x == p)).unwrap_or(parent);
        let op = *rng.pick(&["append", "append", "prepend", "any_append", "insert_after", "insert_before", "replace", "detach", "remove", "wrap"]);
        let req = match op {
            "append" | "prepend" | "any_append" => format!("{} {} {}", op, if rng.chance(3, 4) { own_parent } else { a }, b),
            "insert_after" | "insert_before" | "replace" => format!("{} {} {}", op, a, b),
            "wrap" => format!("wrap {} 2", b),
            _ => format!("{} {}", op, b),
        };
        sink.stat(&format!("op.{}", op));
        let resp = s.exec(sink, &req);
        sink.stat(&format!("resp.{}", resp.split(' ').next().unwrap()));
        let after = s.exec(sink, "dump");
        if !oracles(&mut s, sink, op, &req, &resp, &before, &after) {
            return;
        }
        before = after;
    }
}

pub fn run(seed: u64, count: usize, tier: &str, sink: &mut Sink) {
    let mut rng = Rng::new(seed ^ 0xF0E5);
    let n_ops = if tier == "quick" { 25 } else { 60 };
    directed_creation(sink);
    for i in 0..count {
        one_history(&mut rng, sink, n_ops, i % 4 == 3);
        if i % 4 == 1 {
            adjacent_text_history(&mut rng, sink, 6);
        }
    }
}

/// Replay: read forest requests (without the `forest ` prefix, optionally followed by
/// ` -> recorded response`) from stdin and execute them on a fresh session.
pub fn exec_stdin(sink: &mut Sink) {
    use std::io::BufRead;
    let mut s = Session::new();
    let mut ids = crate::suite_fidx::Ids::default();
    let stdin = std::io::stdin();
    for line in stdin.lock().lines() {
        let line = line.unwrap();
        let req = line.split(" -> ").next().unwrap().trim().to_string();
        if req.is_empty() {
            continue;
        }
        let req = req.strip_prefix("forest ").unwrap_or(&req).to_string();
        if guarded(|| crate::suite_fidx::exec_ext(&mut s, sink, &mut ids, &req)).is_none() {
            sink.emit(format!("forest {}", req), "harness-panic".into());
            break;
        }
    }
}
