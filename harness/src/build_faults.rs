//! Fault catalogue of the `build` suite: every well-formedness-breaking edit of a rendered input.
use crate::build_obs::{Dump, Tok};
use crate::build_oracle::ref_decode;
use crate::build_render::*;
use crate::common::Rng;

// ---------------------------------------------------------------------------------------------
// Fault catalogue

pub fn insert_at(text: &str, at: usize, what: &str) -> String {
    let mut s = String::with_capacity(text.len() + what.len());
    s.push_str(&text[..at]);
    s.push_str(what);
    s.push_str(&text[at..]);
    s
}

const REF_FAULTS: &[(&str, &[&str])] = &[
    ("unknown-entity", &["&nbsp;", "&AMP;", "&bogus;"]),
    ("malformed-reference", &["&#;", "&#x;", "&#xG;", "&#1a;", "&;", "&#X41;", "&# 65;", "&#-65;"]),
    ("non-char-reference", &["&#0;", "&#x1;", "&#xFFFE;", "&#xFFFF;", "&#8;", "&#xB;", "&#x1F;"]),
    ("surrogate-reference", &["&#xD800;", "&#57343;"]),
    ("out-of-range-reference", &["&#x110000;", "&#4294967296;"]),
    ("signed-reference", &["&#+65;", "&#x+41;"]),
];

/// Declarations Namespaces in XML 1.0 section 3 forbids and `DocumentBuilder::prefix` rejects
/// (InvalidNamespaceDeclaration): the prefix `xmlns` declared, another prefix than `xml` (or the
/// default namespace) bound to the XML namespace name, anything bound to the xmlns namespace name
/// (the URI is compared after decoding).
pub const RESERVED_DECLS: &[&str] = &[
    " xmlns:xmlns='urn:zzz'",
    " xmlns:xmlns=''",
    " xmlns:xmlns='http://www.w3.org/2000/xmlns/'",
    " xmlns:zr='http://www.w3.org/XML/1998/namespace'",
    " xmlns:zr='http://www.w3.org/2000/xmlns/'",
    " xmlns:xml='http://www.w3.org/2000/xmlns/'",
    " xmlns='http://www.w3.org/XML/1998/namespace'",
    " xmlns='http://www.w3.org/2000/xmlns/'",
    " xmlns:zr='http://www.w3.org/2000/xmlns&#x2F;'",
    " xmlns:zr=\"http://www.w3.org/XML/1998/n&#97;mespace\"",
];

/// The prefix `xml` bound to another namespace name: forbidden as well, but accepted by xot (its
/// own test `test_namespaces_overrides_xml_prefix` pins that): C03:xml-prefix-rebound-accepted.
pub const XML_REBINDINGS: &[&str] = &[" xmlns:xml='urn:zzz'", " xmlns:xml=''", " xmlns:xml=\"zzz\""];

/// A PI whose target is `xml` in some letter case, as the tokenizer lets it through (it refuses
/// `<?xml` + space itself): rejected by `Xot::_parse` (InvalidTarget).
pub const XML_TARGET_PIS: &[&str] = &["<?xml\tx?>", "<?xml?>", "<?XmL x?>", "<?XML?>", "<?xml\nversion='1.0'?>", "<?xmL  d ?>"];

/// Inputs with exactly one of the faults above, run in both modes with the variant pinned.
pub const PINNED_REJECTS: &[(&str, &str)] = &[
    ("<a xmlns:xmlns='zzz'/>", "reserved-prefix-or-namespace-rebound"),
    ("<a xmlns:xmlns='http://www.w3.org/2000/xmlns/'/>", "reserved-prefix-or-namespace-rebound"),
    ("<a xmlns:p='http://www.w3.org/XML/1998/namespace'/>", "reserved-prefix-or-namespace-rebound"),
    ("<a xmlns='http://www.w3.org/XML/1998/namespace'/>", "reserved-prefix-or-namespace-rebound"),
    ("<a xmlns:p='http://www.w3.org/2000/xmlns/'/>", "reserved-prefix-or-namespace-rebound"),
    ("<a xmlns='http://www.w3.org/2000/xmlns/'/>", "reserved-prefix-or-namespace-rebound"),
    ("<a xmlns:xml='http://www.w3.org/2000/xmlns/'/>", "reserved-prefix-or-namespace-rebound"),
    ("<a xmlns:p='http://www.w3.org/2000/xmlns&#x2F;'/>", "reserved-prefix-or-namespace-rebound"),
    ("<a xmlns:p='http://www.w3.org/XML/1998/namespace' p:id='  x   y '/>", "reserved-prefix-or-namespace-rebound"),
    ("<a xmlns:p='u'><b xmlns:xmlns='u'/></a>", "reserved-prefix-or-namespace-rebound"),
    ("<a xmlns:p=''/>", "prefixed-undeclaration"),
    ("<a xmlns:p=\"\"><p:b/></a>", "prefixed-undeclaration"),
    ("<a xmlns:p='' p:xmlns='v'/>", "prefixed-undeclaration"),
    ("<a xmlns:p='u'><b xmlns:p=''/></a>", "prefixed-undeclaration"),
    ("<a><?xml\tx?></a>", "pi-target-xml"),
    ("<a><?xml?></a>", "pi-target-xml"),
    ("<a><?XmL x?></a>", "pi-target-xml"),
    ("<?xml\tx?><a/>", "pi-target-xml"),
    ("<a/><?XML?>", "pi-target-xml"),
    // a name written with a colon and nothing in front of it: let through by xmlparser (empty prefix
    // positioned at the colon), refused by `check_qname` since /repo a5fafb0 (UnknownPrefix)
    ("<:a/>", "colon-without-prefix"),
    ("<a :b='1'/>", "colon-without-prefix"),
    ("<a></:a>", "colon-without-prefix"),
    ("<:a :b='1'/>", "colon-without-prefix"),
    ("<a><b>t</:b></a>", "colon-without-prefix"),
    ("<a xmlns='urn:d' :b=\"1\"/>", "colon-without-prefix"),
    ("<a><:b></:b></a>", "colon-without-prefix"),
];

/// A complete element whose end tag spells the start tag's expanded name differently.
pub const OTHER_PREFIX_END_TAGS: &[&str] = &[
    "<zp:e xmlns:zp='urn:zz' xmlns:zq='urn:zz'></zq:e>",
    "<zp:e xmlns:zp='urn:zz' xmlns:zq='urn:zz'>t<zq:f/></zq:e>",
    "<e xmlns='urn:zz' xmlns:zq='urn:zz'></zq:e>",
    "<zq:e xmlns='urn:zz' xmlns:zq='urn:zz'></e>",
    "<zo xmlns:zp='urn:zz' xmlns:zq='urn:zz'><zp:e><zq:e/></zq:e></zo>",
];

/// Every (fault name, damaged text) for a rendered input; `all` = every applicable position,
/// otherwise positions are sampled by the caller.
pub fn faults(r: &Rendered, rng: &mut Rng, all: bool) -> Vec<(String, String)> {
    let t = &r.text;
    let mut out: Vec<(String, String)> = vec![];
    let cap = |v: Vec<usize>, rng: &mut Rng| -> Vec<usize> {
        if all || v.len() <= 2 {
            v.into_iter().take(10).collect()
        } else {
            let a = v[rng.below(v.len())];
            vec![a]
        }
    };
    for i in cap((0..r.close_tags.len()).collect(), rng) {
        let (s, e) = r.close_tags[i];
        out.push(("dropped-end-tag".into(), format!("{}{}", &t[..s], &t[e..])));
        out.push(("duplicated-end-tag".into(), insert_at(t, e, &t[s..e])));
        out.push(("mismatched-end-tag".into(), format!("{}</zzq>{}", &t[..s], &t[e..])));
    }
    // the end tag names the same expanded name through another prefix (or default namespace vs
    // prefix): an end tag has to repeat the start tag's name as written (XML 1.0 WFC Element Type Match)
    for i in cap((0..r.close_alts.len()).collect(), rng) {
        let (s, e, alt) = &r.close_alts[i];
        out.push(("end-tag-with-other-prefix".into(), format!("{}{}{}", &t[..*s], alt, &t[*e..])));
    }
    let tags: Vec<usize> = r.tag_points.iter().map(|p| p.at).collect();
    for at in cap(tags.clone(), rng) {
        out.push(("duplicate-attribute-by-expanded-name".into(), insert_at(t, at, " xmlns:zp='urn:z' xmlns:zq='urn:z' zp:k='1' zq:k='2'")));
        out.push(("duplicate-attribute-as-written".into(), insert_at(t, at, " zk='1' zk=\"2\"")));
        out.push(("prefix-declared-twice".into(), insert_at(t, at, " xmlns:zp='urn:z1' xmlns:zp='urn:z2'")));
        out.push(("undeclared-attribute-prefix".into(), insert_at(t, at, " zu:k='1'")));
        // Namespaces in XML 1.0 section 3 (reserved prefixes and namespace names): `xml` must not be
        // bound to another name, no other prefix (nor the default namespace) to the XML namespace
        // name, `xmlns` must not be declared, nothing may be bound to the xmlns namespace name.
        // (`xmlns:xml="http://www.w3.org/XML/1998/namespace"` is legal: the renderer writes it.)
        let reserved = *rng.pick(RESERVED_DECLS);
        out.push(("reserved-prefix-or-namespace-rebound".into(), insert_at(t, at, reserved)));
        out.push(("xml-prefix-rebound".into(), insert_at(t, at, *rng.pick(XML_REBINDINGS))));
        // Namespaces in XML 1.0 section 3, NSC 'No Prefix Undeclaring': only the default namespace can be undeclared
        out.push(("prefixed-undeclaration".into(), insert_at(t, at, *rng.pick(&[" xmlns:zr=''", " xmlns:zr=\"\"", " xmlns:p=''"]))));
        // Namespaces in XML 1.0 section 4: a qualified name is `prefix:local` or `local`, never `:local`
        out.push(("colon-without-prefix".into(), insert_at(t, at, *rng.pick(&[" :zk='1'", " :zk=\"\"", "\t:xmlns='u'"]))));
    }
    for at in cap(r.text_points.clone(), rng) {
        out.push(("raw-lt-in-text".into(), insert_at(t, at, "< ")));
        out.push(("raw-amp-in-text".into(), insert_at(t, at, "& ")));
        out.push(("undeclared-element-prefix".into(), insert_at(t, at, "<zu:e/>")));
        out.push(("unclosed-element".into(), insert_at(t, at, "<zu>")));
        out.push(("end-tag-with-other-prefix".into(), insert_at(t, at, *rng.pick(OTHER_PREFIX_END_TAGS))));
        out.push(("cdata-end-in-text".into(), insert_at(t, at, "]]>")));
        out.push(("double-hyphen-in-comment".into(), insert_at(t, at, "<!-- a -- b -->")));
        out.push(("pi-target-xml".into(), insert_at(t, at, *rng.pick(XML_TARGET_PIS))));
        out.push(("colon-without-prefix".into(), insert_at(t, at, *rng.pick(&["<:ze/>", "<ze></:ze>", "<:ze>t</:ze>", "<ze :k='v'/>"]))));
        if !t[at..].starts_with(';') {
            out.push(("unterminated-reference".into(), insert_at(t, at, "&lt")));
        }
        for (name, alts) in REF_FAULTS {
            let a = alts[rng.below(alts.len())];
            out.push((format!("{}-in-text", name), insert_at(t, at, a)));
        }
    }
    for at in cap(r.decl_points.clone(), rng) {
        let mut alts: Vec<&str> = vec!["& ", "&lt"];
        for (_, a) in REF_FAULTS {
            alts.extend_from_slice(a);
        }
        let a = alts[rng.below(alts.len())];
        if !(a == "&lt" && t[at..].starts_with(';')) {
            out.push(("ill-formed-reference-in-namespace-declaration".into(), insert_at(t, at, a)));
        }
        out.push(("raw-lt-in-namespace-declaration".into(), insert_at(t, at, "<")));
    }
    for at in cap(r.attr_points.clone(), rng) {
        out.push(("raw-lt-in-attribute".into(), insert_at(t, at, "<")));
        out.push(("raw-amp-in-attribute".into(), insert_at(t, at, "& ")));
        for (name, alts) in REF_FAULTS {
            let a = alts[rng.below(alts.len())];
            out.push((format!("{}-in-attribute", name), insert_at(t, at, a)));
        }
    }
    // duplicate xml:id on two elements that have none
    let free: Vec<usize> = r.tag_points.iter().filter(|p| !p.has_xmlid).map(|p| p.at).collect();
    if free.len() >= 2 {
        let i = rng.below(free.len() - 1);
        let j = i + 1 + rng.below(free.len() - i - 1);
        let (a, b) = (free[i].min(free[j]), free[i].max(free[j]));
        let s1 = insert_at(&insert_at(t, b, " xml:id='dupv'"), a, " xml:id=\"dupv\"");
        out.push(("duplicate-xml-id".into(), s1));
        let s2 = insert_at(&insert_at(t, b, " xml:id='  dupv '"), a, " xml:id='dupv'");
        out.push(("duplicate-xml-id-after-normalisation".into(), s2));
    }
    for at in cap(r.top_points.clone(), rng) {
        out.push(("pi-target-xml".into(), insert_at(t, at, *rng.pick(&XML_TARGET_PIS[1..]))));
    }
    if r.fragment {
        for at in cap(r.top_points.clone(), rng) {
            out.push(("stray-end-tag".into(), insert_at(t, at, "</a>")));
        }
    } else {
        for at in cap(r.top_points.clone(), rng) {
            out.push(("second-root-element".into(), insert_at(t, at, "<r2/>")));
            out.push(("top-level-text".into(), insert_at(t, at, "x")));
            out.push(("top-level-reference".into(), insert_at(t, at, "&#65;")));
        }
        if let Some(&at) = r.top_points.first() {
            out.push(("doctype".into(), insert_at(t, at, "<!DOCTYPE a>")));
            out.push(("doctype-with-subset".into(), insert_at(t, at, "<!DOCTYPE a [<!ENTITY e \"v\">]>")));
        }
        if r.has_decl {
            out.push(("version-1.1".into(), t.replacen("1.0", "1.1", 1)));
        } else {
            let at = if t.starts_with('\u{feff}') { 3 } else { 0 };
            out.push(("version-1.1".into(), insert_at(t, at, "<?xml version=\"1.1\"?>")));
        }
        // no root at all
        if let Some(p) = r.tag_points.iter().find(|p| p.depth == 1) {
            let start = t[..p.at].rfind('<').unwrap();
            let end = r.top_points.iter().copied().filter(|&e| e > p.at).min().unwrap_or(t.len());
            out.push(("no-root-element".into(), format!("{}{}", &t[..start], &t[end..])));
        }
    }
    out
}

pub const XMLNS_NS: &str = "http://www.w3.org/2000/xmlns/";

/// Namespaces in XML 1.0 section 3 on what the tokens show (whatever produced the input).
#[derive(Default)]
pub struct NsViolations {
    /// the prefix `xmlns` declared, another prefix than `xml` (or the default namespace) bound to
    /// the XML namespace name, anything bound to the xmlns namespace name
    pub reserved: bool,
    /// a prefix (other than `xml`) declared with an empty namespace name
    pub undeclared: bool,
    /// the prefix `xml` bound to another name than the XML namespace name (`xmlns:xml=""` included):
    /// the one shape xot accepts
    pub xml_rebound: bool,
    /// a PI whose target is `xml` in some letter case (XML 1.0 section 2.6)
    pub xml_pi: bool,
}

/// `xmlns:xml="http://www.w3.org/XML/1998/namespace"` is legal.
pub fn namespace_constraint_violations(dump: &Dump) -> NsViolations {
    let mut v = NsViolations::default();
    for t in &dump.toks {
        if let Tok::PI { target } = t {
            v.xml_pi |= target.eq_ignore_ascii_case("xml");
        }
        if let Tok::Attr { prefix, local, value, .. } = t {
            let p = if prefix == "xmlns" {
                local.as_str()
            } else if prefix.is_empty() && local == "xmlns" {
                ""
            } else {
                continue;
            };
            let uri = match ref_decode(value, true) {
                Some(u) => u,
                None => continue,
            };
            if p == "xmlns" || uri == XMLNS_NS || (p != "xml" && uri == XML_NS) {
                v.reserved = true;
            } else if p == "xml" {
                v.xml_rebound |= uri != XML_NS;
            } else if !p.is_empty() && uri.is_empty() {
                v.undeclared = true;
            }
        }
    }
    v
}
