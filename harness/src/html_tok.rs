//! Minimal HTML tokenizer of the `html` suite's oracle (C19), written from the HTML syntax, not from
//! the crate: start tags with double-quoted attribute values, end tags, comments, CDATA sections,
//! `<?…>` processing instructions, text; raw text on request; strict character-reference decoding.

#[derive(Clone, Debug, PartialEq)]
pub enum Tk {
    Start { name: String, attrs: Vec<(String, Option<String>)>, self_closing: bool },
    End(String),
    Text(String),
    CData(String),
    Comment(String),
    PI(String),
    Bad(String),
    Eof,
}

pub struct Tokenizer {
    pub s: Vec<char>,
    pub pos: usize,
}

impl Tokenizer {
    pub fn new(s: &str) -> Self {
        Tokenizer { s: s.chars().collect(), pos: 0 }
    }
    fn starts(&self, at: usize, pat: &str) -> bool {
        let p: Vec<char> = pat.chars().collect();
        at + p.len() <= self.s.len() && self.s[at..at + p.len()] == p[..]
    }
    fn find(&self, from: usize, pat: &str) -> Option<usize> {
        (from..self.s.len()).find(|&i| self.starts(i, pat))
    }
    fn slice(&self, a: usize, b: usize) -> String {
        self.s[a..b].iter().collect()
    }
    fn is_space(c: char) -> bool {
        matches!(c, ' ' | '\t' | '\n' | '\r' | '\u{c}')
    }
    pub fn peek(&mut self) -> Tk {
        let save = self.pos;
        let t = self.next();
        self.pos = save;
        t
    }
    /// Raw text up to (not including) `</name` (ASCII case-insensitive); `None` when there is none.
    pub fn raw_text_until_close(&mut self, name: &str) -> Option<String> {
        let want: Vec<char> = name.to_ascii_lowercase().chars().collect();
        let mut i = self.pos;
        while i < self.s.len() {
            if self.s[i] == '<' && i + 1 < self.s.len() && self.s[i + 1] == '/' {
                let a = i + 2;
                let b = a + want.len();
                if b <= self.s.len()
                    && self.s[a..b].iter().map(|c| c.to_ascii_lowercase()).eq(want.iter().copied())
                    && (b == self.s.len() || Self::is_space(self.s[b]) || self.s[b] == '>' || self.s[b] == '/')
                {
                    let t = self.slice(self.pos, i);
                    self.pos = i;
                    return Some(t);
                }
            }
            i += 1;
        }
        None
    }
    pub fn rest(&self) -> String {
        self.slice(self.pos, self.s.len())
    }
    pub fn next(&mut self) -> Tk {
        let n = self.s.len();
        if self.pos >= n {
            return Tk::Eof;
        }
        if self.s[self.pos] != '<' {
            let end = (self.pos..n).find(|&i| self.s[i] == '<').unwrap_or(n);
            let t = self.slice(self.pos, end);
            self.pos = end;
            return Tk::Text(t);
        }
        let at = self.pos;
        if self.starts(at, "<!--") {
            return match self.find(at + 4, "-->") {
                Some(e) => {
                    self.pos = e + 3;
                    Tk::Comment(self.slice(at + 4, e))
                }
                None => self.bad("unterminated comment"),
            };
        }
        if self.starts(at, "<![CDATA[") {
            return match self.find(at + 9, "]]>") {
                Some(e) => {
                    self.pos = e + 3;
                    Tk::CData(self.slice(at + 9, e))
                }
                None => self.bad("unterminated CDATA section"),
            };
        }
        if self.starts(at, "<?") {
            return match self.find(at + 2, ">") {
                Some(e) => {
                    self.pos = e + 1;
                    Tk::PI(self.slice(at + 2, e))
                }
                None => self.bad("unterminated processing instruction"),
            };
        }
        if self.starts(at, "</") {
            let mut i = at + 2;
            while i < n && !Self::is_space(self.s[i]) && self.s[i] != '>' {
                i += 1;
            }
            let name = self.slice(at + 2, i);
            while i < n && Self::is_space(self.s[i]) {
                i += 1;
            }
            if i >= n || self.s[i] != '>' || name.is_empty() {
                return self.bad("malformed end tag");
            }
            self.pos = i + 1;
            return Tk::End(name);
        }
        // start tag
        let mut i = at + 1;
        if i >= n || Self::is_space(self.s[i]) || matches!(self.s[i], '>' | '/' | '=' | '!' | '<' | '&' | '"') {
            return self.bad("stray '<'");
        }
        while i < n && !Self::is_space(self.s[i]) && self.s[i] != '>' && self.s[i] != '/' {
            i += 1;
        }
        let name = self.slice(at + 1, i);
        let mut attrs = vec![];
        loop {
            while i < n && Self::is_space(self.s[i]) {
                i += 1;
            }
            if i >= n {
                return self.bad("unterminated start tag");
            }
            if self.s[i] == '>' {
                self.pos = i + 1;
                return Tk::Start { name, attrs, self_closing: false };
            }
            if self.s[i] == '/' {
                if i + 1 < n && self.s[i + 1] == '>' {
                    self.pos = i + 2;
                    return Tk::Start { name, attrs, self_closing: true };
                }
                return self.bad("stray '/' in start tag");
            }
            let a = i;
            while i < n && !Self::is_space(self.s[i]) && !matches!(self.s[i], '=' | '>' | '/') {
                i += 1;
            }
            let an = self.slice(a, i);
            if an.is_empty() || an.contains('"') || an.contains('<') {
                return self.bad("malformed attribute name");
            }
            if i < n && self.s[i] == '=' {
                if i + 1 >= n || self.s[i + 1] != '"' {
                    return self.bad("attribute value not double-quoted");
                }
                let vstart = i + 2;
                let vend = match (vstart..n).find(|&j| self.s[j] == '"') {
                    Some(e) => e,
                    None => return self.bad("unterminated attribute value"),
                };
                attrs.push((an, Some(self.slice(vstart, vend))));
                i = vend + 1;
                if i < n && !Self::is_space(self.s[i]) && self.s[i] != '>' && self.s[i] != '/' {
                    return self.bad("no space after attribute value");
                }
            } else {
                attrs.push((an, None));
            }
        }
    }
    fn bad(&mut self, what: &str) -> Tk {
        let ctx: String = self.s[self.pos..].iter().take(30).collect();
        self.pos = self.s.len();
        Tk::Bad(format!("{} at {:?}", what, ctx))
    }
}

/// Strict decoding of character references: `Err` when a `&` does not start a reference
/// (a raw ampersand).  `<` cannot occur in a text token; in attribute values it is legal HTML.
pub fn decode(s: &str) -> Result<String, String> {
    let cs: Vec<char> = s.chars().collect();
    let mut out = String::new();
    let mut i = 0;
    while i < cs.len() {
        if cs[i] != '&' {
            out.push(cs[i]);
            i += 1;
            continue;
        }
        let semi = match (i + 1..cs.len().min(i + 12)).find(|&j| cs[j] == ';') {
            Some(j) => j,
            None => return Err("raw '&'".to_string()),
        };
        let ent: String = cs[i + 1..semi].iter().collect();
        let c = match ent.as_str() {
            "amp" => '&',
            "lt" => '<',
            "gt" => '>',
            "quot" => '"',
            "apos" => '\'',
            "nbsp" => '\u{a0}',
            e if e.starts_with("#x") => match u32::from_str_radix(&e[2..], 16).ok().and_then(char::from_u32) {
                Some(c) if e.len() > 2 && e[2..].chars().all(|d| d.is_ascii_hexdigit()) => c,
                _ => return Err("raw '&'".to_string()),
            },
            e if e.starts_with('#') => match e[1..].parse::<u32>().ok().and_then(char::from_u32) {
                Some(c) if e.len() > 1 && e[1..].chars().all(|d| d.is_ascii_digit()) => c,
                _ => return Err("raw '&'".to_string()),
            },
            _ => return Err("raw '&'".to_string()),
        };
        out.push(c);
        i = semi + 1;
    }
    Ok(out)
}

