//! Byte-string inputs of the `build` suite: parse_bytes on encoded renderings and on arbitrary bytes.
use crate::build_obs::*;
use crate::build_oracle::*;
use crate::build_render::*;
use crate::build_gen::*;
use crate::common::{guarded, Rng};
use crate::suite_build::{snippet_string, Ctx};
use crate::tree::*;
use std::collections::BTreeSet;
use xot::Xot;

fn utf16(text: &str, be: bool) -> Vec<u8> {
    let mut out: Vec<u8> = if be { vec![0xfe, 0xff] } else { vec![0xff, 0xfe] };
    for u in text.encode_utf16() {
        if be {
            out.extend_from_slice(&u.to_be_bytes());
        } else {
            out.extend_from_slice(&u.to_le_bytes());
        }
    }
    out
}

fn cp1252_byte(c: char) -> Option<u8> {
    const HIGH: &[(char, u8)] = &[('€', 0x80), ('‚', 0x82), ('ƒ', 0x83), ('„', 0x84), ('…', 0x85), ('†', 0x86), ('‡', 0x87), ('ˆ', 0x88), ('‰', 0x89), ('Š', 0x8a), ('‹', 0x8b), ('Œ', 0x8c), ('Ž', 0x8e), ('‘', 0x91), ('’', 0x92), ('“', 0x93), ('”', 0x94), ('•', 0x95), ('–', 0x96), ('—', 0x97), ('˜', 0x98), ('™', 0x99), ('š', 0x9a), ('›', 0x9b), ('œ', 0x9c), ('ž', 0x9e), ('Ÿ', 0x9f)];
    let v = c as u32;
    if v < 0x80 || (0xa0..=0xff).contains(&v) {
        Some(v as u8)
    } else {
        HIGH.iter().find(|e| e.0 == c).map(|e| e.1)
    }
}

fn hex_bytes(b: &[u8]) -> String {
    let mut s = String::from("b:");
    for x in b {
        s.push_str(&format!("{:02x}", x));
    }
    s
}

fn fail_bytes(ctx: &mut Ctx, prop: &str, sig: &str, what: &str, bytes: &[u8]) {
    ctx.sink.stat(&format!("F.{}:{}", prop, sig));
    let shown: String = String::from_utf8_lossy(bytes).chars().take(200).collect();
    let line = format!(
        "F\t{}\t{{\"signature\": \"{}:{}\", \"what\": \"{}\", \"replay\": {{\"suite\": \"build\", \"entry\": \"parse_bytes\", \"input\": \"{}\", \"text\": \"{}\"}}}}",
        prop,
        prop,
        json_escape(sig),
        json_escape(what),
        hex_bytes(bytes),
        json_escape(&shown)
    );
    let v = ctx.fails.entry(format!("{}:{}", prop, sig)).or_default();
    v.push((bytes.len(), line));
    v.sort();
    v.truncate(3);
}

fn bytes_panic_signature(bytes: &[u8]) -> &'static str {
    if bytes.len() < 4 {
        "parse_bytes-panics-on-input-shorter-than-4-bytes"
    } else {
        "parse_bytes-panics-when-no-encoding-is-found"
    }
}

/// parse_bytes on an encoded rendering: must equal parse of the text.
pub fn bytes_case(ctx: &mut Ctx, rng: &mut Rng) {
    let kind = rng.below(9);
    let (label, latin): (Option<&str>, bool) = match kind {
        0 | 8 => (None, false),
        1 => (Some("UTF-8"), false),
        2 | 3 => (Some("UTF-16"), false),
        4 => (Some(*rng.pick(&["ISO-8859-1", "iso-8859-1", "latin1"])), true),
        5 => (Some(*rng.pick(&["windows-1252", "cp1252"])), true),
        6 => (Some(*rng.pick(&["x-unknown-zz", "UTF-7", "EBCDIC-9", "utf8x"])), false),
        _ => (Some("US-ASCII"), true),
    };
    let mut cfg = RCfg::plain();
    cfg.latin1 = latin;
    cfg.decl_eq_space = rng.chance(1, 5);
    let eq_space = cfg.decl_eq_space;
    let r = render_document(rng, cfg, label);
    let mut text = r.text.clone();
    if kind == 5 {
        // some characters only windows-1252 has
        text = text.replacen("é", "€", 1).replacen("ß", "œ", 1);
    }
    if kind == 7 {
        text = text.chars().map(|c| if (c as u32) < 0x80 { c } else { 'e' }).collect();
    }
    if kind == 8 {
        // UTF-8 without declaration, with `encoding=` / `charset=` somewhere near the start that is
        // NOT an XML declaration (comment, attribute name, character data): still UTF-8
        let lab = *rng.pick(&["ISO-8859-1", "windows-1252", "latin1", "UTF-16", "utf-16le"]);
        let q = *rng.pick(&["\"", "'"]);
        text = match rng.below(3) {
            0 => format!("<!-- encoding={}{}{} -->{}<!--é€-->", q, lab, q, text),
            1 => format!("<!--charset={}{}{}-->{}<!--é€-->", q, lab, q, text),
            _ => format!("<?target encoding={}{}{} é?>{}", q, lab, q, text),
        };
    }
    // single-byte text whose bytes happen to be well-formed UTF-8 as a whole (every non-ASCII
    // character replaced by a pair / triple such as "Ã©" = C3 A9, "Â©" = C2 A9, "â‚¬" = E2 82 AC):
    // the declared encoding must still decide
    let lookalike = (kind == 4 || kind == 5) && rng.chance(1, 3);
    if lookalike {
        let mut t = String::new();
        for c in text.chars() {
            if (c as u32) < 0x80 {
                t.push(c);
            } else {
                t.push_str(*rng.pick(&["Ã©", "Â©", "Ã¤", "Â°"]));
                if kind == 5 && rng.chance(1, 3) {
                    t.push_str("â‚¬");
                }
            }
        }
        if !t.chars().any(|c| (c as u32) >= 0x80) {
            // make sure there is at least one such sequence in character data
            t = t.replacen("</", "Ã©</", 1);
        }
        text = t;
        ctx.sink.stat("bytes.latin-utf8-lookalike");
    }
    let bytes: Vec<u8> = match kind {
        0 | 1 | 6 | 8 => {
            if kind == 1 && rng.chance(1, 2) {
                let mut b = vec![0xef, 0xbb, 0xbf];
                b.extend_from_slice(text.as_bytes());
                b
            } else {
                text.as_bytes().to_vec()
            }
        }
        2 => utf16(&text, false),
        3 => utf16(&text, true),
        _ => text.chars().map(|c| cp1252_byte(c).unwrap_or(b'?')).collect(),
    };
    let name = match kind {
        0 => "utf8-undeclared",
        1 => "utf8",
        2 => "utf16le-bom",
        3 => "utf16be-bom",
        4 => "iso-8859-1",
        5 => "windows-1252",
        6 => "unknown-label",
        8 => "utf8-undeclared-with-encoding-bait",
        _ => "us-ascii",
    };
    ctx.sink.stat(&format!("bytes.{}", name));
    let dump = dump_tokens(&text, false);
    let mut xot = Xot::new();
    let mut vocab = Vocab::standard(&mut xot);
    let got = guarded(|| xot.parse_bytes(&bytes));
    // reference: parse of the text itself
    let (_x2, v2, o2, _r2) = observe(&text, false, false, &dump);
    match (&got, &o2) {
        (None, _) => {
            // `decode` falls back to UTF-8: parse_bytes must not panic on any input
            if kind == 6 {
                fail_bytes(ctx, "C03", "parse_bytes-panics-on-unknown-encoding-label", "parse_bytes panicked", &bytes);
            } else {
                fail_bytes(ctx, "C03", bytes_panic_signature(&bytes), "parse_bytes panicked", &bytes);
            }
        }
        (Some(Ok(doc)), Observed::Ok(s2)) => {
            let delta = env_delta(&xot, &mut vocab, &dump);
            let t1 = read_tree(&xot, &mut vocab, *doc);
            let mut pb = BTreeSet::new();
            let a1 = to_abstract(&vocab, &t1, &mut pb);
            let a2 = to_abstract(&v2, &s2.tree, &mut pb);
            if a1 != a2 {
                if kind != 6 {
                    let sig = if eq_space {
                        "parse_bytes-ignores-declared-encoding-with-space-around-eq".to_string()
                    } else if kind == 8 {
                        "parse_bytes-takes-encoding-from-text-that-is-not-the-xml-declaration".to_string()
                    } else {
                        format!("parse_bytes-{}-differs-from-parse-of-the-text", name)
                    };
                    fail_bytes(ctx, "C02", &sig, "decoded bytes parse differently from the text they encode", &bytes);
                }
            } else {
                if let Ok(d) = delta {
                    let nodes = nodes_in_order(&xot, *doc);
                    let paths = t1.paths();
                    let seen = Seen { doc: *doc, tree: t1, nodes, paths, span_info: empty_span_info() };
                    let resp = format!("ok {} ; ids {} ; {}", seen.tree.wire(), ids_words(&xot, &seen, &dump), d);
                    ctx.sink.emit(format!("build bytes {} {}", text.len(), dump.words), resp);
                }
                ctx.sink.stat("bytes.equal");
                if kind != 5 && kind != 7 && kind != 8 && !lookalike {
                    let mut c02 = BTreeSet::new();
                    diff(&r.top, &a2, &mut c02);
                    for c in c02 {
                        ctx.fail("C02", &c, "the parsed tree is not the document that was spelled", "parse", &text);
                    }
                }
            }
        }
        (Some(Err(_)), Observed::Err(_)) => {}
        (Some(_), _) if kind != 6 => {
            fail_bytes(ctx, "C02", &format!("parse_bytes-{}-differs-from-parse-of-the-text", name), "decoded bytes parse differently from the text they encode", &bytes)
        }
        _ => {}
    }
}

pub fn arbitrary_bytes(ctx: &mut Ctx, rng: &mut Rng) {
    let n = rng.below(24);
    let mut bytes: Vec<u8> = vec![];
    match rng.below(3) {
        0 => {
            for _ in 0..n {
                bytes.push((rng.next() & 0xff) as u8);
            }
        }
        1 => {
            bytes.extend_from_slice(snippet_string(rng).as_bytes());
            for _ in 0..rng.below(3) {
                if !bytes.is_empty() {
                    let i = rng.below(bytes.len());
                    bytes[i] = (rng.next() & 0xff) as u8;
                }
            }
        }
        _ => {
            let bom: &[u8] = *rng.pick(&[&[0xff, 0xfe][..], &[0xfe, 0xff][..], &[0xef, 0xbb, 0xbf][..], &[0, 0, 0xfe, 0xff][..], &[0x4c, 0x6f, 0xa7, 0x94][..]]);
            bytes.extend_from_slice(bom);
            bytes.extend_from_slice(snippet_string(rng).as_bytes());
        }
    }
    ctx.sink.stat("bytes.arbitrary");
    let mut xot = Xot::new();
    if guarded(|| xot.parse_bytes(&bytes).map(|_| ())).is_none() {
        fail_bytes(ctx, "C03", bytes_panic_signature(&bytes), "parse_bytes panicked", &bytes);
    }
}

