//! Suite `scope`, qualified names (C09): `full_name`, `name_ref` and `node_name_ref` judged against
//! the independent resolver of `scope_oracle.rs` by the XML-Namespaces rule for the KIND of the
//! context node (an unprefixed attribute name is in no namespace; an unprefixed element name takes
//! the default namespace if there is one), plus directed layouts and statistics for the two shapes
//! that used to be misreported (/repo 7303420, 84c8828):
//!   * an attribute whose namespace is bound as default namespace only / as default AND by a prefix
//!     (either declaration order, same element or across ancestor levels);
//!   * an element in no namespace with a default namespace in scope at distance 0, 1, 2, … with and
//!     without an intervening `xmlns=""`.
use crate::common::{Rng, Sink};
use crate::scope_oracle::{decls_of, fail, ns_of_name, Scope};
use crate::tree::*;
use xot::{Error, Node, Xot};

const NSS: [usize; 3] = [NS_A, NS_B, NS_C];

/// Declaration lists from the node up to the root, nearest first.
fn levels(t: &GTree, path: &[usize]) -> Vec<Vec<(usize, usize)>> {
    let mut out = vec![decls_of(t)];
    let mut cur = t;
    for i in path {
        cur = &cur.kids[*i];
        out.push(decls_of(cur));
    }
    out.reverse();
    out
}

/// How the namespace of an attribute name is bound in scope: the first unshadowed declaration as
/// default namespace and the first unshadowed declaration under a non-empty prefix.
fn attr_shape(levels: &[Vec<(usize, usize)>], ns: usize) -> &'static str {
    let mut seen = vec![];
    let (mut d, mut p) = (None, None);
    for (lv, decls) in levels.iter().enumerate() {
        for (pos, (k, n)) in decls.iter().enumerate() {
            if seen.contains(k) {
                continue;
            }
            seen.push(*k);
            if *n == ns {
                if *k == 0 {
                    d = d.or(Some((lv, pos)));
                } else {
                    p = p.or(Some((lv, pos)));
                }
            }
        }
    }
    if ns == 1 && !seen.contains(&1) {
        p = p.or(Some((usize::MAX, 0)));
    }
    match (d, p) {
        (None, None) => "unbound",
        (Some(_), None) => "default-only",
        (None, Some(_)) => "prefix-only",
        (Some((ld, pd)), Some((lp, pp))) => {
            if ld == lp {
                if pd < pp { "default-and-prefix.same-element.default-first" } else { "default-and-prefix.same-element.prefix-first" }
            } else if ld < lp {
                "default-and-prefix.default-nearer"
            } else {
                "default-and-prefix.prefix-nearer"
            }
        }
    }
}

/// Where the default namespace seen by a no-namespace element comes from (distance 0 = the
/// element itself).
fn elem_shape(levels: &[Vec<(usize, usize)>]) -> String {
    let mut first: Option<(usize, usize)> = None;
    let mut real_above: Option<usize> = None;
    for (lv, decls) in levels.iter().enumerate() {
        if let Some((_, n)) = decls.iter().find(|(k, _)| *k == 0) {
            if first.is_none() {
                first = Some((lv, *n));
                if *n != 0 {
                    break;
                }
            } else if *n != 0 {
                real_above = Some(lv);
                break;
            }
        }
    }
    match first {
        None => "no-default-declared".to_string(),
        Some((d, n)) if n != 0 => format!("under-default.d{}", d.min(3)),
        Some((d, _)) => match real_above {
            Some(k) => format!("undeclared-at-d{}.default-at-d{}", d.min(3), k.min(4)),
            None => format!("undeclared-at-d{}.no-default-above", d.min(3)),
        },
    }
}

#[allow(clippy::too_many_arguments)]
pub fn check_names(sink: &mut Sink, xot: &Xot, vocab: &Vocab, t: &GTree, path: &[usize], node: Node, scope: &Scope, redeclared: bool) {
    let sub = t.at(path).unwrap();
    let ctx_attr = matches!(sub.v, GValue::Attribute(..));
    let own_elem = if let GValue::Element(n) = sub.v { Some(n) } else { None };
    // the resolver never keeps xmlns="": a binding of the empty prefix is a default namespace
    let default_ns = scope.get(&0).copied();
    // can `name` be written with this node as context?  At an attribute node only through a
    // non-empty prefix; the node's own element name in no namespace not under a default namespace
    // (any other no-namespace name may be an attribute name: always writable, unprefixed).
    let expressible = |name: usize| {
        let ns = ns_of_name(vocab, name);
        if ns == 0 {
            !(own_elem == Some(name) && default_ns.is_some())
        } else {
            scope.iter().any(|(p, n)| *n == ns && (!ctx_attr || *p != 0))
        }
    };
    // every name of the vocabulary with this node as context
    for name in 0..vocab.names.len() {
        let ns = ns_of_name(vocab, name);
        let local = &vocab.names[name].0;
        let r = xot.name_ref(vocab.name(name), node).map(|r| prefix_num(r.prefix_id()));
        let f = xot.full_name(node, vocab.name(name));
        match (&r, &f) {
            (Ok(p), Ok(s)) => {
                let want = if vocab.prefixes[*p].0.is_empty() { local.clone() } else { format!("{}:{}", vocab.prefixes[*p].0, local) };
                if *s != want {
                    fail(sink, "C09", "C09:full_name-and-name_ref-disagree", &format!("name {}: full_name {:?}, name_ref prefix {}", name, s, p), t, path, "names");
                }
                if ns != 0 && scope.get(p) != Some(&ns) {
                    fail(sink, "C09", "C09:name_ref-prefix-not-bound-to-namespace", &format!("name {}: prefix {} is bound to {:?}, the name is in namespace {}", name, p, scope.get(p), ns), t, path, "names");
                }
                if ns == 0 && *p != 0 {
                    fail(sink, "C09", "C09:name_ref-prefix-for-no-namespace-name", &format!("name {}: prefix {}", name, p), t, path, "names");
                }
                if ns != 0 && ctx_attr && *p == 0 {
                    fail(sink, "C09", "C09:name-at-attribute-node-reported-unprefixed", &format!("name {} in namespace {}: reported with the empty prefix at an attribute node", name, ns), t, path, "names");
                }
                // Ok for the node's own no-namespace element name under a default namespace: judged
                // below on node_name_ref (one signature per defect)
            }
            (Err(Error::MissingPrefix(a)), Err(Error::MissingPrefix(b))) => {
                if a != b || *a != vocab.namespaces[ns].0 {
                    fail(sink, "C09", "C09:missing-prefix-names-other-namespace", &format!("name {} in namespace {}: MissingPrefix({:?}) / MissingPrefix({:?})", name, ns, b, a), t, path, "names");
                }
                if expressible(name) {
                    if ns == 0 {
                        fail(sink, "C09", "C09:no-namespace-name-refused-without-need", &format!("name {} is in no namespace and not this node's own element name under a default namespace: MissingPrefix", name), t, path, "names");
                    } else if redeclared {
                        fail(sink, "C09", "C09:full_name-missing-prefix-past-shadowed-prefix", &format!("name {} (namespace {}): MissingPrefix although a usable prefix is bound in scope {:?}", name, ns, scope), t, path, "names");
                    } else {
                        fail(sink, "C09", "C09:full_name-missing-prefix-though-bound", &format!("name {} (namespace {}): MissingPrefix although a usable prefix is bound in scope {:?}", name, ns, scope), t, path, "names");
                    }
                }
            }
            _ => fail(sink, "C09", "C09:full_name-and-name_ref-disagree", &format!("name {}: one errs, the other does not", name), t, path, "names"),
        }
    }
    // the node's own name, by the rule for its kind
    let own = match sub.v {
        GValue::Element(n) => Some((n, false)),
        GValue::Attribute(n, _) => Some((n, true)),
        _ => None,
    };
    if let Some((name, is_attr)) = own {
        let ns = ns_of_name(vocab, name);
        let lv = levels(t, path);
        let shape = if is_attr {
            if ns == 0 { "attr.no-namespace".to_string() } else { format!("attr.{}", attr_shape(&lv, ns)) }
        } else if ns == 0 {
            format!("elem-no-namespace.{}", elem_shape(&lv))
        } else {
            "elem.namespaced".to_string()
        };
        let got = xot.node_name_ref(node);
        sink.stat(&format!("shape.{}.{}", shape, if got.is_ok() { "ok" } else { "missing-prefix" }));
        match got {
            Ok(Some(r)) => {
                let p = prefix_num(r.prefix_id());
                let resolved = if p == 0 {
                    if is_attr { 0 } else { default_ns.unwrap_or(0) }
                } else {
                    scope.get(&p).copied().unwrap_or(usize::MAX)
                };
                if name_num(r.name_id()) != name {
                    fail(sink, "C09", "C09:node_name_ref-wrong-name", "node_name_ref names another name", t, path, "node");
                } else if resolved != ns {
                    if is_attr && p == 0 && ns != 0 {
                        fail(sink, "C09", "C09:attribute-in-default-namespace-reported-unprefixed", &format!("attribute name {} in namespace {} is reported with the empty prefix (resolves to no namespace for an attribute); scope {:?}", name, ns, scope), t, path, "node");
                    } else if !is_attr && p == 0 && ns == 0 {
                        fail(sink, "C09", "C09:no-namespace-element-reported-unprefixed-under-default-namespace", &format!("element name {} is in no namespace, is reported unprefixed, and the default namespace in scope is {}", name, resolved), t, path, "node");
                    } else {
                        fail(sink, "C09", "C09:qualified-name-resolves-to-other-namespace", &format!("name {} in namespace {}: prefix {} resolves to {}", name, ns, p, resolved), t, path, "node");
                    }
                }
            }
            Ok(None) => fail(sink, "C09", "C09:node_name_ref-none-for-named-node", "node_name_ref gives None for an element or attribute", t, path, "node"),
            Err(e) => {
                // a refusal is justified only if no prefix could say it
                if expressible(name) {
                    if ns == 0 {
                        fail(sink, "C09", "C09:node_name_ref-refuses-no-namespace-name-without-default-namespace", &format!("name {} is in no namespace and no default namespace is in scope {:?}: {:?}", name, scope, e), t, path, "node");
                    } else if redeclared {
                        fail(sink, "C09", "C09:node_name_ref-missing-prefix-past-shadowed-prefix", &format!("name {} in namespace {}: MissingPrefix although a usable prefix is in scope {:?}", name, ns, scope), t, path, "node");
                    } else {
                        fail(sink, "C09", "C09:node_name_ref-missing-prefix-though-bound", &format!("name {} in namespace {}: MissingPrefix although a usable prefix is in scope {:?}", name, ns, scope), t, path, "node");
                    }
                }
                if !matches!(&e, Error::MissingPrefix(s) if *s == vocab.namespaces[ns].0) {
                    fail(sink, "C09", "C09:missing-prefix-names-other-namespace", &format!("name {} in namespace {}: {:?}", name, ns, e), t, path, "node");
                }
            }
        }
    }
}

// ---------------------------------------------------------------------------------------------
// Directed layouts

fn el(name: usize, decls: &[(usize, usize)], attrs: &[usize], kids: Vec<GTree>) -> GTree {
    let mut k: Vec<GTree> = decls.iter().map(|(p, n)| GTree::leaf(GValue::Namespace(*p, *n))).collect();
    k.extend(attrs.iter().map(|a| GTree::leaf(GValue::Attribute(*a, "v".to_string()))));
    k.extend(kids);
    GTree::new(GValue::Element(name), k)
}

fn any_elem_name(rng: &mut Rng) -> usize {
    2 + rng.below(13)
}

/// Declarations unrelated to the shape (may shadow it: the statistics classify the result).
fn noise(rng: &mut Rng, levels: &mut [Vec<(usize, usize)>]) {
    for decls in levels.iter_mut() {
        if rng.chance(1, 3) {
            let d = match rng.below(12) {
                0 => (0, 0),
                1 => (*rng.pick(&[2usize, 3, 4]), 0),
                2..=3 => (0, *rng.pick(&NSS)),
                _ => (*rng.pick(&[2usize, 3, 4]), *rng.pick(&NSS)),
            };
            if !decls.iter().any(|(p, _)| *p == d.0) {
                let at = rng.below(decls.len() + 1);
                decls.insert(at, d);
            }
        }
    }
}

fn nest(rng: &mut Rng, levels: &[Vec<(usize, usize)>], deepest: GTree) -> GTree {
    // levels[0] is the deepest element's own list (already used by the caller)
    let mut t = deepest;
    for decls in levels.iter().skip(1) {
        t = el(any_elem_name(rng), decls, &[], vec![t]);
    }
    if rng.chance(2, 3) { GTree::new(GValue::Document, vec![t]) } else { t }
}

/// An attribute `{N}x` on the deepest of 1..=3 nested elements; `N` declared as default namespace
/// and / or under a prefix on chosen levels, in a chosen order.
pub fn gen_attr_shape(rng: &mut Rng) -> GTree {
    let ns = *rng.pick(&NSS);
    let depth = 1 + rng.below(3);
    let mut levels: Vec<Vec<(usize, usize)>> = vec![vec![]; depth];
    let dflt = if rng.chance(4, 5) { Some(rng.below(depth)) } else { None };
    let pfx = if rng.chance(3, 5) { Some((rng.below(depth), *rng.pick(&[2usize, 3, 4]))) } else { None };
    if let Some(l) = dflt {
        levels[l].push((0, ns));
    }
    if let Some((l, p)) = pfx {
        if rng.chance(1, 2) { levels[l].push((p, ns)) } else { levels[l].insert(0, (p, ns)) }
    }
    if rng.chance(1, 2) {
        noise(rng, &mut levels);
    }
    let attr = 6 + 3 * (ns - NS_A) + *rng.pick(&[0usize, 2]);
    let mut attrs = vec![attr];
    if rng.chance(1, 4) {
        attrs.push(*rng.pick(&[16usize, 17, 0, 15]));
    }
    let deepest = el(any_elem_name(rng), &levels[0], &attrs, vec![]);
    nest(rng, &levels, deepest)
}

/// An element in no namespace (with a no-namespace child and attribute) below a default
/// namespace declared `dist` levels up, with or without an `xmlns=""` on the way.
pub fn gen_elem_shape(rng: &mut Rng) -> GTree {
    let ns = *rng.pick(&NSS);
    let dist = rng.below(4);
    let mut levels: Vec<Vec<(usize, usize)>> = vec![vec![]; dist + 1];
    levels[dist].push((0, ns));
    if dist >= 1 && rng.chance(2, 5) {
        let at = rng.below(dist);
        levels[at].push((0, 0));
    }
    if rng.chance(1, 2) {
        noise(rng, &mut levels);
    }
    let name = 2 + rng.below(4);
    let mut kids = vec![];
    if rng.chance(1, 2) {
        kids.push(el(2 + rng.below(4), &[], &[], vec![]));
    }
    let attrs: Vec<usize> = if rng.chance(1, 2) { vec![*rng.pick(&[16usize, 17])] } else { vec![] };
    let deepest = el(name, &levels[0], &attrs, kids);
    nest(rng, &levels, deepest)
}

/// Fixed layouts: each shape once, whatever the seed.
pub fn corpus() -> Vec<GTree> {
    let doc = |e: GTree| GTree::new(GValue::Document, vec![e]);
    vec![
        // attribute {A}x: default only (MissingPrefix); default + prefix on ancestors, both orders
        doc(el(6, &[(0, NS_A)], &[], vec![el(7, &[], &[8], vec![])])),
        doc(el(6, &[(0, NS_A)], &[], vec![el(7, &[(2, NS_A)], &[8], vec![])])),
        doc(el(6, &[(2, NS_A)], &[], vec![el(7, &[(0, NS_A)], &[8], vec![])])),
        // the prefix for A is shadowed below: default only again
        doc(el(6, &[(0, NS_A), (2, NS_A)], &[], vec![el(7, &[(2, NS_B)], &[8], vec![])])),
        // no-namespace element, default namespace at distance 0, 1, 2
        doc(el(2, &[(0, NS_A)], &[16], vec![])),
        doc(el(6, &[(0, NS_A)], &[], vec![el(2, &[], &[], vec![])])),
        doc(el(6, &[(0, NS_A)], &[], vec![el(7, &[], &[], vec![el(2, &[], &[16], vec![el(3, &[], &[], vec![])])])])),
        // … with xmlns="" on the element itself, and in between
        doc(el(6, &[(0, NS_A)], &[], vec![el(2, &[(0, 0)], &[], vec![])])),
        doc(el(6, &[(0, NS_A)], &[], vec![el(3, &[(0, 0)], &[], vec![el(2, &[], &[], vec![])])])),
        // … undeclared and declared again below
        doc(el(6, &[(0, NS_A)], &[], vec![el(3, &[(0, 0)], &[], vec![el(9, &[(0, NS_B)], &[], vec![el(2, &[], &[], vec![])])])])),
        // xmlns:p="" does not count as a default namespace
        doc(el(2, &[(2, 0)], &[], vec![el(3, &[], &[], vec![])])),
    ]
}
