//! Suite `scope`, qualified names (C09): `full_name`, `name_ref` and `node_name_ref` judged against
//! the independent resolver of `scope_oracle.rs` by the XML-Namespaces rule for the KIND of the
//! context node (an unprefixed attribute name is in no namespace; an unprefixed element name takes
//! the default namespace if there is one), plus directed layouts and statistics for the two shapes
//! that used to be misreported (/repo 7303420, 84c8828):
//!   * an attribute whose namespace is bound as default namespace only / as default AND by a prefix
//!     (either declaration order, same element or across ancestor levels);
//!   * an element in no namespace with a default namespace in scope at distance 0, 1, 2, … with and
//!     without an intervening `xmlns=""`.
use crate::common::{Rng, Sink};
use crate::scope_oracle::{decls_of, fail, ns_of_name, Scope};
use crate::tree::*;
use xot::{Error, Node, Xot};

const NSS: [usize; 3] = [NS_A, NS_B, NS_C];

/// Declaration lists from the node up to the root, nearest first.
fn levels(t: &GTree, path: &[usize]) -> Vec<Vec<(usize, usize)>> {
    let mut out = vec![decls_of(t)];
    let mut cur = t;
    for i in path {
        cur = &cur.kids[*i];
        out.push(decls_of(cur));
    }
    out.reverse();
    out
}

/// How the namespace of an attribute name is bound in scope: the first unshadowed declaration as
/// default namespace and the first unshadowed declaration under a non-empty prefix.
fn attr_shape(levels: &[Vec<(usize, usize)>], ns: usize) -> &'static str {
    let mut seen = vec![];
    let (mut d, mut p) = (None, None);
    for (lv, decls) in levels.iter().enumerate() {
        for (pos, (k, n)) in decls.iter().enumerate() {
            if seen.contains(k) {
                continue;
            }
            seen.push(*k);
            if *n == ns {
                if *k == 0 {
                    d = d.or(Some((lv, pos)));
                } else {
                    p = p.or(Some((lv, pos)));
                }
            }
        }
    }
    if ns == 1 && !seen.contains(&1) {
        p = p.or(Some((usize::MAX, 0)));
    }
    match (d, p) {
        (None, None) => "unbound",
        (Some(_), None) => "default-only",
        (None, Some(_)) => "prefix-only",
        (Some((ld, pd)), Some((lp, pp))) => {
            if ld == lp {
                if pd < pp { "default-and-prefix.same-element.default-first" } else { "default-and-prefix.same-element.prefix-first" }
            } else if ld < lp {
                "default-and-prefix.default-nearer"
            } else {
                "default-and-prefix.prefix-nearer"
            }
        }
    }
}

/// Where the default namespace seen by a no-namespace element comes from (distance 0 = the
/// element itself).
fn elem_shape(levels: &[Vec<(usize, usize)>]) -> String {
    let mut first: Option<(usize, usize)> = None;
    let mut real_above: Option<usize> = None;
    for (lv, decls) in levels.iter().enumerate() {
        if let Some((_, n)) = decls.iter().find(|(k, _)| *k == 0) {
            if first.is_none() {
                first = Some((lv, *n));
                if *n != 0 {
                    break;
                }
            } else if *n != 0 {
                real_above = Some(lv);
                break;
            }
        }
    }
    match first {
        None => "no-default-declared".to_string(),
        Some((d, n)) if n != 0 => format!("under-default.d{}", d.min(3)),
        Some((d, _)) => match real_above {
            Some(k) => format!("undeclared-at-d{}.default-at-d{}", d.min(3), k.min(4)),
            None => format!("undeclared-at-d{}.no-default-above", d.min(3)),
        },
    }
}

#[allow(clippy::too_many_arguments)]
pub fn check_names(sink: &mut Sink, xot: &Xot, vocab: &Vocab, t: &GTree, path: &[usize], node: Node, scope: &Scope, redeclared: bool) {
    let sub = t.at(path).unwrap();
    let ctx_attr = matches!(sub.v, GValue::Attribute(..));
    let own_elem = if let GValue::Element(n) = sub.v { Some(n) } else { None };
    // the resolver never keeps xmlns="": a binding of the empty prefix is a default namespace
    let default_ns = scope.get(&0).copied();
    // can `name` be written with this node as context?  At an attribute node only through a
    // non-empty prefix; the node's own element name in no namespace not under a default namespace
    // (any other no-namespace name may be an attribute name: always writable, unprefixed).
    let expressible = |name: usize| {
        let ns = ns_of_name(vocab, name);
        if ns == 0 {
            !(own_elem == Some(name) && default_ns.is_some())
        } else {
            scope.iter().any(|(p, n)| *n == ns && (!ctx_attr || *p != 0))
        }
    };
    // every name of the vocabulary with this node as context
    for name in 0..vocab.names.len() {
        let ns = ns_of_name(vocab, name);
        let local = &vocab.names[name].0;
        let r = xot.name_ref(vocab.name(name), node).map(|r| prefix_num(r.prefix_id()));
        let f = xot.full_name(node, vocab.name(name));
        match (&r, &f) {
            (Ok(p), Ok(s)) => {
                let want = if vocab.prefixes[*p].0.is_empty() { local.clone() } else { format!("{}:{}", vocab.prefixes[*p].0, local) };
                if *s != want {
                    fail(sink, "C09", "C09:full_name-and-name_ref-disagree", &format!("name {}: full_name {:?}, name_ref prefix {}", name, s, p), t, path, "names");
                }
                if ns != 0 && scope.get(p) != Some(&ns) {
                    fail(sink, "C09", "C09:name_ref-prefix-not-bound-to-namespace", &format!("name {}: prefix {} is bound to {:?}, the name is in namespace {}", name, p, scope.get(p), ns), t, path, "names");
                }
                if ns == 0 && *p != 0 {
                    fail(sink, "C09", "C09:name_ref-prefix-for-no-namespace-name", &format!("name {}: prefix {}", name, p), t, path, "names");
                }
                if ns != 0 && ctx_attr && *p == 0 {
                    fail(sink, "C09", "C09:name-at-attribute-node-reported-unprefixed", &format!("name {} in namespace {}: reported with the empty prefix at an attribute node", name, ns), t, path, "names");
                }
                // Ok for the node's own no-namespace element name under a default namespace: judged
                // below on node_name_ref (one signature per defect)
            }
            (Err(Error::MissingPrefix(a)), Err(Error::MissingPrefix(b))) => {
                if a != b || *a != vocab.namespaces[ns].0 {
                    fail(sink, "C09", "C09:missing-prefix-names-other-namespace", &format!("name {} in namespace {}: MissingPrefix({:?}) / MissingPrefix({:?})", name, ns, b, a), t, path, "names");
                }
                if expressible(name) {
                    if ns == 0 {
                        fail(sink, "C09", "C09:no-namespace-name-refused-without-need", &format!("name {} is in no namespace and not this node's own element name under a default namespace: MissingPrefix", name), t, path, "names");
                    } else if redeclared {
                        fail(sink, "C09", "C09:full_name-missing-prefix-past-shadowed-prefix", &format!("name {} (namespace {}): MissingPrefix although a usable prefix is bound in scope {:?}", name, ns, scope), t, path, "names");
                    } else {
                        fail(sink, "C09", "C09:full_name-missing-prefix-though-bound", &format!("name {} (namespace {}): MissingPrefix although a usable prefix is bound in scope {:?}", name, ns, scope), t, path, "names");
                    }
                }
            }
            _ => fail(sink, "C09", "C09:full_name-and-name_ref-disagree", &format!("name {}: one errs, the other does not", name), t, path, "names"),
        }
    }
    // the node's own name, by the rule for its kind
    let own = match sub.v {
        GValue::Element(n) => Some((n, false)),
        GValue::Attribute(n, _) => Some((n, true)),
        _ => None,
    };
    if let Some((name, is_attr)) = own {
        let ns = ns_of_name(vocab, name);
        let lv = levels(t, path);
        let shape = if is_attr {
            if ns == 0 { "attr.no-namespace".to_string() } else { format!("attr.{}", attr_shape(&lv, ns)) }
        } else if ns == 0 {
            format!("elem-no-namespace.{}", elem_shape(&lv))
        } else {
            "elem.namespaced".to_string()
        };
        let got = xot.node_name_ref(node);
        sink.stat(&format!("shape.{}.{}", shape, if got.is_ok() { "ok" } else { "missing-prefix" }));
        match got {
            Ok(Some(r)) => {
                let p = prefix_num(r.prefix_id());
                let resolved = if p == 0 {
                    if is_attr { 0 } else { default_ns.unwrap_or(0) }
                } else {
                    scope.get(&p).copied().unwrap_or(usize::MAX)
                };
                if name_num(r.name_id()) != name {
                    fail(sink, "C09", "C09:node_name_ref-wrong-name", "node_name_ref names another name", t, path, "node");
                } else if resolved != ns {
                    if is_attr && p == 0 && ns != 0 {
                        fail(sink, "C09", "C09:attribute-in-default-namespace-reported-unprefixed", &format!("attribute name {} in namespace {} is reported with the empty prefix (resolves to no namespace for an attribute); scope {:?}", name, ns, scope), t, path, "node");
                    } else if !is_attr && p == 0 && ns == 0 {
                        fail(sink, "C09", "C09:no-namespace-element-reported-unprefixed-under-default-namespace", &format!("element name {} is in no namespace, is reported unprefixed, and the default namespace in scope is {}", name, resolved), t, path, "node");
                    } else {
                        fail(sink, "C09", "C09:qualified-name-resolves-to-other-namespace", &format!("name {} in namespace {}: prefix {} resolves to {}", name, ns, p, resolved), t, path, "node");
                    }
                }
            }
            Ok(None) => fail(sink, "C09", "C09:node_name_ref-none-for-named-node", "node_name_ref gives None for an element or attribute", t, path, "node"),
            Err(e) => {
                // a refusal is justified only if no prefix could say it
                if expressible(name) {
                    if ns == 0 {
                        fail(sink, "C09", "C09:node_name_ref-refuses-no-namespace-name-without-default-namespace", &format!("name {} is in no namespace and no default namespace is in scope {:?}: {:?}", name, scope, e), t, path, "node");
                    } else if redeclared {
                        fail(sink, "C09", "C09:node_name_ref-missing-prefix-past-shadowed-prefix", &format!("name {} in namespace {}: MissingPrefix although a usable prefix is in scope {:?}", name, ns, scope), t, path, "node");
                    } else {
                        fail(sink, "C09", "C09:node_name_ref-missing-prefix-though-bound", &format!("name {} in namespace {}: MissingPrefix although a usable prefix is in scope {:?}", name, ns, scope), t, path, "node");
                    }
                }
                if !matches!(&e, Error::MissingPrefix(s) if *s == vocab.namespaces[ns].0) {
                    fail(sink, "C09", "C09:missing-prefix-names-other-namespace", &format!("name {} in namespace {}: {:?}", name, ns, e), t, path, "node");
                }
            }
        }
    }
}

// ---------------------------------------------------------------------------------------------
// Directed layouts

fn el(name: usize, decls: &[(usize, usize)], attrs: &[usize], kids: Vec<GTree>) -> GTree {
    let mut k: Vec<GTree> = decls.iter().map(|(p, n)| GTree::leaf(GValue::Namespace(*p, *n))).collect();
    k.extend(attrs.iter().map(|a| GTree::leaf(GValue::Attribute(*a, "v".to_string()))));
    k.extend(kids);
    GTree::new(GValue::Element(name), k)
}

fn any_elem_name(rng: &mut Rng) -> usize {
    2 + rng.below(13)
}

/// Declarations unrelated to the shape (may shadow it: the statistics classify the result).
fn noise(rng: &mut Rng, levels: &mut [Vec<(usize, usize)>]) {
    for decls in levels.iter_mut() {
        if rng.chance(1, 3) {
            let d = match rng.below(12) {
                0 => (0, 0),
                1 => (*rng.pick(&[2usize, 3, 4]), 0),
                2..=3 => (0, *rng.pick(&NSS)),
                _ => (*rng.pick(&[2usize, 3, 4]), *rng.pick(&NSS)),
            };
            if !decls.iter().any(|(p, _)| *p == d.0) {
                let at = rng.below(decls.len() + 1);
                decls.insert(at, d);
            }
        }
    }
}

fn nest(rng: &mut Rng, levels: &[Vec<(usize, usize)>], deepest: GTree) -> GTree {
    // levels[0] is the deepest element's own list (already used by the caller)
    let mut t = deepest;
    for decls in levels.iter().skip(1) {
        t = el(any_elem_name(rng), decls, &[], vec![t]);
    }
    if rng.chance(2, 3) { GTree::new(GValue::Document, vec![t]) } else { t }
}

/// An attribute `{N}x` on the deepest of 1..=3 nested elements; `N` declared as default namespace
/// and / or under a prefix on chosen levels, in a chosen order.
pub fn gen_attr_shape(rng: &mut Rng) -> GTree {
    let ns = *rng.pick(&NSS);
    let depth = 1 + rng.below(3);
    let mut levels: Vec<Vec<(usize, usize)>> = vec![vec![]; depth];
    let dflt = if rng.chance(4, 5) { Some(rng.below(depth)) } else { None };
    let pfx = if rng.chance(3, 5) { Some((rng.below(depth), *rng.pick(&[2usize, 3, 4]))) } else { None };
    if let Some(l) = dflt {
        levels[l].push((0, ns));
    }
    if let Some((l, p)) = pfx {
        if rng.chance(1, 2) { levels[l].push((p, ns)) } else { levels[l].insert(0, (p, ns)) }
    }
    if rng.chance(1, 2) {
        noise(rng, &mut levels);
    }
    let attr = 6 + 3 * (ns - NS_A) + *rng.pick(&[0usize, 2]);
    let mut attrs = vec![attr];
    if rng.chance(1, 4) {
        attrs.push(*rng.pick(&[16usize, 17, 0, 15]));
    }
    let deepest = el(any_elem_name(rng), &levels[0], &attrs, vec![]);
    nest(rng, &levels, deepest)
}

/// An element in no namespace (with a no-namespace child and attribute) below a default
/// namespace declared `dist` levels up, with or without an `xmlns=""` on the way.
pub fn gen_elem_shape(rng: &mut Rng) -> GTree {
    let ns = *rng.pick(&NSS);
    let dist = rng.below(4);
    let mut levels: Vec<Vec<(usize, usize)>> = vec![vec![]; dist + 1];
    levels[dist].push((0, ns));
    if dist >= 1 && rng.chance(2, 5) {
        let at = rng.below(dist);
        levels[at].push((0, 0));
    }
    if rng.chance(1, 2) {
        noise(rng, &mut levels);
    }
    let name = 2 + rng.below(4);
    let mut kids = vec![];
    if rng.chance(1, 2) {
        kids.push(el(2 + rng.below(4), &[], &[], vec![]));
    }
    let attrs: Vec<usize> = if rng.chance(1, 2) { vec![*rng.pick(&[16usize, 17])] } else { vec![] };
    let deepest = el(name, &levels[0], &attrs, kids);
    nest(rng, &levels, deepest)
}

/// Fixed layouts: each shape once, whatever the seed.
pub fn corpus() -> Vec<GTree> {
    let doc = |e: GTree| GTree::new(GValue::Document, vec![e]);
    vec![
        // attribute {A}x: default only (MissingPrefix); default + prefix on ancestors, both orders
        doc(el(6, &[(0, NS_A)], &[], vec![el(7, &[], &[8], vec![])])),
        doc(el(6, &[(0, NS_A)], &[], vec![el(7, &[(2, NS_A)], &[8], vec![])])),
        doc(el(6, &[(2, NS_A)], &[], vec![el(7, &[(0, NS_A)], &[8], vec![])])),
        // the prefix for A is shadowed below: default only again
        doc(el(6, &[(0, NS_A), (2, NS_A)], &[], vec![el(7, &[(2, NS_B)], &[8], vec![])])),
        // no-namespace element, default namespace at distance 0, 1, 2
        doc(el(2, &[(0, NS_A)], &[16], vec![])),
        doc(el(6, &[(0, NS_A)], &[], vec![el(2, &[], &[], vec![])])),
        doc(el(6, &[(0, NS_A)], &[], vec![el(7, &[], &[], vec![el(2, &[], &[16], vec![el(3, &[], &[], vec![])])])])),
        // … with xmlns="" on the element itself, and in between
        doc(el(6, &[(0, NS_A)], &[], vec![el(2, &[(0, 0)], &[], vec![])])),
        doc(el(6, &[(0, NS_A)], &[], vec![el(3, &[(0, 0)], &[], vec![el(2, &[], &[], vec![])])])),
        // … undeclared and declared again below
        doc(el(6, &[(0, NS_A)], &[], vec![el(3, &[(0, 0)], &[], vec![el(9, &[(0, NS_B)], &[], vec![el(2, &[], &[], vec![])])])])),
        // xmlns:p="" does not count as a default namespace
        doc(el(2, &[(2, 0)], &[], vec![el(3, &[], &[], vec![])])),
    ]
}

// ---------------------------------------------------------------------------------------------
// The name types (xmlname/*.rs): how the results of `name_ref` / `full_name` are consumed.
//
//   scope xmlname <path> <tree>   for every name id of the vocabulary, with the node as context:
//     <id>=!<ns string>                                   name_ref refuses (MissingPrefix)
//     <id>=<u><d>/<local>|<ns>|<prefix>/<P>/<R>/<B>><C>><A>/<K>/<W>
//        u  RefName::has_unprefixed_namespace            d  OwnedName::in_default_namespace   (t | f)
//        local|ns|prefix   RefName::to_owned()
//        P  OwnedName::parse_full_name(full_name, element-rule lookup in this node's scope):
//           `=` (the to_owned triple again) | local|ns|prefix | !U<prefix string>
//        R  to_owned().to_ref(scratch Xot)                <name id>:<prefix id>
//        B  with_suffix().maybe_to_ref(scratch) before the suffixed name exists      - | <name id>:<prefix id>
//        C  with_suffix().to_create(scratch)              <name id>
//        A  with_suffix().maybe_to_ref(scratch) afterwards
//        K  CreateName::parse_full_name(scratch, full_name, the same lookup by id)   <name id> | !U<prefix string>
//        W  with_default_namespace("urn:b"): <ns string>~<in_default_namespace>
// The scratch Xot is a fresh one with the standard vocabulary (same ids as the tree's Xot, which
// the queries never change), one per (node, name), so every line is a function of tree and path.

use xot::xmlname::{CreateName, NameStrInfo, OwnedName};

pub struct XmlNameObs {
    pub name: usize,
    /// `Err(ns string)` = MissingPrefix
    pub ok: Result<XmlNameOk, String>,
}

pub struct XmlNameOk {
    pub prefix: usize,
    pub unprefixed_ns: bool,
    pub in_default: bool,
    pub owned: (String, String, String),
    pub full: String,
    pub parsed: Result<(String, String, String), String>,
    pub to_ref: (usize, usize),
    pub maybe_self: Option<(usize, usize)>,
    pub before: Option<(usize, usize)>,
    pub created: usize,
    pub after: Option<(usize, usize)>,
    pub create_parsed: Result<usize, String>,
    pub with_default: (String, bool),
    pub suffixed_full: String,
    /// the remaining constructors / accessors of the name types, judged on the spot
    /// (implementation only): violated laws
    pub constructor_laws_broken: Vec<String>,
}

fn triple(o: &OwnedName) -> (String, String, String) {
    (o.local_name().to_string(), o.namespace().to_string(), o.prefix().to_string())
}

pub fn xmlname_obs(xot: &Xot, vocab: &Vocab, node: Node) -> Vec<XmlNameObs> {
    (0..vocab.names.len())
        .map(|i| {
            let r = match xot.name_ref(vocab.name(i), node) {
                Ok(r) => r,
                Err(Error::MissingPrefix(s)) => return XmlNameObs { name: i, ok: Err(s) },
                Err(e) => return XmlNameObs { name: i, ok: Err(format!("?{:?}", e)) },
            };
            let o = r.to_owned();
            let full = o.full_name().to_string();
            // the XML-Namespaces rule for an ELEMENT name in this node's scope: a prefix the Xot
            // knows, bound here; the empty prefix without a default namespace = no namespace
            let lookup_id = |s: &str| {
                let pid = xot.prefix(s)?;
                match xot.namespace_for_prefix(node, pid) {
                    Some(ns) => Some(ns),
                    None => if s.is_empty() { Some(xot.no_namespace()) } else { None },
                }
            };
            let lookup_str = |s: &str| lookup_id(s).map(|ns| xot.namespace_str(ns).to_string());
            let parsed = match OwnedName::parse_full_name(&full, lookup_str) {
                Ok(o2) => Ok(triple(&o2)),
                Err(Error::UnknownPrefix(s)) => Err(s),
                Err(e) => Err(format!("?{:?}", e)),
            };
            let mut xs = Xot::new();
            let _vs = Vocab::standard(&mut xs);
            let pair = |r: xot::xmlname::RefName| (name_num(r.name_id()), prefix_num(r.prefix_id()));
            let sfx = o.clone().with_suffix();
            let before = sfx.maybe_to_ref(&xs).map(pair);
            let to_ref = pair(o.to_ref(&mut xs));
            let maybe_self = o.maybe_to_ref(&xs).map(pair);
            let created = name_num(sfx.to_create(&mut xs).name_id());
            let after = sfx.maybe_to_ref(&xs).map(pair);
            let create_parsed = match CreateName::parse_full_name(&mut xs, &full, lookup_id) {
                Ok(c) => Ok(name_num(c.name_id())),
                Err(Error::UnknownPrefix(s)) => Err(s),
                Err(e) => Err(format!("?{:?}", e)),
            };
            let wd = o.clone().with_default_namespace("urn:b");
            // the other constructors (after everything the model line reports: they may intern names)
            let mut broken: Vec<String> = vec![];
            {
                let (l, n, p) = triple(&o);
                if r.namespace_id() != xot.namespace_for_name(vocab.name(i)) {
                    broken.push("RefName::namespace_id differs from namespace_for_name".to_string());
                }
                if triple(&OwnedName::new(l.clone(), n.clone(), p.clone())) != (l.clone(), n.clone(), p.clone()) {
                    broken.push("OwnedName::new does not keep its three strings".to_string());
                }
                if triple(&OwnedName::name(&l)) != (l.clone(), String::new(), String::new()) {
                    broken.push("OwnedName::name is not (local, no namespace, no prefix)".to_string());
                }
                // namespaced: the prefix comes from the lookup, here prefix_for_namespace in this scope
                let by_ns = |uri: &str| xot.namespace(uri).and_then(|ns| xot.prefix_for_namespace(node, ns)).map(|p| xot.prefix_str(p).to_string());
                match (OwnedName::namespaced(l.clone(), n.clone(), by_ns), by_ns(&n)) {
                    (Ok(o3), Some(pfx)) if triple(&o3) == (l.clone(), n.clone(), pfx.clone()) => {}
                    (Err(Error::MissingPrefix(u)), None) if u == n => {}
                    (got, want) => broken.push(format!("OwnedName::namespaced: {:?} with lookup result {:?}", got.map(|o| triple(&o)), want)),
                }
                match (OwnedName::prefixed(&p, &l, lookup_str), lookup_str(&p)) {
                    (Ok(o3), Some(uri)) if triple(&o3) == (l.clone(), uri.clone(), p.clone()) => {}
                    (Err(Error::UnknownPrefix(u)), None) if u == p => {}
                    (got, want) => broken.push(format!("OwnedName::prefixed: {:?} with lookup result {:?}", got.map(|o| triple(&o)), want)),
                }
                let ns_id = xs.namespace(&n).expect("standard vocabulary");
                let cns = xot::xmlname::CreateNamespace::new(&mut xs, &p, &n);
                if name_num(CreateName::namespaced(&mut xs, &l, &cns).name_id()) != i {
                    broken.push("CreateName::namespaced(local, CreateNamespace::new(prefix, namespace)) is not the name".to_string());
                }
                match CreateName::prefixed(&mut xs, &p, &l, |_| Some(ns_id)) {
                    Ok(c) if name_num(c.name_id()) == i => {}
                    other => broken.push(format!("CreateName::prefixed with the name's namespace: {:?}", other.map(|c| name_num(c.name_id())))),
                }
                match CreateName::prefixed(&mut xs, &p, &l, |_| None) {
                    Err(Error::UnknownPrefix(u)) if u == p => {}
                    other => broken.push(format!("CreateName::prefixed with a failing lookup: {:?}", other.map(|c| name_num(c.name_id())))),
                }
                let plain = CreateName::name(&mut xs, &l).name_id();
                if xs.local_name_str(plain) != l || xs.namespace_for_name(plain) != xs.no_namespace() {
                    broken.push("CreateName::name is not the local name in no namespace".to_string());
                }
            }
            XmlNameObs {
                name: i,
                ok: Ok(XmlNameOk {
                    prefix: prefix_num(r.prefix_id()),
                    unprefixed_ns: r.has_unprefixed_namespace(),
                    in_default: o.in_default_namespace(),
                    owned: triple(&o),
                    full,
                    parsed,
                    to_ref,
                    maybe_self,
                    before,
                    created,
                    after,
                    create_parsed,
                    with_default: (wd.namespace().to_string(), wd.in_default_namespace()),
                    suffixed_full: sfx.full_name().to_string(),
                    constructor_laws_broken: broken,
                }),
            }
        })
        .collect()
}

pub fn xmlname_wire(obs: &[XmlNameObs]) -> String {
    use crate::common::enc;
    let tf = |b: bool| if b { "t" } else { "f" };
    let tr = |t: &(String, String, String)| format!("{}|{}|{}", enc(&t.0), enc(&t.1), enc(&t.2));
    let pr = |o: &Option<(usize, usize)>| o.map(|(n, p)| format!("{}:{}", n, p)).unwrap_or_else(|| "-".to_string());
    let items: Vec<String> = obs
        .iter()
        .map(|x| match &x.ok {
            Err(ns) => format!("{}=!{}", x.name, enc(ns)),
            Ok(k) => {
                let parsed = match &k.parsed {
                    Ok(t) if *t == k.owned => "=".to_string(),
                    Ok(t) => tr(t),
                    Err(s) => format!("!U{}", enc(s)),
                };
                let cp = match &k.create_parsed {
                    Ok(n) => n.to_string(),
                    Err(s) => format!("!U{}", enc(s)),
                };
                format!(
                    "{}={}{}/{}/{}/{}:{}/{}>{}>{}/{}/{}~{}",
                    x.name, tf(k.unprefixed_ns), tf(k.in_default), tr(&k.owned), parsed, k.to_ref.0, k.to_ref.1,
                    pr(&k.before), k.created, pr(&k.after), cp, enc(&k.with_default.0), tf(k.with_default.1)
                )
            }
        })
        .collect();
    if items.is_empty() { "ok -".to_string() } else { format!("ok {}", items.join(",")) }
}

/// The laws of the name types, on the implementation: round trips and `parse_full_name` as the
/// inverse of `full_name` in the scope that produced it.
pub fn check_xmlnames(sink: &mut Sink, xot: &Xot, vocab: &Vocab, t: &GTree, path: &[usize], node: Node, scope: &Scope, obs: &[XmlNameObs]) {
    let n_names = vocab.names.len();
    let default_ns = scope.get(&0).copied().unwrap_or(0);
    for x in obs {
        let name = x.name;
        let ns = ns_of_name(vocab, name);
        let k = match &x.ok {
            Err(_) => {
                sink.stat("xmlname.name_ref-refused");
                continue;
            }
            Ok(k) => k,
        };
        sink.stat("xmlname.name_ref-ok");
        let local = &vocab.names[name].0;
        let want_owned = (local.clone(), vocab.namespaces[ns].0.clone(), vocab.prefixes[k.prefix].0.clone());
        if k.owned != want_owned {
            fail(sink, "C09", "C09:to_owned-differs-from-the-strings-of-the-ids", &format!("name {}: to_owned {:?}, the ids say {:?}", name, k.owned, want_owned), t, path, "xmlname");
        }
        match xot.full_name(node, vocab.name(name)) {
            Ok(s) if s == k.full => {}
            other => fail(sink, "C09", "C09:owned-full_name-differs-from-full_name", &format!("name {}: to_owned().full_name() = {:?}, full_name = {:?}", name, k.full, other.ok()), t, path, "xmlname"),
        }
        if k.unprefixed_ns != (ns != 0 && k.prefix == 0) || k.in_default != k.unprefixed_ns {
            fail(sink, "C09", "C09:has_unprefixed_namespace-or-in_default_namespace-wrong", &format!("name {} (namespace {}, prefix {}): has_unprefixed_namespace {}, in_default_namespace {}", name, ns, k.prefix, k.unprefixed_ns, k.in_default), t, path, "xmlname");
        }
        sink.stat(if k.unprefixed_ns { "xmlname.has_unprefixed_namespace.true" } else { "xmlname.has_unprefixed_namespace.false" });
        // to_owned / to_ref / maybe_to_ref round trip (a second Xot with the same registrations)
        if k.to_ref != (name, k.prefix) || k.maybe_self != Some((name, k.prefix)) {
            fail(sink, "C09", "C09:to_owned-to_ref-round-trip-differs", &format!("name {} prefix {}: to_ref {:?}, maybe_to_ref {:?}", name, k.prefix, k.to_ref, k.maybe_self), t, path, "xmlname");
        } else {
            sink.stat("xmlname.round-trip.to_owned-to_ref");
        }
        // with_suffix: a new name in the same namespace, unknown before, known after to_create
        if k.before.is_some() || k.created != n_names || k.after != Some((n_names, k.prefix)) || k.suffixed_full != format!("{}*", k.full) {
            fail(sink, "C09", "C09:with_suffix-to_create-round-trip-differs", &format!("name {}: maybe_to_ref before {:?}, to_create {}, after {:?}, full name {:?}", name, k.before, k.created, k.after, k.suffixed_full), t, path, "xmlname");
        } else {
            sink.stat("xmlname.round-trip.with_suffix-to_create");
        }
        for b in &k.constructor_laws_broken {
            fail(sink, "C09", "C09:name-type-constructor-law-broken", &format!("name {}: {}", name, b), t, path, "xmlname");
        }
        if k.constructor_laws_broken.is_empty() {
            sink.stat("xmlname.constructors.new-name-namespaced-prefixed-ok");
        }
        // with_default_namespace only touches an unprefixed no-namespace name
        let want_wd = if k.owned.1.is_empty() && k.owned.2.is_empty() { ("urn:b".to_string(), true) } else { (k.owned.1.clone(), k.in_default) };
        if k.with_default != want_wd {
            fail(sink, "C09", "C09:with_default_namespace-wrong", &format!("name {}: {:?}, expected {:?}", name, k.with_default, want_wd), t, path, "xmlname");
        }
        sink.stat(if k.owned.1.is_empty() && k.owned.2.is_empty() { "xmlname.with_default_namespace.applies" } else { "xmlname.with_default_namespace.keeps" });
        // parse_full_name inverts full_name where the element rule resolves the written prefix to
        // the name's namespace: always through a non-empty prefix; unprefixed when the default
        // namespace in scope (or its absence) is the name's namespace
        let invertible = k.prefix != 0 || default_ns == ns;
        if invertible {
            if k.parsed.as_ref().ok() != Some(&k.owned) || k.create_parsed != Ok(name) {
                fail(sink, "C09", "C09:parse_full_name-not-inverse-of-full_name", &format!("name {} written {:?}: OwnedName::parse_full_name {:?}, CreateName::parse_full_name {:?}", name, k.full, k.parsed, k.create_parsed), t, path, "xmlname");
            } else {
                sink.stat(if k.prefix != 0 { "xmlname.parse_full_name.inverse.prefixed" } else { "xmlname.parse_full_name.inverse.unprefixed" });
            }
        } else {
            // an unprefixed attribute-style name under a default namespace: the element rule reads
            // it into the default namespace (documented limit of the inverse)
            sink.stat("xmlname.parse_full_name.unprefixed-under-other-default");
            let want = (local.clone(), vocab.namespaces[default_ns].0.clone(), String::new());
            if k.parsed.as_ref().ok() != Some(&want) {
                fail(sink, "C09", "C09:parse_full_name-ignores-default-namespace", &format!("name {} written {:?}: parsed {:?}, expected {:?}", name, k.full, k.parsed, want), t, path, "xmlname");
            }
        }
    }
}
