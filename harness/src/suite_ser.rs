//! Suite `ser`: the XML serialiser (serialize.rs, output/serializer.rs, xml_serializer.rs, pretty.rs,
//! xml.rs).  Generated documents, fragments, unattached subtrees and single nodes x parameter sets;
//! every observable (`outputs`, `tokens`, `pretty_tokens`, `to_string`, `write`,
//! `serialize_xml_string`, `serialize_xml_write`) is printed for the model, and the oracles of
//! `ser_oracle.rs` evaluate C16 / C10 / C14 / C11 directly on the implementation.
//! `ser xml_write_fail <k> …` / `ser write_fail <k> …`: the Write-based entry points into
//! `common::FailingWriter { fail_at_call: k }` — outcome (`err:Io` at the refused call, `ok`, or the
//! serialisation's own error if it comes first; never `panic`) and the bytes the writer holds, compared
//! with the model (`serializeXmlWriteW (budget k)`); oracle `common::failing_writer_verdict`.
use crate::common::{enc, guarded, Rng, Sink};
use crate::ser_gen::{gen_params, gen_tree};
use crate::ser_oracle;
use crate::tree::*;
use std::collections::HashMap;
use xot::output::xml::{Declaration, DocType, Parameters};
use xot::output::{Indentation, NoopNormalizer, Output, TokenSerializeParameters};
use xot::{Error, Node, Xot};

/// Namespace whose URI needs escaping inside `xmlns…="…"`, and names in it.
pub const WEIRD_URI: &str = "urn:q\"<&>'";
pub const NS_W: usize = 8;
pub const NAME_WE: usize = 20; // element e in NS_W
pub const NAME_WA: usize = 21; // attribute w in NS_W

/// The xmlns namespace name: nothing can be bound to it (the parser rejects such a declaration).
pub const XMLNS_URI: &str = "http://www.w3.org/2000/xmlns/";
pub const NS_XMLNS: usize = 9;

pub fn ser_vocab(xot: &mut Xot) -> Vocab {
    let mut v = Vocab::standard(xot);
    assert_eq!(v.add_ns(xot, WEIRD_URI), NS_W);
    assert_eq!(v.add_name(xot, "e", NS_W), NAME_WE);
    assert_eq!(v.add_name(xot, "w", NS_W), NAME_WA);
    assert_eq!(v.add_ns(xot, XMLNS_URI), NS_XMLNS);
    v
}

/// What the generator promises about a tree.
#[derive(Clone, Copy, Debug, PartialEq, Eq)]
pub enum Domain {
    /// in the round-trip domain (`Representable` of Model/SerTokens.lean)
    Representable,
    /// outside, nothing promised
    Outside,
    /// outside for ONE reason, with a precise expectation (ser_oracle::check_outside): a comment /
    /// PI data with a CR (written as it is, read back as LF), or a namespace node the parser rejects
    /// (`xmlns:p=""`, a binding to the xmlns namespace name: the output does not parse)
    OutsideCrOrRejectedDeclaration,
}

/// One serialisation event with numeric ids (the wire form of `Output`).
#[derive(Clone, Debug, PartialEq, Eq)]
pub enum Ev {
    SO(usize),
    SC,
    ET(usize),
    PX(usize, usize),
    AT(usize, String),
    TX(String),
    CM(String),
    PI(usize, Option<String>),
}

impl Ev {
    pub fn of(o: &Output) -> Ev {
        match o {
            Output::StartTagOpen(e) => Ev::SO(name_num(e.name())),
            Output::StartTagClose => Ev::SC,
            Output::EndTag(e) => Ev::ET(name_num(e.name())),
            Output::Prefix(p, n) => Ev::PX(prefix_num(*p), ns_num(*n)),
            Output::Attribute(n, v) => Ev::AT(name_num(*n), v.to_string()),
            Output::Text(s) => Ev::TX(s.to_string()),
            Output::Comment(s) => Ev::CM(s.to_string()),
            Output::ProcessingInstruction(t, d) => Ev::PI(name_num(*t), d.map(|s| s.to_string())),
        }
    }
    pub fn wire(&self) -> String {
        match self {
            Ev::SO(n) => format!("so/{}", n),
            Ev::SC => "sc".to_string(),
            Ev::ET(n) => format!("et/{}", n),
            Ev::PX(p, n) => format!("px/{}/{}", p, n),
            Ev::AT(n, v) => format!("at/{}/{}", n, enc(v)),
            Ev::TX(s) => format!("tx/{}", enc(s)),
            Ev::CM(s) => format!("cm/{}", enc(s)),
            Ev::PI(t, None) => format!("pi/{}/-", t),
            Ev::PI(t, Some(d)) => format!("pi/{}/{}", t, enc(d)),
        }
    }
}

#[derive(Clone, Debug)]
pub struct Tok {
    pub path: String,
    pub ev: Ev,
    pub indentation: usize,
    pub space: bool,
    pub text: String,
    pub newline: bool,
}

/// Outcome of a call on the implementation.
#[derive(Clone, Debug)]
pub enum Res<T> {
    Ok(T),
    Err(String),
    Panic,
}

impl<T> Res<T> {
    pub fn ok(&self) -> Option<&T> {
        match self {
            Res::Ok(v) => Some(v),
            _ => None,
        }
    }
    pub fn show(&self, f: impl Fn(&T) -> String) -> String {
        match self {
            Res::Ok(v) => f(v),
            Res::Err(e) => e.clone(),
            Res::Panic => "panic".to_string(),
        }
    }
    pub fn kind(&self) -> &'static str {
        match self {
            Res::Ok(_) => "ok",
            Res::Err(_) => "err",
            Res::Panic => "panic",
        }
    }
}

pub fn err_str(e: &Error) -> String {
    match e {
        Error::MissingPrefix(ns) => format!("err:MissingPrefix {}", enc(ns)),
        Error::NamespaceInProcessingInstruction => "err:NamespaceInProcessingInstruction".to_string(),
        Error::NotElement(_) => "err:NotElement".to_string(),
        Error::NotDocument(_) => "err:NotDocument".to_string(),
        Error::NoElementAtTopLevel => "err:NoElementAtTopLevel".to_string(),
        Error::Io(_) => "err:Io".to_string(),
        other => format!("err:other {:?}", other),
    }
}

fn res_of<T>(r: Option<Result<T, Error>>) -> Res<T> {
    match r {
        None => Res::Panic,
        Some(Ok(v)) => Res::Ok(v),
        Some(Err(e)) => Res::Err(err_str(&e)),
    }
}

/// Parameter set of one case.
#[derive(Clone, Debug)]
pub struct Params {
    pub cdata: Vec<usize>,
    pub gt: bool,
    pub indent: Option<Vec<usize>>,
    pub decl: Option<(Option<String>, Option<bool>)>,
    pub doctype: Option<(Option<String>, String)>, // (public, system)
}

fn ids(v: &[usize]) -> String {
    if v.is_empty() {
        "-".to_string()
    } else {
        v.iter().map(|i| i.to_string()).collect::<Vec<_>>().join(",")
    }
}

impl Params {
    pub fn plain() -> Params {
        Params { cdata: vec![], gt: false, indent: None, decl: None, doctype: None }
    }
    pub fn token_wire(&self) -> String {
        format!("{} {}", ids(&self.cdata), if self.gt { 1 } else { 0 })
    }
    pub fn wire(&self) -> String {
        let ind = match &self.indent {
            None => "-".to_string(),
            Some(s) if s.is_empty() => "i".to_string(),
            Some(s) => format!("i{}", ids(s)),
        };
        let decl = match &self.decl {
            None => "-".to_string(),
            Some((e, s)) => format!(
                "d/{}/{}",
                e.as_ref().map(|e| enc(e)).unwrap_or("-".to_string()),
                match s {
                    None => "-",
                    Some(true) => "y",
                    Some(false) => "n",
                }
            ),
        };
        let dt = match &self.doctype {
            None => "-".to_string(),
            Some((Some(p), s)) => format!("P/{}/{}", enc(p), enc(s)),
            Some((None, s)) => format!("S/{}", enc(s)),
        };
        format!("{} {} {} {}", self.token_wire(), ind, decl, dt)
    }
    pub fn token_params(&self, v: &Vocab) -> TokenSerializeParameters {
        TokenSerializeParameters {
            cdata_section_elements: self.cdata.iter().map(|i| v.name(*i)).collect(),
            unescaped_gt: self.gt,
        }
    }
    pub fn xml_params(&self, v: &Vocab) -> Parameters {
        Parameters {
            indentation: self.indent.as_ref().map(|s| Indentation { suppress: s.iter().map(|i| v.name(*i)).collect() }),
            cdata_section_elements: self.cdata.iter().map(|i| v.name(*i)).collect(),
            declaration: self.decl.as_ref().map(|(e, s)| Declaration { encoding: e.clone(), standalone: *s }),
            doctype: self.doctype.as_ref().map(|(p, s)| match p {
                Some(p) => DocType::Public { public: p.clone(), system: s.clone() },
                None => DocType::System { system: s.clone() },
            }),
            unescaped_gt: self.gt,
        }
    }
    /// Prolog parameter values are free of `"` and `?>` (the caller's side of C14).
    pub fn prolog_safe(&self) -> bool {
        let ok = |s: &str| !s.contains('"') && !s.contains("?>") && !s.contains('>') && !s.contains('<');
        self.decl.as_ref().map_or(true, |(e, _)| e.as_ref().map_or(true, |e| ok(e)))
            && self.doctype.as_ref().map_or(true, |(p, s)| p.as_ref().map_or(true, |p| ok(p)) && ok(s))
    }
}

/// Everything observed on the implementation for one (tree, start node, parameter set).
pub struct Observed {
    pub outputs: Res<Vec<(String, Ev)>>,
    pub tokens: Res<Vec<Tok>>,
    pub pretty_tokens: Res<Vec<Tok>>,
    pub token_string: Res<String>,  // serialize_xml_string with the token parameters only
    pub pretty_string: Res<String>, // … plus indentation (suppress list of the case, or empty)
    pub xml_string: Res<String>,    // full parameter set
    pub xml_write: (Res<()>, String),
}

pub struct Case<'a> {
    pub xot: &'a mut Xot,
    pub vocab: &'a Vocab,
    pub tree: &'a GTree,
    pub root: Node,
    pub start_path: Vec<usize>,
    pub start: Node,
    pub paths: HashMap<Node, String>,
    pub representable: bool,
    pub domain: Domain,
}

fn path_of(paths: &HashMap<Node, String>, n: Node) -> String {
    paths.get(&n).cloned().unwrap_or("?".to_string())
}

pub fn observe(c: &Case, p: &Params, sink: &mut Sink) -> Observed {
    let xot: &Xot = c.xot;
    let node = c.start;
    let tree_wire = format!("{} {}", path_str(&c.start_path), c.tree.wire());
    let suppress: Vec<usize> = p.indent.clone().unwrap_or_default();
    let suppress_ids: Vec<xot::NameId> = suppress.iter().map(|i| c.vocab.name(*i)).collect();

    let outputs = match guarded(|| xot.outputs(node).map(|(n, o)| (path_of(&c.paths, n), Ev::of(&o))).collect::<Vec<_>>()) {
        Some(v) => Res::Ok(v),
        None => Res::Panic,
    };
    sink.emit(
        format!("ser outputs {}", tree_wire),
        outputs.show(|v| join_ok(v.iter().map(|(q, e)| format!("{}/{}", q, e.wire())))),
    );

    let tokens = match guarded(|| {
        xot.tokens(node, p.token_params(c.vocab), NoopNormalizer)
            .map(|(n, o, k)| Tok { path: path_of(&c.paths, n), ev: Ev::of(&o), indentation: 0, space: k.space, text: k.text, newline: false })
            .collect::<Vec<_>>()
    }) {
        Some(v) => Res::Ok(v),
        None => Res::Panic,
    };
    sink.emit(
        format!("ser tokens {} {}", p.token_wire(), tree_wire),
        tokens.show(|v| join_ok(v.iter().map(|k| format!("{}/{}/{}/{}", k.path, k.ev.wire(), k.space as u8, enc(&k.text))))),
    );

    let pretty_tokens = match guarded(|| {
        xot.pretty_tokens(node, p.token_params(c.vocab), &suppress_ids, NoopNormalizer)
            .map(|(n, o, k)| Tok { path: path_of(&c.paths, n), ev: Ev::of(&o), indentation: k.indentation, space: k.space, text: k.text, newline: k.newline })
            .collect::<Vec<_>>()
    }) {
        Some(v) => Res::Ok(v),
        None => Res::Panic,
    };
    sink.emit(
        format!("ser pretty_tokens {} {} {}", p.token_wire(), ids(&suppress), tree_wire),
        pretty_tokens.show(|v| {
            join_ok(v.iter().map(|k| format!("{}/{}/{}/{}/{}/{}", k.path, k.ev.wire(), k.indentation, k.space as u8, enc(&k.text), k.newline as u8)))
        }),
    );

    let to_string = res_of(guarded(|| xot.to_string(node)));
    sink.emit(format!("ser to_string {}", tree_wire), to_string.show(|s| format!("ok {}", enc(s))));
    let mut buf = Vec::new();
    let w = res_of(guarded(|| xot.write(node, &mut buf)));
    let written = String::from_utf8_lossy(&buf).to_string();
    sink.emit(format!("ser write {}", tree_wire), format!("{} {}", w.show(|_| "ok".to_string()), enc(&written)));
    if let (Some(s), Res::Ok(())) = (to_string.ok(), &w) {
        if *s != written {
            ser_oracle::fail(sink, "C16", "C16:write-differs-from-to_string", "Xot::write bytes differ from Xot::to_string", c, &Params::plain());
        }
    }

    // the same bytes must reach a sink that takes only a few bytes per write() call
    {
        let mut cw = crate::common::ChunkWriter::new(1 + written.len() % 3);
        let w2 = res_of(guarded(|| xot.write(node, &mut cw)));
        if let (Res::Ok(()), Res::Ok(())) = (&w, &w2) {
            if cw.data != buf {
                ser_oracle::fail(sink, "C16", "C16:write-loses-bytes-on-short-writing-sink", &format!("Xot::write into a sink accepting {} byte(s) per call delivered {} of {} bytes", cw.max, cw.data.len(), buf.len()), c, &Params::plain());
            } else {
                sink.stat("oracle.C16.short-writing-sink-equal");
            }
        } else if w.kind() != w2.kind() {
            ser_oracle::fail(sink, "C16", "C16:write-outcome-depends-on-sink", &format!("Vec sink: {}, chunked sink: {}", w.kind(), w2.kind()), c, &Params::plain());
        }
    }

    let only_tokens = Params { indent: None, decl: None, doctype: None, ..p.clone() };
    let token_string = res_of(guarded(|| xot.serialize_xml_string(only_tokens.xml_params(c.vocab), node)));
    sink.emit(format!("ser xml_string {} {}", only_tokens.wire(), tree_wire), token_string.show(|s| format!("ok {}", enc(s))));
    let with_indent = Params { indent: Some(suppress.clone()), decl: None, doctype: None, ..p.clone() };
    let pretty_string = res_of(guarded(|| xot.serialize_xml_string(with_indent.xml_params(c.vocab), node)));
    sink.emit(format!("ser xml_string {} {}", with_indent.wire(), tree_wire), pretty_string.show(|s| format!("ok {}", enc(s))));
    let xml_string = res_of(guarded(|| xot.serialize_xml_string(p.xml_params(c.vocab), node)));
    sink.emit(format!("ser xml_string {} {}", p.wire(), tree_wire), xml_string.show(|s| format!("ok {}", enc(s))));
    let mut buf = Vec::new();
    let w = res_of(guarded(|| xot.serialize_xml_write(p.xml_params(c.vocab), node, &mut buf)));
    let written = String::from_utf8_lossy(&buf).to_string();
    sink.emit(format!("ser xml_write {} {}", p.wire(), tree_wire), format!("{} {}", w.show(|_| "ok".to_string()), enc(&written)));
    {
        let mut cw = crate::common::ChunkWriter::new(1 + buf.len() % 4);
        let w2 = res_of(guarded(|| xot.serialize_xml_write(p.xml_params(c.vocab), node, &mut cw)));
        if let (Res::Ok(()), Res::Ok(())) = (&w, &w2) {
            if cw.data != buf {
                ser_oracle::fail(sink, "C16", "C16:write-loses-bytes-on-short-writing-sink", &format!("serialize_xml_write into a sink accepting {} byte(s) per call delivered {} of {} bytes", cw.max, cw.data.len(), buf.len()), c, p);
            } else {
                sink.stat("oracle.C16.short-writing-sink-equal");
            }
        } else if w.kind() != w2.kind() {
            ser_oracle::fail(sink, "C16", "C16:write-outcome-depends-on-sink", &format!("Vec sink: {}, chunked sink: {}", w.kind(), w2.kind()), c, p);
        }
    }

    // a writer that fails (FailingWriter { fail_at_call }): outcome and the bytes the writer holds, compared with
    // the model (`serializeXmlWriteW (budget k)`); oracle: Err(Io), never a panic, a prefix of the string result
    {
        use crate::common::{failing_writer_verdict, pick_budget, FailingWriter};
        let mut rec = FailingWriter::counting();
        let w0 = res_of(guarded(|| xot.serialize_xml_write(p.xml_params(c.vocab), node, &mut rec)));
        let w0s = w0.show(|_| "ok".to_string());
        let w0k = w0s.split(' ').next().unwrap().to_string();
        let n = rec.calls;
        let rot = sink.stats.get("io.xml.cases").copied().unwrap_or(0);
        sink.stat("io.xml.cases");
        sink.stat(&format!("io.xml.calls.{}", match n { 0 => "0", 1..=4 => "1-4", 5..=20 => "5-20", 21..=80 => "21-80", _ => "81+" }));
        let mut ks = vec![pick_budget(n, rot)];
        if matches!(w0, Res::Err(_)) {
            // the serialisation itself fails after `n` calls: which error wins on either side of the boundary
            ks.push((n.saturating_sub(1), "just-before-the-serialisation-error"));
            ks.push((n, "up-to-the-serialisation-error"));
        }
        for (k, class) in ks {
            let mut fw = FailingWriter::new(k);
            let r = res_of(guarded(|| xot.serialize_xml_write(p.xml_params(c.vocab), node, &mut fw)));
            let rs = r.show(|_| "ok".to_string());
            sink.emit(format!("ser xml_write_fail {} {} {}", k, p.wire(), tree_wire), format!("{} {}", rs, enc(&String::from_utf8_lossy(&fw.data))));
            let rk = rs.split(' ').next().unwrap().to_string();
            sink.stat(&format!("io.xml.budget.{}", class));
            sink.stat(&format!("io.xml.outcome.{}", if rk == "ok" || rk == "err:Io" || rk == "panic" { rk.as_str() } else { "serialisation-error" }));
            if matches!(w0, Res::Err(_)) {
                sink.stat(&format!("io.xml.priority.{}-wins", if rk == "err:Io" { "Io" } else { "serialisation-error" }));
            }
            match failing_writer_verdict(&rk, &fw, &w0k, &rec) {
                Some((sig, what)) => ser_oracle::fail(sink, "C16", &format!("C16:{}", sig), &format!("serialize_xml_write: {}", what), c, p),
                None => sink.stat("oracle.C16.failing-writer-ok"),
            }
        }
        // Xot::write (default parameters) into a failing writer, every fourth case
        if rot % 4 == 0 {
            let mut rec = FailingWriter::counting();
            let w0 = res_of(guarded(|| xot.write(node, &mut rec)));
            let w0k = w0.show(|_| "ok".to_string()).split(' ').next().unwrap().to_string();
            let (k, class) = pick_budget(rec.calls, rot / 4);
            let mut fw = FailingWriter::new(k);
            let r = res_of(guarded(|| xot.write(node, &mut fw)));
            let rs = r.show(|_| "ok".to_string());
            sink.emit(format!("ser write_fail {} {}", k, tree_wire), format!("{} {}", rs, enc(&String::from_utf8_lossy(&fw.data))));
            let rk = rs.split(' ').next().unwrap().to_string();
            sink.stat(&format!("io.write.budget.{}", class));
            sink.stat(&format!("io.write.outcome.{}", if rk == "ok" || rk == "err:Io" || rk == "panic" { rk.as_str() } else { "serialisation-error" }));
            match failing_writer_verdict(&rk, &fw, &w0k, &rec) {
                Some((sig, what)) => ser_oracle::fail(sink, "C16", &format!("C16:{}", sig), &format!("Xot::write: {}", what), c, &Params::plain()),
                None => sink.stat("oracle.C16.failing-writer-ok"),
            }
        }
    }

    // a writer with a BYTE budget (ByteBudgetWriter { remaining }): outcome and the bytes the writer holds, compared
    // with the model (`serializeXmlWriteB (byteBudget n)`); oracle: Err(Io) iff the budget is smaller than the byte
    // length of the never-failing run, the writer holds exactly its first min(budget, len) bytes — budgets chosen to
    // end inside multi-byte characters whenever there is one
    {
        use crate::common::{byte_budget_verdict, enc_bytes, pick_byte_budgets, ByteBudgetWriter};
        let wk = w.show(|_| "ok".to_string()).split(' ').next().unwrap().to_string();
        let rot = sink.stats.get("bytes.xml.cases").copied().unwrap_or(0);
        sink.stat("bytes.xml.cases");
        for (n, class) in pick_byte_budgets(&buf, rot) {
            let mut bw = ByteBudgetWriter::new(n);
            let r = res_of(guarded(|| xot.serialize_xml_write(p.xml_params(c.vocab), node, &mut bw)));
            let rs = r.show(|_| "ok".to_string());
            sink.emit(format!("ser xml_write_bytes {} {} {}", n, p.wire(), tree_wire), format!("{} {}", rs, enc_bytes(&bw.data)));
            let rk = rs.split(' ').next().unwrap().to_string();
            sink.stat(&format!("bytes.xml.budget.{}", class));
            sink.stat(&format!("bytes.xml.outcome.{}", if rk == "ok" || rk == "err:Io" || rk == "panic" { rk.as_str() } else { "serialisation-error" }));
            if std::str::from_utf8(&bw.data).is_err() {
                sink.stat("bytes.xml.sink-ends-inside-a-character");
            }
            match byte_budget_verdict(&rk, &bw, n, &wk, &buf) {
                Some(what) => ser_oracle::fail(sink, "C16", "C16:byte-budget-writer-differs", &format!("serialize_xml_write: {}", what), c, p),
                None => sink.stat("oracle.C16.byte-budget-writer-ok"),
            }
        }
        // Xot::write (default parameters) into the same writer, every fourth case
        if rot % 4 == 0 {
            let mut buf0 = Vec::new();
            let w0 = res_of(guarded(|| xot.write(node, &mut buf0)));
            let w0k = w0.show(|_| "ok".to_string()).split(' ').next().unwrap().to_string();
            for (n, class) in pick_byte_budgets(&buf0, rot / 4) {
                let mut bw = ByteBudgetWriter::new(n);
                let r = res_of(guarded(|| xot.write(node, &mut bw)));
                let rs = r.show(|_| "ok".to_string());
                sink.emit(format!("ser write_bytes {} {}", n, tree_wire), format!("{} {}", rs, enc_bytes(&bw.data)));
                let rk = rs.split(' ').next().unwrap().to_string();
                sink.stat(&format!("bytes.write.budget.{}", class));
                match byte_budget_verdict(&rk, &bw, n, &w0k, &buf0) {
                    Some(what) => ser_oracle::fail(sink, "C16", "C16:byte-budget-writer-differs", &format!("Xot::write: {}", what), c, &Params::plain()),
                    None => sink.stat("oracle.C16.byte-budget-writer-ok"),
                }
            }
        }
    }

    for (k, r) in [("outputs", outputs.kind()), ("tokens", tokens.kind()), ("to_string", to_string.kind()), ("xml_string", xml_string.kind())] {
        sink.stat(&format!("resp.{}.{}", k, r));
    }
    if let Res::Err(e) = &xml_string {
        sink.stat(&format!("error.{}", e.split(' ').next().unwrap()));
    }
    Observed { outputs, tokens, pretty_tokens, token_string, pretty_string, xml_string, xml_write: (w, written) }
}

pub fn join_ok(items: impl Iterator<Item = String>) -> String {
    let v: Vec<String> = items.collect();
    if v.is_empty() {
        "ok".to_string()
    } else {
        format!("ok {}", v.join(" "))
    }
}

pub fn run_tree(t: &GTree, representable: bool, start_path: &[usize], params: &[Params], sink: &mut Sink) {
    run_tree_in(t, if representable { Domain::Representable } else { Domain::Outside }, start_path, params, sink)
}

pub fn run_tree_in(t: &GTree, domain: Domain, start_path: &[usize], params: &[Params], sink: &mut Sink) {
    let representable = domain == Domain::Representable;
    let mut xot = Xot::new();
    let vocab = ser_vocab(&mut xot);
    let root = match build(&mut xot, &vocab, t, true) {
        Ok(n) => n,
        Err(_) => {
            sink.stat("gen.build-refused");
            return;
        }
    };
    let nodes = nodes_in_order(&xot, root);
    let tpaths = t.paths();
    if nodes.len() != tpaths.len() {
        sink.stat("gen.readback-differs");
        return;
    }
    let paths: HashMap<Node, String> = nodes.iter().zip(tpaths.iter()).map(|(n, p)| (*n, path_str(p))).collect();
    let idx = tpaths.iter().position(|p| p.as_slice() == start_path).expect("start path exists");
    let start = nodes[idx];
    sink.stat(&format!("size.{}", match t.size() { 0..=1 => "1", 2..=5 => "2-5", 6..=15 => "6-15", 16..=40 => "16-40", _ => "41+" }));
    sink.stat(if start_path.is_empty() { "start.root" } else { "start.inner" });
    sink.stat(&format!(
        "start.kind.{}",
        match &t.at(start_path).unwrap().v {
            GValue::Document => "document",
            GValue::Element(_) => "element",
            GValue::Text(_) => if start_path.is_empty() { "text-parentless" } else { "text" },
            GValue::Comment(_) => "comment",
            GValue::PI(..) => "pi",
            GValue::Attribute(..) => "attribute",
            GValue::Namespace(..) => "namespace",
        }
    ));
    for p in params {
        let mut case = Case { xot: &mut xot, vocab: &vocab, tree: t, root, start_path: start_path.to_vec(), start, paths: paths.clone(), representable, domain };
        let obs = observe(&case, p, sink);
        ser_oracle::check(&mut case, p, &obs, sink);
    }
    normalizer_oracle(t, start_path, params, sink);
}

/// The `*_with_normalizer` entry points: serialising a tree with a normalizer must give what
/// serialising the normalised tree gives — the normalizer runs on the character data / attribute
/// values BEFORE they are escaped, so markup characters it produces are escaped like any others
/// (oracle on the implementation; proved in the model: C14_normalizer_is_premap).  The result under
/// the normalizer is also a correspondence line (`ser xml_string_norm`, model: `fullwidthNorm`).
fn normalizer_oracle(t: &GTree, start_path: &[usize], params: &[Params], sink: &mut Sink) {
    let mut rng = Rng::new(0x4e0f ^ (t.size() as u64 * 7919 + start_path.len() as u64));
    let tf = sprinkle_fullwidth(t, &mut rng);
    if !has_fullwidth(&tf) {
        sink.stat("normalizer.nothing-to-normalise");
        return;
    }
    let tn = map_tree_fullwidth(&tf);
    let mut xa = Xot::new();
    let va = ser_vocab(&mut xa);
    let mut xb = Xot::new();
    let vb = ser_vocab(&mut xb);
    let (ra, rb) = match (build(&mut xa, &va, &tf, true), build(&mut xb, &vb, &tn, true)) {
        (Ok(a), Ok(b)) => (a, b),
        _ => return,
    };
    let (na, nb) = (nodes_in_order(&xa, ra), nodes_in_order(&xb, rb));
    let tpaths = tf.paths();
    if na.len() != tpaths.len() || nb.len() != tpaths.len() {
        return;
    }
    let idx = match tpaths.iter().position(|p| p.as_slice() == start_path) {
        Some(i) => i,
        None => return,
    };
    for p in params {
        let a = res_of(guarded(|| xa.serialize_xml_string_with_normalizer(p.xml_params(&va), na[idx], FullwidthNormalizer)));
        // correspondence: the model's `serializeXmlStringWith (normEscapers fullwidthNorm)` on the same tree
        sink.emit(
            format!("ser xml_string_norm {} {} {}", p.wire(), path_str(start_path), tf.wire()),
            a.show(|s| format!("ok {}", enc(s))),
        );
        sink.stat(&format!("normalizer.request.{}", a.kind()));
        // the Write-based entry point, called directly (the string variant goes through it into a Vec):
        // a correspondence line with the bytes delivered (also on an error), and two oracles on the
        // implementation — the bytes are the string variant's, and a sink that accepts a few bytes
        // per write() call receives the same bytes
        {
            let mut buf = Vec::new();
            let w = res_of(guarded(|| xa.serialize_xml_write_with_normalizer(p.xml_params(&va), na[idx], &mut buf, FullwidthNormalizer)));
            let written = String::from_utf8_lossy(&buf).to_string();
            sink.emit(
                format!("ser xml_write_norm {} {} {}", p.wire(), path_str(start_path), tf.wire()),
                format!("{} {}", w.show(|_| "ok".to_string()), enc(&written)),
            );
            sink.stat(&format!("normalizer.write-request.{}", w.kind()));
            let fail_norm = |sink: &mut Sink, sig: &str, what: String| {
                sink.stat(&format!("oracle.fail.{}", sig));
                println!(
                    "F\tC16\t{{\"signature\": \"{}\", \"what\": {}, \"replay\": {{\"suite\": \"ser\", \"tree\": {}, \"start\": {}, \"params\": {}}}}}",
                    sig,
                    ser_oracle::json_str(&what),
                    ser_oracle::json_str(&tf.wire()),
                    ser_oracle::json_str(&path_str(start_path)),
                    ser_oracle::json_str(&p.wire())
                );
            };
            match (&a, &w) {
                (Res::Ok(s), Res::Ok(())) if *s == written => sink.stat("oracle.C16.write_with_normalizer-equals-string_with_normalizer"),
                (Res::Ok(s), Res::Ok(())) => fail_norm(sink, "C16:write_with_normalizer-differs-from-string_with_normalizer", format!("serialize_xml_write_with_normalizer wrote {}, serialize_xml_string_with_normalizer gives {}", ser_oracle::short(&written), ser_oracle::short(s))),
                _ if a.kind() == w.kind() && a.show(|_| String::new()) == w.show(|_| String::new()) => sink.stat("oracle.C16.write_with_normalizer-same-refusal"),
                _ => fail_norm(sink, "C16:write_with_normalizer-outcome-differs-from-string_with_normalizer", format!("write: {}, string: {}", w.show(|_| "ok".to_string()), a.show(|_| "ok".to_string()))),
            }
            let mut cw = crate::common::ChunkWriter::new(1 + buf.len() % 4);
            let w2 = res_of(guarded(|| xa.serialize_xml_write_with_normalizer(p.xml_params(&va), na[idx], &mut cw, FullwidthNormalizer)));
            if let (Res::Ok(()), Res::Ok(())) = (&w, &w2) {
                if cw.data != buf {
                    fail_norm(sink, "C16:write-loses-bytes-on-short-writing-sink", format!("serialize_xml_write_with_normalizer into a sink accepting {} byte(s) per call delivered {} of {} bytes", cw.max, cw.data.len(), buf.len()));
                } else {
                    sink.stat("oracle.C16.write_with_normalizer-short-writing-sink-equal");
                }
            } else if w.kind() != w2.kind() {
                fail_norm(sink, "C16:write-outcome-depends-on-sink", format!("Vec sink: {}, chunked sink: {}", w.kind(), w2.kind()));
            }
        }
        let b = res_of(guarded(|| xb.serialize_xml_string(p.xml_params(&vb), nb[idx])));
        let same = match (&a, &b) {
            (Res::Ok(x), Res::Ok(y)) => x == y,
            _ => a.kind() == b.kind(),
        };
        // C16 under a normalizer: the token stream, concatenated, is the string
        let toks: Res<String> = match guarded(|| {
            xa.tokens(na[idx], p.token_params(&va), FullwidthNormalizer)
                .map(|(_, _, t)| format!("{}{}", if t.space { " " } else { "" }, t.text))
                .collect::<Vec<String>>()
                .concat()
        }) {
            Some(v) => Res::Ok(v),
            None => Res::Panic,
        };
        let only_tokens = Params { indent: None, decl: None, doctype: None, ..p.clone() };
        let a_tok = res_of(guarded(|| xa.serialize_xml_string_with_normalizer(only_tokens.xml_params(&va), na[idx], FullwidthNormalizer)));
        match (&toks, &a_tok) {
            (Res::Ok(x), Res::Ok(y)) if x != y => {
                sink.stat("oracle.fail.C16:tokens-differ-from-string-under-a-normalizer");
                println!(
                    "F\tC16\t{{\"signature\": \"C16:tokens-differ-from-string-under-a-normalizer\", \"what\": {}, \"replay\": {{\"suite\": \"ser\", \"tree\": {}, \"start\": {}, \"params\": {}}}}}",
                    ser_oracle::json_str(&format!("tokens(.., FullwidthNormalizer) concatenate to {}, serialize_xml_string_with_normalizer gives {}", ser_oracle::short(x), ser_oracle::short(y))),
                    ser_oracle::json_str(&tf.wire()),
                    ser_oracle::json_str(&path_str(start_path)),
                    ser_oracle::json_str(&only_tokens.wire())
                );
            }
            (Res::Ok(_), Res::Ok(_)) => sink.stat("oracle.C16.tokens-equal-string-under-a-normalizer"),
            _ => {}
        }
        if same {
            sink.stat("oracle.C14.normalizer-equals-normalised-tree");
        } else {
            sink.stat("oracle.fail.C14:normalizer-output-differs-from-serialising-the-normalised-tree");
            println!(
                "F\tC14\t{{\"signature\": \"C14:normalizer-output-differs-from-serialising-the-normalised-tree\", \"what\": {}, \"replay\": {{\"suite\": \"ser\", \"tree\": {}, \"start\": {}, \"params\": {}}}}}",
                ser_oracle::json_str(&format!("serialize_xml_string_with_normalizer (fullwidth forms -> ASCII) gives {}, the normalised tree serialises to {}", a.show(|s| ser_oracle::short(s)), b.show(|s| ser_oracle::short(s)))),
                ser_oracle::json_str(&tf.wire()),
                ser_oracle::json_str(&path_str(start_path)),
                ser_oracle::json_str(&p.wire())
            );
        }
    }
}

/// Fixed cases: the shapes named by DESIGN.md section 8 rows 2, 13, 16, 18 and their neighbours.
fn corpus(sink: &mut Sink) {
    use GValue::*;
    let e = |n: usize, kids: Vec<GTree>| GTree::new(Element(n), kids);
    let plain = Params::plain();
    let indent = Params { indent: Some(vec![]), ..Params::plain() };
    // row 18: detached text; text directly under a document
    run_tree(&GTree::leaf(Text("a<b>]]>".into())), true, &[], &[plain.clone(), Params { cdata: vec![2], gt: true, ..Params::plain() }], sink);
    run_tree(&GTree::new(Document, vec![GTree::leaf(Text("x".into()))]), true, &[], &[plain.clone(), indent.clone()], sink);
    // row 13: <a xmlns="urn:a"> with a no-namespace child
    run_tree(&GTree::new(Document, vec![e(6, vec![GTree::leaf(Namespace(0, NS_A)), e(3, vec![])])]), true, &[], &[plain.clone()], sink);
    // row 16: <doc><a xml:space="preserve"><b><c/></b></a></doc>
    let pres = GTree::new(Document, vec![e(5, vec![e(2, vec![GTree::leaf(Attribute(0, "preserve".into())), e(3, vec![e(4, vec![])])])])]);
    run_tree(&pres, true, &[], &[indent.clone(), Params { indent: Some(vec![3]), ..Params::plain() }], sink);
    run_tree(&pres, true, &[0, 0], &[indent.clone()], sink);
    // row 2: URI with characters that need escaping
    run_tree(&GTree::new(Document, vec![e(NAME_WE, vec![GTree::leaf(Namespace(2, NS_W))])]), true, &[], &[plain.clone()], sink);
    // subtree whose names rely on declarations of its ancestors; attribute / namespace start nodes
    let sub = GTree::new(Document, vec![e(9, vec![
        GTree::leaf(Namespace(2, NS_A)), GTree::leaf(Namespace(0, NS_B)), GTree::leaf(Attribute(8, "v".into())),
        e(6, vec![GTree::leaf(Namespace(3, NS_C)), e(9, vec![GTree::leaf(Attribute(14, "1".into())), GTree::leaf(Text("t".into()))])]),
    ])]);
    for sp in [vec![], vec![0], vec![0, 3], vec![0, 3, 1], vec![0, 3, 1, 1], vec![0, 0], vec![0, 2]] {
        run_tree(&sub, true, &sp, &[plain.clone(), indent.clone()], sink);
    }
    // missing prefix, PI target in a namespace, doctype on non-elements
    run_tree(&e(6, vec![]), true, &[], &[plain.clone()], sink);
    run_tree(&GTree::new(Document, vec![GTree::leaf(PI(6, None))]), true, &[], &[plain.clone()], sink);
    let dt = Params { doctype: Some((None, "d.dtd".into())), decl: Some((Some("UTF-8".into()), Some(true))), ..Params::plain() };
    run_tree(&GTree::leaf(Text("x".into())), true, &[], &[dt.clone()], sink);
    run_tree(&GTree::leaf(Document), true, &[], &[dt.clone()], sink);
    run_tree(&sub, true, &[0, 3], &[dt.clone()], sink);
    run_tree(&sub, true, &[], &[dt.clone()], sink);
    // outside the round-trip domain with a precise expectation: CR in a comment / PI data, a
    // prefix bound to the empty name, bindings to the xmlns namespace name
    let od = Domain::OutsideCrOrRejectedDeclaration;
    run_tree_in(&GTree::new(Document, vec![e(2, vec![GTree::leaf(Comment("x\r\ny".into())), GTree::leaf(PI(17, Some("x\ry".into())))])]), od, &[], &[plain.clone(), indent.clone()], sink);
    run_tree_in(&GTree::new(Document, vec![GTree::leaf(Comment("\r".into())), e(2, vec![])]), od, &[], &[plain.clone()], sink);
    run_tree_in(&GTree::new(Document, vec![e(2, vec![GTree::leaf(Namespace(2, 0)), e(3, vec![])])]), od, &[], &[plain.clone()], sink);
    run_tree_in(&GTree::new(Document, vec![e(2, vec![GTree::leaf(Namespace(2, 0)), e(3, vec![])])]), od, &[0, 1], &[plain.clone()], sink);
    run_tree_in(&GTree::new(Document, vec![e(2, vec![GTree::leaf(Namespace(2, NS_XMLNS))])]), od, &[], &[plain.clone()], sink);
    run_tree_in(&GTree::new(Document, vec![e(2, vec![e(3, vec![GTree::leaf(Namespace(0, NS_XMLNS))])])]), od, &[], &[plain.clone()], sink);
    // two prefixes bound to the root element's namespace: doctype name vs start tag
    run_tree(&GTree::new(Document, vec![e(6, vec![GTree::leaf(Namespace(4, NS_A)), GTree::leaf(Namespace(3, NS_A))])]), true, &[], &[dt.clone()], sink);
}

/// Small-scope enumeration (tier `thorough`): every tree of at most three elements whose elements
/// each choose a name (no namespace / urn:a), a declaration (none, default, prefixed, xmlns="")
/// and an xml:space value (none, preserve), with and without a text child in the last
/// element; serialised plainly and with indentation.
fn exhaustive(sink: &mut Sink) {
    let mut opts: Vec<Vec<GTree>> = vec![];
    let mut names: Vec<usize> = vec![];
    for name in [2usize, 6] {
        for decl in [None, Some((0usize, NS_A)), Some((2, NS_A)), Some((0, 0))] {
            for space in [None, Some("preserve")] {
                let mut kids = vec![];
                if let Some((p, n)) = decl {
                    kids.push(GTree::leaf(GValue::Namespace(p, n)));
                }
                if let Some(v) = space {
                    kids.push(GTree::leaf(GValue::Attribute(0, v.to_string())));
                }
                opts.push(kids);
                names.push(name);
            }
        }
    }
    let el = |i: usize, extra: Vec<GTree>| {
        let mut kids = opts[i].clone();
        kids.extend(extra);
        GTree::new(GValue::Element(names[i]), kids)
    };
    let params = [Params::plain(), Params { indent: Some(vec![]), ..Params::plain() }];
    let n = opts.len();
    for with_text in [false, true] {
        let tail = |v: Vec<GTree>| -> Vec<GTree> {
            if with_text {
                let mut v = v;
                v.push(GTree::leaf(GValue::Text("t".to_string())));
                v
            } else {
                v
            }
        };
        for a in 0..n {
            run_tree(&GTree::new(GValue::Document, vec![el(a, tail(vec![]))]), true, &[], &params, sink);
            for b in 0..n {
                run_tree(&GTree::new(GValue::Document, vec![el(a, vec![el(b, tail(vec![]))])]), true, &[], &params, sink);
                for c in 0..n {
                    run_tree(&GTree::new(GValue::Document, vec![el(a, vec![el(b, vec![el(c, tail(vec![]))])])]), true, &[], &params, sink);
                    run_tree(&GTree::new(GValue::Document, vec![el(a, vec![el(b, vec![]), el(c, tail(vec![]))])]), true, &[], &params, sink);
                }
            }
        }
    }
}

/// The boundary of "with a normalizer = the normalised tree without one" (C14_normalizer_is_premap, hypothesis
/// `NsWritten`; C14_normalizer_ns_necessary): the namespace URI of an `xmlns` declaration goes through the
/// normalizer too, but is no string of the tree.  Correspondence lines only, with a vocabulary that has a
/// namespace URI containing fullwidth forms; `xml:space` values next to it (read as stored by `Pretty`).
fn normalizer_boundary(sink: &mut Sink) {
    use GValue::*;
    let mk = |xot: &mut Xot| {
        let mut v = ser_vocab(xot);
        let ns = v.add_ns(xot, "urn:\u{ff06}\u{ff1c}\u{ff02}");
        let el = v.add_name(xot, "f", ns);
        let at = v.add_name(xot, "g", ns);
        (v, ns, el, at)
    };
    let (wire, ns, el, at) = {
        let mut xot = Xot::new();
        let (v, ns, el, at) = mk(&mut xot);
        (v.wire(), ns, el, at)
    };
    sink.emit(wire, "ok".to_string());
    let trees = [
        GTree::new(Element(el), vec![GTree::leaf(Namespace(0, ns)), GTree::leaf(Text("\u{ff1c}\u{ff06}".into()))]),
        GTree::new(Document, vec![GTree::new(Element(el), vec![
            GTree::leaf(Namespace(2, ns)),
            GTree::leaf(Attribute(at, "\u{ff02}\u{ff07}".into())),
            GTree::leaf(Attribute(0, "preserve".into())),
            GTree::new(Element(2), vec![GTree::new(Element(3), vec![])]),
        ])]),
        GTree::new(Document, vec![GTree::new(Element(2), vec![
            GTree::leaf(Attribute(0, "\u{ff1c}preserve".into())),
            GTree::new(Element(el), vec![GTree::leaf(Namespace(0, ns)), GTree::new(Element(el), vec![])]),
        ])]),
    ];
    let params = [Params::plain(), Params { indent: Some(vec![]), ..Params::plain() }, Params { cdata: vec![el], gt: true, ..Params::plain() }];
    for t in &trees {
        let mut xot = Xot::new();
        let (v, ..) = mk(&mut xot);
        let root = match build(&mut xot, &v, t, true) {
            Ok(r) => r,
            Err(_) => continue,
        };
        for p in &params {
            let r = res_of(guarded(|| xot.serialize_xml_string_with_normalizer(p.xml_params(&v), root, FullwidthNormalizer)));
            sink.emit(format!("ser xml_string_norm {} . {}", p.wire(), t.wire()), r.show(|s| format!("ok {}", enc(s))));
            let mut buf = Vec::new();
            let w = res_of(guarded(|| xot.serialize_xml_write_with_normalizer(p.xml_params(&v), root, &mut buf, FullwidthNormalizer)));
            sink.emit(format!("ser xml_write_norm {} . {}", p.wire(), t.wire()), format!("{} {}", w.show(|_| "ok".to_string()), enc(&String::from_utf8_lossy(&buf))));
            sink.stat("normalizer.boundary.namespace-uri");
        }
    }
    let mut xot = Xot::new();
    let vocab = ser_vocab(&mut xot);
    sink.emit(vocab.wire(), "ok".to_string());
}

/// Every byte budget `0 ..= len + 1` for documents whose text, attribute value, comment, processing instruction,
/// declaration encoding and doctype identifiers consist of 2-, 3- and 4-byte characters: most budgets end inside a
/// character.  Model: `serializeXmlWriteB (byteBudget n)`; oracle `byte_budget_verdict`.
fn byte_budget_sweep(sink: &mut Sink) {
    use crate::common::{byte_budget_verdict, enc_bytes, ByteBudgetWriter};
    use GValue::*;
    let e = |n: usize, kids: Vec<GTree>| GTree::new(Element(n), kids);
    let trees = vec![
        GTree::new(Document, vec![e(2, vec![GTree::leaf(Text("é€😀".into()))])]),
        GTree::new(Document, vec![e(2, vec![GTree::leaf(Attribute(8, "ß中\u{10ffff}".into())), e(3, vec![GTree::leaf(Text("\u{a0}<\u{2028}&\u{1f600}".into()))])])]),
        GTree::new(Document, vec![GTree::leaf(Comment("\u{7ff}\u{800}\u{ffff}\u{10000}".into())), e(2, vec![GTree::leaf(Text("\u{80}\u{d7ff}\u{e000}".into()))])]),
        // the serialisation itself fails (missing prefix) after some multi-byte bytes
        GTree::new(Document, vec![e(2, vec![GTree::leaf(Text("中é".into())), e(6, vec![])])]),
    ];
    let params = [
        Params::plain(),
        Params { indent: Some(vec![]), ..Params::plain() },
        Params { decl: Some((Some("ü€".into()), Some(true))), doctype: Some((Some("é".into()), "😀".into())), cdata: vec![3], ..Params::plain() },
    ];
    for t in &trees {
        let mut xot = Xot::new();
        let vocab = ser_vocab(&mut xot);
        let root = match build(&mut xot, &vocab, t, true) {
            Ok(n) => n,
            Err(_) => {
                sink.stat("gen.build-refused");
                continue;
            }
        };
        let nodes = nodes_in_order(&xot, root);
        let tpaths = t.paths();
        let paths: HashMap<Node, String> = nodes.iter().zip(tpaths.iter()).map(|(n, p)| (*n, path_str(p))).collect();
        for p in &params {
            let mut buf = Vec::new();
            let w = res_of(guarded(|| xot.serialize_xml_write(p.xml_params(&vocab), root, &mut buf)));
            let wk = w.show(|_| "ok".to_string()).split(' ').next().unwrap().to_string();
            sink.stat("family.byte-budget-sweep");
            for n in 0..=buf.len() + 1 {
                let mut bw = ByteBudgetWriter::new(n);
                let r = res_of(guarded(|| xot.serialize_xml_write(p.xml_params(&vocab), root, &mut bw)));
                let rs = r.show(|_| "ok".to_string());
                sink.emit(format!("ser xml_write_bytes {} {} . {}", n, p.wire(), t.wire()), format!("{} {}", rs, enc_bytes(&bw.data)));
                let rk = rs.split(' ').next().unwrap().to_string();
                sink.stat(&format!("bytes.sweep.outcome.{}", if rk == "ok" || rk == "err:Io" || rk == "panic" { rk.as_str() } else { "serialisation-error" }));
                if std::str::from_utf8(&bw.data).is_err() {
                    sink.stat("bytes.sweep.sink-ends-inside-a-character");
                }
                match byte_budget_verdict(&rk, &bw, n, &wk, &buf) {
                    Some(what) => {
                        let case = Case { xot: &mut xot, vocab: &vocab, tree: t, root, start_path: vec![], start: root, paths: paths.clone(), representable: true, domain: Domain::Representable };
                        ser_oracle::fail(sink, "C16", "C16:byte-budget-writer-differs", &format!("serialize_xml_write: {}", what), &case, p)
                    }
                    None => sink.stat("oracle.C16.byte-budget-writer-ok"),
                }
            }
        }
    }
}

pub fn run(seed: u64, count: usize, tier: &str, sink: &mut Sink) {
    let mut rng = Rng::new(seed ^ 0x5E71A1);
    {
        let mut xot = Xot::new();
        let vocab = ser_vocab(&mut xot);
        sink.emit(vocab.wire(), "ok".to_string());
    }
    corpus(sink);
    byte_budget_sweep(sink);
    normalizer_boundary(sink);
    if tier == "thorough" {
        exhaustive(sink);
    }
    let elem_names: Vec<usize> = GenCfg::default_cfg().elem_names;
    let search = tier == "search";
    // deep element-only nesting, indented: the indentation width grows past any fixed buffer
    // (seed C16f: wrong beyond level 15)
    for k in 0..(if tier == "quick" { 4 } else { 12 }) {
        let depth = 14 + 5 * k + rng.below(5);
        let mut t = match rng.below(3) {
            0 => GTree::new(GValue::Element(2), vec![]),
            1 => GTree::leaf(GValue::Comment("c".into())),
            _ => GTree::new(GValue::Element(3), vec![GTree::leaf(GValue::Text("x".into()))]),
        };
        for i in 0..depth {
            let mut kids = vec![t];
            if rng.chance(1, 4) {
                kids.push(GTree::new(GValue::Element(4), vec![]));
            }
            t = GTree::new(GValue::Element(*rng.pick(&[2usize, 3, 4])), kids);
            let _ = i;
        }
        let t = GTree::new(GValue::Document, vec![t]);
        sink.stat("family.deep-nesting");
        let indent = Params { indent: Some(vec![]), ..Params::plain() };
        run_tree_in(&t, Domain::Representable, &[], &[indent, Params::plain()], sink);
    }
    // the Pretty stack: chains of elements where every level is, independently, in / out of
    // xml:space (preserve, default), mixed content or not, named in the suppress list or not,
    // around an element-only core (seed C14i: a preserve + mixed level whose Mixed entry was
    // lost, seen only below a later xml:space="default")
    for _ in 0..(if tier == "quick" { 60 } else { 400 }) {
        let mut t = GTree::new(GValue::Element(2), vec![GTree::new(GValue::Element(3), vec![]), GTree::new(GValue::Element(3), vec![])]);
        let depth = 2 + rng.below(4);
        for _ in 0..depth {
            let mut kids = vec![];
            match rng.below(4) {
                0 => kids.push(GTree::leaf(GValue::Attribute(0, "preserve".into()))),
                1 => kids.push(GTree::leaf(GValue::Attribute(0, "default".into()))),
                _ => {}
            }
            let mixed = rng.chance(1, 3);
            let before = mixed && rng.chance(1, 2);
            if before {
                kids.push(GTree::leaf(GValue::Text("text".into())));
            }
            kids.push(t);
            if mixed && !before {
                kids.push(GTree::leaf(GValue::Text("text".into())));
            }
            // name 4 is the one the suppress list names
            t = GTree::new(GValue::Element(if rng.chance(1, 4) { 4 } else { *rng.pick(&[2usize, 3]) }), kids);
        }
        let t = GTree::new(GValue::Document, vec![GTree::new(GValue::Element(2), vec![t])]);
        sink.stat("family.pretty-stack");
        let ps = [Params { indent: Some(vec![4]), ..Params::plain() }, Params { indent: Some(vec![]), ..Params::plain() }];
        run_tree_in(&t, Domain::Representable, &[], &ps, sink);
    }
    for _ in 0..count {
        let (t, domain) = {
            let mut xot = Xot::new();
            let vocab = ser_vocab(&mut xot);
            gen_tree(&mut rng, sink, &vocab)
        };
        let tpaths = t.paths();
        let start_path = if rng.chance(3, 5) { vec![] } else { rng.pick(&tpaths).clone() };
        let mut params = vec![gen_params(&mut rng, &elem_names)];
        if rng.chance(1, 2) || search {
            params.push(gen_params(&mut rng, &elem_names));
        }
        run_tree_in(&t, domain, &start_path, &params, sink);
    }
}
