//! Construction programs WITH NAVIGATION AND INPUTS (C20, `lean/XotModel/Model/FanyorderSpec3.lean`),
//! suite `fanyorder3`.  One target document is produced by THREE different programs in one store:
//!   A. top-down from nothing: a child that has been appended is addressed again by `child p k`
//!      (navigation) before its declarations, attributes and children are added;
//!   B. bottom-up through a clone: the document element is built bottom-up as a template under a
//!      scratch element, the scratch element is `clone`d, the program navigates INTO THE COPY
//!      (`child copy 0`), moves the copied element under a new document node, removes the rest of
//!      the copy and the template; the prolog / epilog items are placed by `insert_before` / `append`;
//!   C. editing in place: a MUTATED document (as a parse of an older version would have left it in
//!      the store: other names, texts, comments, PI targets and data, attribute values, namespace
//!      URIs, extra attributes / declarations, junk children, missing children) is the program's
//!      INPUT; the program navigates with `child` / `attr_node` / `ns_node` / `parent` and repairs it
//!      with `set_name`, `set_text`, `set_comment`, `pi_set_target`, `set_pi_data`, `attr_set_value`,
//!      `ns_set_ns`, `remove_attribute`, `remove_namespace`, `clear_attributes`, `clear_namespaces`,
//!      `set_attr`, `set_ns`, `remove`, and top-down insertion of what is missing.
//! Every update step is an ordinary `forest` request (replayed by the implementation model step by
//! step); navigation is performed on the real crate.  The whole program is moreover sent as
//! `forest prog3 spec in <inputs> ; …` / `forest prog3 impl …`, placed BEFORE its first step: the
//! specification's and the model interpreter's run from the state before the program — expected
//! answer: the content of the real forest after the program and the DENOTATION read off the crate
//! (for every input and result the root tree it lies in, `-` for a removed node), so a navigation
//! that finds a different node in the model than in the crate shows up.
//! Oracle (`C20:program-routes-differ`): the three results are `deep_equal` pairwise and read back
//! as the target document.
use crate::common::{enc, Rng, Sink};
use crate::suite_forest::{build_ops, Session};
use crate::suite_fspec::erase_labels;
use crate::tree::*;
use xot::Node;

const EL_NAMES: [usize; 4] = [2, 3, 4, 5];
const ATTR_NAMES: [usize; 5] = [2, 3, 4, 5, 16];
const PREFIXES: [usize; 3] = [2, 3, 4];
const NSS: [usize; 3] = [2, 3, 4];
const JUNK_NAME: usize = 17;

fn small(rng: &mut Rng) -> String {
    let n = 1 + rng.below(4);
    (0..n).map(|_| *rng.pick(&['x', 'y', 'z', ' ', 'a', '<', '&'])).collect()
}

fn gen_misc(rng: &mut Rng) -> GTree {
    if rng.chance(1, 2) {
        GTree::leaf(GValue::Comment(small(rng)))
    } else {
        let d = if rng.chance(1, 3) { None } else { Some(small(rng)) };
        GTree::leaf(GValue::PI(*rng.pick(&[18usize, 19]), d))
    }
}

fn subset<T: Copy>(rng: &mut Rng, all: &[T], max: usize) -> Vec<T> {
    let mut pool: Vec<T> = all.to_vec();
    let mut out = vec![];
    let n = rng.below(max + 1);
    for _ in 0..n {
        if pool.is_empty() {
            break;
        }
        let i = rng.below(pool.len());
        out.push(pool.remove(i));
    }
    out
}

fn gen_elem(rng: &mut Rng, depth: usize) -> GTree {
    let mut kids = vec![];
    for p in subset(rng, &PREFIXES, 2) {
        kids.push(GTree::leaf(GValue::Namespace(p, *rng.pick(&NSS))));
    }
    for a in subset(rng, &ATTR_NAMES, 3) {
        kids.push(GTree::leaf(GValue::Attribute(a, small(rng))));
    }
    let n = rng.below(5);
    let mut last_text = false;
    for _ in 0..n {
        let c = rng.below(10);
        if c < 4 && !last_text {
            kids.push(GTree::leaf(GValue::Text(small(rng))));
            last_text = true;
        } else if c < 7 && depth < 3 {
            kids.push(gen_elem(rng, depth + 1));
            last_text = false;
        } else {
            kids.push(gen_misc(rng));
            last_text = false;
        }
    }
    GTree::new(GValue::Element(*rng.pick(&EL_NAMES)), kids)
}

fn gen_doc(rng: &mut Rng) -> GTree {
    let mut kids = vec![];
    for _ in 0..rng.below(3) {
        kids.push(gen_misc(rng));
    }
    kids.push(gen_elem(rng, 0));
    for _ in 0..rng.below(3) {
        kids.push(gen_misc(rng));
    }
    GTree::new(GValue::Document, kids)
}

fn is_text(t: &GTree) -> bool {
    matches!(t.v, GValue::Text(_))
}

// ---------------------------------------------------------------------------------------------
// a running program

struct Run<'a> {
    s: &'a mut Session,
    sink: &'a mut Sink,
    rng: &'a mut Rng,
    /// inputs ++ results, as nodes of the crate
    env: Vec<Node>,
    inputs: Vec<usize>,
    text: Vec<String>,
    failed: Option<String>,
    mark: usize,
}

impl<'a> Run<'a> {
    fn new(s: &'a mut Session, sink: &'a mut Sink, rng: &'a mut Rng, inputs: Vec<usize>) -> Self {
        let mark = sink.lines.len();
        let env = inputs.iter().map(|&l| s.nodes[l]).collect();
        Run { s, sink, rng, env, inputs, text: vec![], failed: None, mark }
    }
    fn lab(&self, i: usize) -> usize {
        self.s.label[&self.env[i]]
    }
    /// an update step: forest request + program text; the answer must be `ok`
    fn step(&mut self, req: String, text: String) -> Option<usize> {
        if self.failed.is_some() {
            return None;
        }
        let resp = self.s.exec(self.sink, &req);
        self.text.push(text.clone());
        if resp == "ok" {
            None
        } else if let Some(l) = resp.strip_prefix("ok ") {
            Some(l.parse().unwrap())
        } else {
            self.failed = Some(format!("step `{}` (request `{}`) answered {}", text, req, resp));
            None
        }
    }
    fn result(&mut self, n: Option<Node>, text: String) -> usize {
        self.text.push(text.clone());
        match n {
            Some(n) => self.env.push(n),
            None => {
                if self.failed.is_none() {
                    self.failed = Some(format!("navigation `{}` found nothing", text));
                }
                let dummy = self.env[0];
                self.env.push(dummy);
            }
        }
        self.env.len() - 1
    }
    fn create(&mut self, v: &GValue) -> usize {
        let w = GTree::leaf(v.clone()).wire();
        match self.step(format!("new {}", w), format!("new {}", w)) {
            Some(l) => self.env.push(self.s.nodes[l]),
            None => {
                let dummy = self.env.first().copied().unwrap_or(self.s.nodes[0]);
                self.env.push(dummy)
            }
        }
        self.env.len() - 1
    }
    fn clone_node(&mut self, n: usize) -> usize {
        match self.step(format!("clone {}", self.lab(n)), format!("clone {}", n)) {
            Some(l) => self.env.push(self.s.nodes[l]),
            None => {
                let dummy = self.env[0];
                self.env.push(dummy)
            }
        }
        self.env.len() - 1
    }
    fn op2(&mut self, op: &str, a: usize, b: usize) {
        self.step(format!("{} {} {}", op, self.lab(a), self.lab(b)), format!("{} {} {}", op, a, b));
    }
    fn op1(&mut self, op: &str, a: usize) {
        self.step(format!("{} {}", op, self.lab(a)), format!("{} {}", op, a));
    }
    fn op1s(&mut self, op: &str, a: usize, arg: &str) {
        self.step(format!("{} {} {}", op, self.lab(a), arg), format!("{} {} {}", op, a, arg));
    }
    fn set_ns(&mut self, e: usize, p: usize, n: usize) {
        self.step(format!("map_insert ns {} {} {}", self.lab(e), p, n), format!("set_ns {} {} {}", e, p, n));
    }
    fn set_attr(&mut self, e: usize, n: usize, v: &str) {
        self.step(format!("map_insert attr {} {} {}", self.lab(e), n, enc(v)), format!("set_attr {} {} {}", e, n, enc(v)));
    }
    fn clear(&mut self, e: usize, attr: bool) {
        let (k, t) = if attr { ("attr", "clear_attributes") } else { ("ns", "clear_namespaces") };
        self.step(format!("map_clear {} {}", k, self.lab(e)), format!("{} {}", t, e));
    }
    // navigation, on the crate
    fn child(&mut self, r: usize, k: usize) -> usize {
        let n = if self.failed.is_some() { None } else { self.s.xot.children(self.env[r]).nth(k) };
        self.sink.stat("nav.child");
        self.result(n, format!("child {} {}", r, k))
    }
    fn parent(&mut self, r: usize) -> usize {
        let n = if self.failed.is_some() { None } else { self.s.xot.parent(self.env[r]) };
        self.sink.stat("nav.parent");
        self.result(n, format!("parent {}", r))
    }
    fn attr_node(&mut self, r: usize, name: usize) -> usize {
        let id = self.s.vocab.name(name);
        let n = if self.failed.is_some() { None } else { self.s.xot.attributes(self.env[r]).get_node(id) };
        self.sink.stat("nav.attr_node");
        self.result(n, format!("attr_node {} {}", r, name))
    }
    fn ns_node(&mut self, r: usize, p: usize) -> usize {
        let id = self.s.vocab.prefix(p);
        let n = if self.failed.is_some() { None } else { self.s.xot.namespaces(self.env[r]).get_node(id) };
        self.sink.stat("nav.ns_node");
        self.result(n, format!("ns_node {} {}", r, p))
    }

    /// The denotation read off the crate: the root tree of every input and result.
    fn denotation(&mut self) -> String {
        let mut out = vec![];
        for i in 0..self.env.len() {
            let n = self.env[i];
            if self.s.xot.is_removed(n) {
                out.push("-".to_string());
            } else {
                let mut r = n;
                while let Some(p) = self.s.xot.parent(r) {
                    r = p;
                }
                out.push(read_tree(&self.s.xot, &mut self.s.vocab, r).wire());
            }
        }
        out.join(" , ")
    }

    /// Send the whole program to the specification and to the model's interpreter.
    fn finish(mut self, route: &str) -> Result<(), String> {
        if let Some(f) = self.failed.take() {
            return Err(f);
        }
        let content = erase_labels(&self.s.dump());
        let den = self.denotation();
        let ins: Vec<String> = self.inputs.iter().map(|l| l.to_string()).collect();
        let mut program = format!("in {}", ins.join(" "));
        if ins.is_empty() {
            program = "in".to_string();
        }
        for t in &self.text {
            program.push_str(" ; ");
            program.push_str(t);
        }
        let expected = format!("{} | {}", content, den);
        self.sink.lines.insert(self.mark, (format!("forest prog3 spec {}", program), expected.clone()));
        self.sink.lines.insert(self.mark + 1, (format!("forest prog3 impl {}", program), format!("ok {}", expected)));
        self.sink.stat(&format!("route.{}", route));
        self.sink.stat(&format!("steps.{}", match self.text.len() { 0..=10 => "1-10", 11..=25 => "11-25", 26..=60 => "26-60", _ => "61+" }));
        Ok(())
    }
}

fn entries(t: &GTree) -> (Vec<(usize, usize)>, Vec<(usize, String)>, Vec<&GTree>) {
    let mut ns = vec![];
    let mut at = vec![];
    let mut normal = vec![];
    for k in &t.kids {
        match &k.v {
            GValue::Namespace(p, n) => ns.push((*p, *n)),
            GValue::Attribute(a, v) => at.push((*a, v.clone())),
            _ => normal.push(k),
        }
    }
    (ns, at, normal)
}

// ---------------------------------------------------------------------------------------------
// route A: top-down, children re-addressed by navigation

fn topdown_fill(r: &mut Run, e: usize, t: &GTree) {
    let (ns, at, normal) = entries(t);
    let late_entries = r.rng.chance(1, 3);
    if !late_entries {
        for (p, n) in &ns { r.set_ns(e, *p, *n); }
        for (a, v) in &at { r.set_attr(e, *a, v); }
    }
    for (i, k) in normal.iter().enumerate() {
        let c = r.create(&k.v);
        r.op2("append", e, c);
        if matches!(k.v, GValue::Element(_)) {
            let target = if r.rng.chance(2, 3) { r.child(e, i) } else { c };
            topdown_fill(r, target, k);
            if r.rng.chance(1, 4) {
                // and back up
                let up = r.parent(target);
                let _ = up;
            }
        }
    }
    if late_entries {
        for (p, n) in &ns { r.set_ns(e, *p, *n); }
        for (a, v) in &at { r.set_attr(e, *a, v); }
    }
}

/// A parentless copy of `t`, built top-down; returns its index.
fn topdown_new(r: &mut Run, t: &GTree) -> usize {
    let c = r.create(&t.v);
    if matches!(t.v, GValue::Element(_) | GValue::Document) {
        topdown_fill(r, c, t);
    }
    c
}

// ---------------------------------------------------------------------------------------------
// route B: bottom-up, through a clone

fn bottomup(r: &mut Run, t: &GTree) -> usize {
    let (ns, at, normal) = entries(t);
    let kids: Vec<usize> = normal.iter().map(|k| bottomup(r, k)).collect();
    let e = r.create(&t.v);
    if matches!(t.v, GValue::Element(_)) {
        for (p, n) in &ns { r.set_ns(e, *p, *n); }
        for (a, v) in &at { r.set_attr(e, *a, v); }
        for k in kids { r.op2("append", e, k); }
    }
    e
}

fn route_clone(r: &mut Run, t: &GTree) -> usize {
    let i = t.kids.iter().position(|k| matches!(k.v, GValue::Element(_))).unwrap();
    let scratch = r.create(&GValue::Element(JUNK_NAME));
    let e = bottomup(r, &t.kids[i]);
    r.op2("append", scratch, e);
    let copy = r.clone_node(scratch);
    let e2 = r.child(copy, 0);
    let doc = r.create(&GValue::Document);
    r.op2("append", doc, e2);
    r.op1("remove", copy);
    r.op1("remove", scratch);
    // the document element seen from the document node
    let e3 = r.child(doc, 0);
    for k in &t.kids[..i] {
        let c = r.create(&k.v);
        r.op2("insert_before", e3, c);
    }
    for k in &t.kids[i + 1..] {
        let c = r.create(&k.v);
        r.op2("append", doc, c);
    }
    doc
}

// ---------------------------------------------------------------------------------------------
// route C: a mutated document edited in place

enum Slot {
    Keep(MNode),
    Junk(GTree),
    Missing(GTree),
}

struct MNode {
    target: GTree,
    mval: GValue,
    mns: Vec<(usize, usize)>,
    mattrs: Vec<(usize, String)>,
    clear_ns: bool,
    clear_attrs: bool,
    slots: Vec<Slot>,
}

fn junk(rng: &mut Rng, element_ok: bool) -> GTree {
    match rng.below(3) {
        0 if element_ok => GTree::new(GValue::Element(JUNK_NAME), vec![GTree::leaf(GValue::Attribute(2, "j".into())), GTree::leaf(GValue::Text("junk".into()))]),
        1 => GTree::leaf(GValue::PI(JUNK_NAME, None)),
        _ => GTree::leaf(GValue::Comment("JUNK".into())),
    }
}

fn mutate(rng: &mut Rng, t: &GTree, level: u32) -> MNode {
    let ch = |rng: &mut Rng| rng.chance(level as usize, 4);
    let mval = match &t.v {
        GValue::Element(n) => GValue::Element(if ch(rng) { *rng.pick(&EL_NAMES) } else { *n }),
        GValue::Text(s) => GValue::Text(if ch(rng) { format!("m{}", small(rng)) } else { s.clone() }),
        GValue::Comment(s) => GValue::Comment(if ch(rng) { format!("old {}", small(rng)) } else { s.clone() }),
        GValue::PI(tg, d) => GValue::PI(
            if ch(rng) { *rng.pick(&[18usize, 19]) } else { *tg },
            if ch(rng) { if rng.chance(1, 2) { None } else { Some(small(rng)) } } else { d.clone() },
        ),
        v => v.clone(),
    };
    let (ns, at, normal) = entries(t);
    let mut m = MNode { target: t.clone(), mval, mns: vec![], mattrs: vec![], clear_ns: false, clear_attrs: false, slots: vec![] };
    if matches!(t.v, GValue::Element(_)) {
        // namespaces
        if rng.chance(1, 5) {
            m.clear_ns = true;
            for p in subset(rng, &PREFIXES, 3) { m.mns.push((p, *rng.pick(&NSS))); }
        } else {
            let mut extras: Vec<usize> = PREFIXES.iter().copied().filter(|p| !ns.iter().any(|x| x.0 == *p)).collect();
            for (p, n) in &ns {
                if !extras.is_empty() && ch(rng) { let x = extras.remove(0); m.mns.push((x, *rng.pick(&NSS))); }
                m.mns.push((*p, if ch(rng) { *rng.pick(&NSS) } else { *n }));
            }
            if !extras.is_empty() && ch(rng) { let x = extras.remove(0); m.mns.push((x, *rng.pick(&NSS))); }
        }
        // attributes
        if rng.chance(1, 5) {
            m.clear_attrs = true;
            for a in subset(rng, &ATTR_NAMES, 3) { m.mattrs.push((a, small(rng))); }
        } else {
            let mut extras: Vec<usize> = ATTR_NAMES.iter().copied().filter(|a| !at.iter().any(|x| x.0 == *a)).collect();
            for (a, v) in &at {
                if !extras.is_empty() && ch(rng) { let x = extras.remove(0); m.mattrs.push((x, small(rng))); }
                m.mattrs.push((*a, if ch(rng) { small(rng) } else { v.clone() }));
            }
            if !extras.is_empty() && ch(rng) { let x = extras.remove(0); m.mattrs.push((x, small(rng))); }
        }
    }
    let is_doc = matches!(t.v, GValue::Document);
    for (i, k) in normal.iter().enumerate() {
        if ch(rng) && rng.chance(1, 2) {
            m.slots.push(Slot::Junk(junk(rng, !is_doc)));
        }
        let left_text = i > 0 && is_text(normal[i - 1]);
        let right_text = i + 1 < normal.len() && is_text(normal[i + 1]);
        let can_miss = !left_text && !right_text && !(is_doc && matches!(k.v, GValue::Element(_)));
        if can_miss && ch(rng) && rng.chance(1, 3) {
            m.slots.push(Slot::Missing((*k).clone()));
        } else {
            m.slots.push(Slot::Keep(mutate(rng, k, level)));
        }
    }
    if matches!(t.v, GValue::Element(_) | GValue::Document) && ch(rng) && rng.chance(1, 2) {
        m.slots.push(Slot::Junk(junk(rng, !is_doc)));
    }
    m
}

fn mutated_tree(m: &MNode) -> GTree {
    let mut kids = vec![];
    for (p, n) in &m.mns { kids.push(GTree::leaf(GValue::Namespace(*p, *n))); }
    for (a, v) in &m.mattrs { kids.push(GTree::leaf(GValue::Attribute(*a, v.clone()))); }
    for s in &m.slots {
        match s {
            Slot::Keep(k) => kids.push(mutated_tree(k)),
            Slot::Junk(j) => kids.push(j.clone()),
            Slot::Missing(_) => {}
        }
    }
    GTree::new(m.mval.clone(), kids)
}

fn edit(r: &mut Run, n: usize, m: &MNode) {
    // the value
    match (&m.target.v, &m.mval) {
        (GValue::Element(a), GValue::Element(b)) => {
            if a != b { r.op1s("set_name", n, &a.to_string()); r.sink.stat("edit.set_name"); }
        }
        (GValue::Text(a), GValue::Text(b)) => {
            if a != b { r.op1s("set_text", n, &enc(a)); r.sink.stat("edit.set_text"); }
        }
        (GValue::Comment(a), GValue::Comment(b)) => {
            if a != b { r.op1s("set_comment", n, &enc(a)); r.sink.stat("edit.set_comment"); }
        }
        (GValue::PI(ta, da), GValue::PI(tb, db)) => {
            if ta != tb { r.op1s("pi_set_target", n, &ta.to_string()); r.sink.stat("edit.pi_set_target"); }
            if da != db {
                let arg = match da { None => "-".to_string(), Some(d) => enc(d) };
                r.op1s("set_pi_data", n, &arg);
                r.sink.stat("edit.set_pi_data");
            }
        }
        _ => {}
    }
    let (ns, at, _) = entries(&m.target);
    if matches!(m.target.v, GValue::Element(_)) {
        if m.clear_ns {
            r.clear(n, false);
            r.sink.stat("edit.clear_namespaces");
            for (p, x) in &ns { r.set_ns(n, *p, *x); }
        } else {
            for (p, x) in &m.mns {
                match ns.iter().find(|y| y.0 == *p) {
                    None => { r.op1s("remove_namespace", n, &p.to_string()); r.sink.stat("edit.remove_namespace"); }
                    Some((_, want)) if want != x => {
                        if r.rng.chance(2, 3) {
                            let nn = r.ns_node(n, *p);
                            r.op1s("ns_set_ns", nn, &want.to_string());
                            r.sink.stat("edit.ns_set_ns");
                            if r.rng.chance(1, 3) { let _ = r.parent(nn); }
                        } else {
                            r.set_ns(n, *p, *want);
                        }
                    }
                    _ => {}
                }
            }
            if r.rng.chance(1, 6) {
                // removing what is not there changes nothing
                let absent: Vec<usize> = PREFIXES.iter().copied().filter(|p| !ns.iter().any(|y| y.0 == *p)).collect();
                if let Some(p) = absent.first() { r.op1s("remove_namespace", n, &p.to_string()); r.sink.stat("edit.remove_namespace.absent"); }
            }
        }
        if m.clear_attrs {
            r.clear(n, true);
            r.sink.stat("edit.clear_attributes");
            for (a, v) in &at { r.set_attr(n, *a, v); }
        } else {
            for (a, v) in &m.mattrs {
                match at.iter().find(|y| y.0 == *a) {
                    None => { r.op1s("remove_attribute", n, &a.to_string()); r.sink.stat("edit.remove_attribute"); }
                    Some((_, want)) if want != v => {
                        if r.rng.chance(2, 3) {
                            let an = r.attr_node(n, *a);
                            r.op1s("attr_set_value", an, &enc(want));
                            r.sink.stat("edit.attr_set_value");
                        } else {
                            r.set_attr(n, *a, want);
                        }
                    }
                    _ => {}
                }
            }
            if r.rng.chance(1, 6) {
                let absent: Vec<usize> = ATTR_NAMES.iter().copied().filter(|a| !at.iter().any(|y| y.0 == *a)).collect();
                if let Some(a) = absent.first() { r.op1s("remove_attribute", n, &a.to_string()); r.sink.stat("edit.remove_attribute.absent"); }
            }
        }
    }
    // the children
    let total_present = m.slots.iter().filter(|s| !matches!(s, Slot::Missing(_))).count();
    let mut present_seen = 0usize;
    let mut pos = 0usize;
    for s in &m.slots {
        match s {
            Slot::Junk(_) => {
                let c = r.child(n, pos);
                r.op1("remove", c);
                r.sink.stat("edit.remove_junk");
                present_seen += 1;
            }
            Slot::Keep(k) => {
                let c = r.child(n, pos);
                edit(r, c, k);
                pos += 1;
                present_seen += 1;
            }
            Slot::Missing(g) => {
                let fresh = topdown_new(r, g);
                if present_seen < total_present {
                    let reference = r.child(n, pos);
                    r.op2("insert_before", reference, fresh);
                } else {
                    r.op2("append", n, fresh);
                }
                r.sink.stat("edit.insert_missing");
                pos += 1;
            }
        }
    }
}

// ---------------------------------------------------------------------------------------------

fn fail(sink: &mut Sink, s: &Session, sig: &str, what: &str) {
    sink.fail("C20", sig, what, &s.history);
}

fn one_case(rng: &mut Rng, sink: &mut Sink, level: u32) {
    let mut s = Session::new();
    s.exec(sink, "reset");
    if rng.chance(1, 2) {
        s.exec(sink, "new E 2");
        s.exec(sink, "new T s:78");
        s.exec(sink, "append 0 1");
        s.exec(sink, "new C s:63");
        sink.stat("store.nonempty");
    }
    let t = gen_doc(rng);
    sink.stat(&format!("size.{}", match t.size() { 0..=3 => "1-3", 4..=8 => "4-8", 9..=20 => "9-20", _ => "21+" }));
    let mut built: Vec<(&str, Node)> = vec![];

    // A: top-down with navigation
    {
        let mut r = Run::new(&mut s, sink, rng, vec![]);
        let root = topdown_new(&mut r, &t);
        let node = r.env[root];
        match r.finish("topdown-nav") {
            Ok(()) => built.push(("topdown-nav", node)),
            Err(e) => { fail(sink, &s, "C20:program3-step-refused", &format!("top-down program with navigation for {}: {}", t.wire(), e)); return; }
        }
    }
    s.exec(sink, "dump");
    s.exec(sink, "inv");
    // B: bottom-up through a clone
    {
        let mut r = Run::new(&mut s, sink, rng, vec![]);
        let root = route_clone(&mut r, &t);
        let node = r.env[root];
        match r.finish("bottomup-clone-nav") {
            Ok(()) => built.push(("bottomup-clone-nav", node)),
            Err(e) => { fail(sink, &s, "C20:program3-step-refused", &format!("bottom-up program through a clone for {}: {}", t.wire(), e)); return; }
        }
    }
    s.exec(sink, "dump");
    s.exec(sink, "inv");
    // C: a mutated document, edited in place
    {
        let m = mutate(rng, &t, level);
        let t0 = mutated_tree(&m);
        if t0 == t { sink.stat("edit.nothing-to-do"); }
        let l = build_ops(&mut s, sink, &t0);
        let check = read_tree(&s.xot, &mut s.vocab, s.nodes[l]);
        if check != t0 {
            // the store does not hold what the generator meant (text merged on the way): skip
            sink.stat("edit.skipped-start-differs");
            if std::env::var("XOT_PROG3_DEBUG").is_ok() { eprintln!("WANT {}\nGOT  {}", t0.wire(), check.wire()); }
        } else {
            let mut r = Run::new(&mut s, sink, rng, vec![l]);
            edit(&mut r, 0, &m);
            let node = r.env[0];
            match r.finish("edit-in-place") {
                Ok(()) => built.push(("edit-in-place", node)),
                Err(e) => { fail(sink, &s, "C20:program3-step-refused", &format!("editing {} into {}: {}", t0.wire(), t.wire(), e)); return; }
            }
        }
    }
    s.exec(sink, "dump");
    s.exec(sink, "inv");
    // oracle: the routes agree
    for (route, n) in &built {
        let got = read_tree(&s.xot, &mut s.vocab, *n);
        if got != t {
            fail(sink, &s, "C20:program-routes-differ", &format!("route {} gives {} for the target {}", route, got.wire(), t.wire()));
        }
    }
    for i in 0..built.len() {
        for j in i + 1..built.len() {
            if !s.xot.deep_equal(built[i].1, built[j].1) {
                fail(sink, &s, "C20:program-routes-differ", &format!("routes {} and {} are not deep_equal for the target {}", built[i].0, built[j].0, t.wire()));
            } else {
                sink.stat("oracle.deep_equal");
            }
            let (a, b) = (s.xot.to_string(built[i].1), s.xot.to_string(built[j].1));
            match (a, b) {
                (Ok(x), Ok(y)) => {
                    if x != y {
                        fail(sink, &s, "C20:program-routes-differ", &format!("routes {} and {} serialise differently: `{}` vs `{}`", built[i].0, built[j].0, x, y));
                    } else {
                        sink.stat("oracle.same-serialisation");
                    }
                }
                (Err(_), Err(_)) => sink.stat("oracle.unserialisable"),
                _ => fail(sink, &s, "C20:program-routes-differ", &format!("routes {} and {}: one serialises, the other does not", built[i].0, built[j].0)),
            }
        }
    }
}

pub fn run(seed: u64, count: usize, tier: &str, sink: &mut Sink) {
    let mut rng = Rng::new(seed ^ 0x9A03);
    let n = if tier == "search" { count * 4 } else { count };
    for i in 0..n {
        let level = 1 + (i % 3) as u32;
        one_case(&mut rng, sink, level);
    }
}
